package main

import (
	"fmt"
	"os"
	"path/filepath"

	"wvsa/internal/layout"
	"wvsa/internal/load"
)

// cmdLayout is a development aid: print the I/O event table of a (de)serializer.
func cmdLayout(args []string) int {
	if len(args) < 3 {
		fmt.Fprintln(os.Stderr, "usage: wvsa layout <pkgpath> <recv|-> <func>")
		return 2
	}
	p, err := load.Load(load.Options{Dir: filepath.Join("/repo", "node"), Patterns: []string{"./pkg/...", "./cmd/..."}})
	if err != nil {
		fmt.Fprintln(os.Stderr, err)
		return 2
	}
	recv := args[1]
	if recv == "-" {
		recv = ""
	}
	pk := p.ByPath[args[0]]
	fd := layout.FindFunc(pk, recv, args[2])
	if fd == nil {
		fmt.Fprintln(os.Stderr, "not found")
		return 2
	}
	for _, e := range layout.Extract(pk, fd) {
		fmt.Printf("%-60s order=%s callee=%s\n", e.String(), e.Order, e.Callee)
	}
	return 0
}
