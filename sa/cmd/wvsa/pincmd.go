package main

import (
	"encoding/json"
	"fmt"
	"os"
	"path/filepath"
	"sort"
	"strings"

	"wvsa/internal/facts"
	"wvsa/internal/load"
)

// cmdPinParams (maintenance): writes the current parameter / captured-variable names of every
// repository function to stdout as JSON (see facts.PinnedParams).
func cmdPinParams(args []string) int {
	out := map[string][]string{}
	var funcs []string
	for _, m := range []struct {
		dir  string
		pats []string
	}{{"node", []string{"./pkg/...", "./cmd/..."}}, {"explorer-backend", []string{"./..."}}} {
		p, err := load.Load(load.Options{Dir: filepath.Join("/repo", m.dir), Patterns: m.pats})
		if err != nil {
			fmt.Fprintln(os.Stderr, err)
			return 2
		}
		for _, f := range p.SrcFuncs("") {
			if f.Parent() == nil {
				funcs = append(funcs, facts.FuncName(f))
			}
			var ps, fs []string
			for _, x := range f.Params {
				ps = append(ps, x.Name())
			}
			for _, x := range f.FreeVars {
				fs = append(fs, x.Name())
			}
			if len(ps) > 0 {
				out[facts.FuncName(f)] = ps
			}
			if len(fs) > 0 {
				out[facts.FuncName(f)+"#free"] = fs
			}
		}
	}
	for k, v := range facts.CurrentLocals {
		if len(v) > 0 {
			out[k+"#locals"] = v
		}
	}
	sort.Strings(funcs)
	out["#functions"] = funcs
	b, _ := json.MarshalIndent(out, "", " ")
	os.Stdout.Write(b)
	return 0
}

// loadPinnedParams reads /verif/sa/pinned_params.json (next to the sources) if present.
func loadPinnedParams(verif string) {
	b, err := os.ReadFile(filepath.Join(verif, "sa", "pinned_params.json"))
	if err != nil {
		return
	}
	m := map[string][]string{}
	if json.Unmarshal(b, &m) == nil {
		facts.PinnedParams = m
		for _, f := range m["#functions"] {
			facts.PinnedFuncs[f] = true
		}
		for k, v := range m {
			if strings.HasSuffix(k, "#locals") {
				facts.PinnedLocals[strings.TrimSuffix(k, "#locals")] = v
			}
		}
	}
}
