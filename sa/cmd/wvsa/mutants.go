package main

import (
	"encoding/json"
	"flag"
	"fmt"
	"os"
	"os/exec"
	"path/filepath"
	"sort"
	"strings"
	"sync"

	"wvsa/internal/report"
)

// Mutant is a source edit used only to test the checker: it must make the named rule fire
// (Expect = substring of a violation key) or, for benign variants, leave the check silent.
type Mutant struct {
	ID     string `json:"id"`
	Prop   string `json:"property"`
	File   string `json:"file"` // relative to the repository root
	Old    string `json:"old"`
	New    string `json:"new"`
	Expect string `json:"expect"` // substring of the obligation key that must be reported; "" = benign (must stay silent)
	Note   string `json:"note,omitempty"`
}

func loadMutants(verif string) ([]Mutant, error) {
	var all []Mutant
	files, _ := filepath.Glob(filepath.Join(verif, "mutants", "*.json"))
	sort.Strings(files)
	for _, f := range files {
		b, err := os.ReadFile(f)
		if err != nil {
			return nil, err
		}
		var ms []Mutant
		if err := json.Unmarshal(b, &ms); err != nil {
			return nil, fmt.Errorf("%s: %w", f, err)
		}
		all = append(all, ms...)
	}
	return all, nil
}

func cmdMutants(args []string) int {
	fs := flag.NewFlagSet("mutants", flag.ExitOnError)
	prop := fs.String("p", "", "property id (empty = all)")
	repo := fs.String("repo", "/repo", "")
	verif := fs.String("verif", "/verif", "")
	one := fs.String("one", "", "run a single mutant in this process and print its violations")
	fs.Parse(args)
	if *one != "" {
		return runOneMutant(*one, *repo, *verif)
	}
	return runMutants(*prop, *repo, *verif, true)
}

// runOneMutant applies the mutant through packages.Overlay (the repository is not touched) and
// prints "MUTANT-RESULT <id> <status> <detail>".
func runOneMutant(id, repo, verif string) int {
	ms, err := loadMutants(verif)
	if err != nil {
		fmt.Println("MUTANT-RESULT", id, "error", err)
		return 2
	}
	for _, m := range ms {
		if m.ID != id {
			continue
		}
		abs := filepath.Join(repo, m.File)
		src, err := os.ReadFile(abs)
		if err != nil {
			fmt.Println("MUTANT-RESULT", id, "skipped", "cannot read file")
			return 0
		}
		if strings.Count(string(src), m.Old) != 1 {
			fmt.Println("MUTANT-RESULT", id, "skipped", fmt.Sprintf("anchor text occurs %d times (patch no longer applies)", strings.Count(string(src), m.Old)))
			return 0
		}
		mut := strings.Replace(string(src), m.Old, m.New, 1)
		r := analyse(m.Prop, "quick", repo, verif, map[string][]byte{abs: []byte(mut)})
		known, _ := report.LoadKnown(filepath.Join(verif, "KNOWN_FINDINGS.txt"))
		viol := r.Violations(known)
		var keys []string
		hit := false
		for _, v := range viol {
			keys = append(keys, v.Key)
			if m.Expect != "" && strings.Contains(v.Key, m.Expect) {
				hit = true
			}
		}
		switch {
		case m.Expect == "" && len(viol) == 0:
			fmt.Println("MUTANT-RESULT", id, "silent-as-expected", "")
		case m.Expect == "":
			fmt.Println("MUTANT-RESULT", id, "FALSE-ALARM", strings.Join(keys, " "))
			for _, v := range viol {
				w := v.Why
				if len(w) > 300 {
					w = w[:300] + "…"
				}
				fmt.Println("   ", v.Key, "::", w)
			}
			return 1
		case hit:
			fmt.Println("MUTANT-RESULT", id, "caught", strings.Join(keys, " "))
		default:
			fmt.Println("MUTANT-RESULT", id, "MISSED", "expected key containing "+m.Expect+"; got: "+strings.Join(keys, " "))
			return 1
		}
		return 0
	}
	fmt.Println("MUTANT-RESULT", id, "error", "no such mutant")
	return 2
}

// mutantSummary runs the suite and returns counts and the result lines.
func mutantSummary(prop, repo, verif string) (caught, silent, skipped, bad int, lines []string) {
	ms, err := loadMutants(verif)
	if err != nil {
		return 0, 0, 0, 1, []string{err.Error()}
	}
	self, _ := os.Executable()
	var sel []Mutant
	for _, m := range ms {
		if m.Prop == prop {
			sel = append(sel, m)
		}
	}
	out := make([]string, len(sel))
	sem := make(chan struct{}, 6)
	var wg sync.WaitGroup
	for i, m := range sel {
		wg.Add(1)
		go func(i int, m Mutant) {
			defer wg.Done()
			sem <- struct{}{}
			defer func() { <-sem }()
			b, _ := exec.Command(self, "mutants", "-one", m.ID, "-repo", repo, "-verif", verif).CombinedOutput()
			for _, l := range strings.Split(string(b), "\n") {
				if strings.HasPrefix(l, "MUTANT-RESULT") {
					if len(l) > 240 {
						l = l[:240]
					}
					out[i] = l
				}
			}
		}(i, m)
	}
	wg.Wait()
	for _, l := range out {
		switch {
		case strings.Contains(l, " caught "):
			caught++
		case strings.Contains(l, " silent-as-expected"):
			silent++
		case strings.Contains(l, " skipped "):
			skipped++
		default:
			bad++
		}
	}
	return caught, silent, skipped, bad, out
}

// runMutants runs every mutant of the property, one process each, up to 6 in parallel.
func runMutants(prop, repo, verif string, verbose bool) int {
	ms, err := loadMutants(verif)
	if err != nil {
		fmt.Println("mutants:", err)
		return 2
	}
	self, _ := os.Executable()
	type res struct {
		id, out string
		code    int
	}
	var sel []Mutant
	for _, m := range ms {
		if prop == "" || m.Prop == prop {
			sel = append(sel, m)
		}
	}
	results := make([]res, len(sel))
	sem := make(chan struct{}, 6)
	var wg sync.WaitGroup
	for i, m := range sel {
		wg.Add(1)
		go func(i int, m Mutant) {
			defer wg.Done()
			sem <- struct{}{}
			defer func() { <-sem }()
			cmd := exec.Command(self, "mutants", "-one", m.ID, "-repo", repo, "-verif", verif)
			out, err := cmd.CombinedOutput()
			code := 0
			if err != nil {
				code = 1
			}
			results[i] = res{m.ID, string(out), code}
		}(i, m)
	}
	wg.Wait()
	bad, caught, silent, skipped := 0, 0, 0, 0
	for _, r := range results {
		line := ""
		for _, l := range strings.Split(r.out, "\n") {
			if strings.HasPrefix(l, "MUTANT-RESULT") {
				line = l
			}
		}
		switch {
		case strings.Contains(line, " caught "):
			caught++
		case strings.Contains(line, " silent-as-expected"):
			silent++
		case strings.Contains(line, " skipped "):
			skipped++
		default:
			bad++
			fmt.Print(r.out)
		}
		if verbose && line != "" {
			fmt.Println(line)
		}
	}
	fmt.Printf("mutant suite %s: %d mutants caught, %d benign variants silent, %d skipped (no longer apply), %d failures\n", prop, caught, silent, skipped, bad)
	if bad > 0 {
		return 1
	}
	return 0
}
