// wvsa — static verification of alephium/wormhole-fork properties C01–C20 (see /verif/DESIGN.md).
package main

import (
	"flag"
	"fmt"
	"os"
	"path/filepath"
	"runtime/debug"
	"strconv"
	"strings"

	"wvsa/internal/report"
	"wvsa/rules"
)

func main() {
	if len(os.Args) < 2 {
		usage()
	}
	switch os.Args[1] {
	case "check":
		os.Exit(cmdCheck(os.Args[2:]))
	case "facts":
		os.Exit(cmdFacts(os.Args[2:]))
	case "pinparams":
		os.Exit(cmdPinParams(os.Args[2:]))
	case "layout":
		os.Exit(cmdLayout(os.Args[2:]))
	case "mutants":
		os.Exit(cmdMutants(os.Args[2:]))
	case "list":
		for _, id := range rules.IDs() {
			fmt.Println(id)
		}
	default:
		usage()
	}
}

func usage() {
	fmt.Fprintln(os.Stderr, "usage: wvsa check -p C01 [-tier quick|thorough] [-repo /repo] [-verif /verif] | wvsa facts … | wvsa mutants … | wvsa list")
	os.Exit(2)
}

func cmdCheck(args []string) int {
	fs := flag.NewFlagSet("check", flag.ExitOnError)
	prop := fs.String("p", "", "property id")
	tier := fs.String("tier", envOr("VERIF_TIER", "quick"), "quick|thorough")
	repo := fs.String("repo", "/repo", "repository root")
	verif := fs.String("verif", "/verif", "verif root (evidence, known findings)")
	noEvidence := fs.Bool("no-evidence", false, "write evidence to a temp dir (self-test)")
	fs.Parse(args)
	if *tier != "quick" && *tier != "thorough" {
		*tier = "quick"
	}
	if _, ok := rules.Registry[*prop]; !ok {
		fmt.Fprintf(os.Stderr, "unknown property %q\n", *prop)
		return 2
	}
	seed, _ := strconv.ParseInt(os.Getenv("VERIF_SEED"), 10, 64)
	out := *verif
	if *noEvidence {
		d, _ := os.MkdirTemp("", "wvsa-ev")
		defer os.RemoveAll(d)
		out = d
	}
	r := analyse(*prop, *tier, *repo, *verif, nil)
	known, err := report.LoadKnown(filepath.Join(*verif, "KNOWN_FINDINGS.txt"))
	if err != nil {
		fmt.Fprintln(os.Stderr, "known findings:", err)
		return 2
	}
	if *tier == "thorough" && !*noEvidence && len(r.Violations(known)) == 0 {
		// thorough = the same rules + the property's mutant sensitivity suite (checker self-test through
		// packages.Overlay; /repo is not touched). Its outcome is evidence, not a property verdict.
		caught, silent, skipped, bad, lines := mutantSummary(*prop, *repo, *verif)
		r.Extra["mutant_suite"] = map[string]any{"caught": caught, "benign_silent": silent, "skipped_no_longer_apply": skipped, "unexpected": bad, "results": lines}
		fmt.Printf("mutant suite %s: %d caught, %d benign silent, %d skipped, %d unexpected\n", *prop, caught, silent, skipped, bad)
		if bad > 0 {
			fmt.Printf("SELF-TEST WARNING: %d mutants of %s did not behave as recorded (see evidence)\n", bad, *prop)
		}
	}
	return r.Finish(out, known, seed)
}

func runProperty(prop, tier, repo, verif, outDir string, overlay map[string][]byte, seed int64) (code int) {
	r := analyse(prop, tier, repo, verif, overlay)
	known, err := report.LoadKnown(filepath.Join(verif, "KNOWN_FINDINGS.txt"))
	if err != nil {
		fmt.Fprintln(os.Stderr, "known findings:", err)
		return 2
	}
	return r.Finish(outDir, known, seed)
}

func analyse(prop, tier, repo, verif string, overlay map[string][]byte) *report.Rep {
	loadPinnedParams(verif)
	r := report.New(prop, tier)
	r.Explain = rules.Explain[prop]
	c := &rules.Ctx{Repo: repo, Verif: verif, Tier: tier, Overlay: overlay, R: r}
	func() {
		defer func() {
			if e := recover(); e != nil {
				if u, ok := e.(rules.Undecided); ok {
					r.Fail(prop+".undecided", prop+".undecided/"+shortWhy(u.Why), "", "analysis could not decide", u.Error())
					return
				}
				r.Fail(prop+".undecided", prop+".undecided/checker-panic", "", "checker panic", fmt.Sprintf("undecided: checker panic: %v\n%s", e, debug.Stack()))
			}
		}()
		rules.Registry[prop](c)
	}()
	return r
}

func shortWhy(s string) string {
	s = strings.Map(func(r rune) rune {
		if r == ' ' || r == '/' || r == '\n' {
			return '_'
		}
		return r
	}, s)
	if len(s) > 60 {
		s = s[:60]
	}
	return s
}

func envOr(k, d string) string {
	if v := os.Getenv(k); v != "" {
		return v
	}
	return d
}
