package main

import (
	"flag"
	"fmt"
	"os"
	"path/filepath"
	"strings"

	"golang.org/x/tools/go/ssa"

	"wvsa/internal/facts"
	"wvsa/internal/load"
)

// cmdFacts is a development aid: print the must-hold facts at every sink of a kind in the
// functions whose name contains -fn.
func cmdFacts(args []string) int {
	loadPinnedParams("/verif")
	fs := flag.NewFlagSet("facts", flag.ExitOnError)
	repo := fs.String("repo", "/repo", "")
	mod := fs.String("mod", "node", "node|explorer-backend")
	fn := fs.String("fn", "", "substring of function name")
	sink := fs.String("sink", "CALL:", "CALL:<substr>|MAPUPDATE|SEND|DELETE|RETURN|STORE:<field>|PANIC|ALL")
	dump := fs.Bool("dump", false, "dump SSA of the functions")
	fs.Parse(args)
	pats := []string{"./pkg/...", "./cmd/..."}
	if *mod != "node" {
		pats = []string{"./...", "github.com/alephium/wormhole-fork/node/pkg/vaa", "github.com/alephium/wormhole-fork/node/pkg/processor"}
	}
	var reviewed func(string) bool
	if len(facts.PinnedFuncs) > 0 {
		reviewed = func(n string) bool { return facts.PinnedFuncs[n] }
	}
	p, err := load.Load(load.Options{Dir: filepath.Join(*repo, *mod), Patterns: pats, Reviewed: reviewed})
	if err != nil {
		fmt.Fprintln(os.Stderr, err)
		return 2
	}
	if len(p.InlinedSites) > 0 || p.InlineNote != "" {
		fmt.Println("inlined:", p.InlinedSites, "skipped:", p.InlineSkipped, p.InlineNote)
	}
	fmt.Printf("loaded %d roots, %d visited, errs %v in %v\n", len(p.Roots), p.Visited, p.ErrPkgs, p.LoadTime)
	for _, f := range p.SrcFuncs("") {
		if !strings.Contains(facts.FuncName(f), *fn) {
			continue
		}
		fmt.Println("FUNC", facts.FuncName(f))
		if *dump {
			f.WriteTo(os.Stdout)
		}
		for _, b := range f.Blocks {
			for _, ins := range b.Instrs {
				desc := ""
				switch x := ins.(type) {
				case ssa.CallInstruction:
					name := facts.CalleeName(x.Common())
					if strings.HasPrefix(*sink, "CALL:") && strings.Contains(name, strings.TrimPrefix(*sink, "CALL:")) && *sink != "CALL:" {
						desc = "call " + name
						if v, ok := ins.(ssa.Value); ok {
							desc = "call " + facts.Term(v)
						}
					}
					if bi, ok := x.Common().Value.(*ssa.Builtin); ok {
						if bi.Name() == "delete" && *sink == "DELETE" {
							desc = "delete " + facts.Term(x.Common().Args[0]) + " key=" + facts.Term(x.Common().Args[1])
						}
					}
				case *ssa.MapUpdate:
					if *sink == "MAPUPDATE" {
						desc = "mapupdate " + facts.Term(x.Map) + " key=" + facts.Term(x.Key) + " val=" + facts.Term(x.Value)
					}
				case *ssa.Send:
					if *sink == "SEND" {
						desc = "send " + facts.Term(x.Chan) + " <- " + facts.Term(x.X)
					}
				case *ssa.Return:
					if *sink == "RETURN" {
						desc = "return"
						for _, rv := range x.Results {
							desc += " " + facts.Term(rv)
						}
					}
				case *ssa.Store:
					if strings.HasPrefix(*sink, "STORE:") && strings.Contains(facts.Term(x.Addr), strings.TrimPrefix(*sink, "STORE:")) {
						desc = "store " + facts.Term(x.Addr) + " = " + facts.Term(x.Val)
					}
				case *ssa.Panic:
					if *sink == "PANIC" {
						desc = "panic " + facts.Term(x.X)
					}
				}
				if desc == "" {
					continue
				}
				fmt.Printf(" SINK %s  [block %d, %s]\n", desc, b.Index, p.Pos(ins.Pos()))
				for _, a := range facts.Atoms(facts.At(ins, nil)) {
					fmt.Println("     ", a)
				}
			}
		}
	}
	return 0
}
