package rules

import (
	"fmt"
	"go/token"
	"go/types"
	"strings"

	"golang.org/x/tools/go/ssa"

	"wvsa/internal/facts"
	"wvsa/internal/load"
)

const (
	pkgXProc  = ExplorerMod + "/processor"
	pkgXGS    = ExplorerMod + "/guardiansets"
	pkgXDedup = ExplorerMod + "/deduplicator"
)

func init() {
	register("C19", "Static rules on module explorer-backend (and the pinned node copy it links): (gate) the only send on vaaGossipConsumer.messageQueue sits in a function literal created in Push; the facts holding at the literal's creation site are inherited (they are over immutable SSA values) and must include verifyVAA(v, guardianSet.Keys) == nil with guardianSet = GetGuardianSet(ctx, int(v.GuardianSetIndex)) for the same v that is queued; verifyVAA's accepting return requires non-nil keys, non-empty signatures, count >= CalculateQuorum(len(keys)) and VerifySignatures(keys); the hand-off is a select with default that reports a full queue as an error; (lockset) every access to GuardianSets.currentGuardianSetIndex and guardianSetLists outside the constructor holds GuardianSets.lock on every path (lock-state data flow); (index-aligned) the set returned for index i is element i of the list, the list is mutated only by the single append in updateGuardianSets and the current index is stored only there; (dedup) the key is marked seen only after the callback returned nil.", c19)
}

func c19(c *Ctx) {
	p, R := c.Explorer(), c.R
	R.Trust("go/types + go/ssa", "sync.Mutex semantics", "VerifySignatures / CalculateQuorum of the pinned node copy (checked by C06/C07 on that copy)", "the contiguous ranges fetched from chain start at current+1 (value-level, not decided)")
	loopVarRule(c, p, "C19.loopvar", pkgXProc, pkgXGS, pkgXDedup)
	R.Assumption("concurrent interleavings are addressed by lock discipline, not explored")
	push := must(p.Method(pkgXProc, "vaaGossipConsumer", "Push"), "explorer processor.(*vaaGossipConsumer).Push")
	verify := must(p.Func(pkgXProc, "verifyVAA"), "explorer processor.verifyVAA")
	mq := must(p.FieldOf(pkgXProc, "vaaGossipConsumer", "messageQueue"), "vaaGossipConsumer.messageQueue")

	// ---- gate
	n := 0
	for _, sd := range allSends(p, ExplorerMod) {
		if loadedField(sd.Chan) != mq {
			continue
		}
		n++
		key := R.Key("C19.gate", shortFn(sd.Fn), "send:messageQueue")
		pos := c.rel(p.Pos(sd.Instr.Pos()))
		if top(sd.Fn) != push || sd.Fn.Parent() != push {
			R.Fail("C19.gate", key, pos, "hand-off to the persistence queue outside Push", "unlisted sender on messageQueue")
			continue
		}
		// creation site of the literal
		var mc *ssa.MakeClosure
		eachInstr(push, func(i ssa.Instruction) {
			if m, ok := i.(*ssa.MakeClosure); ok && m.Fn == sd.Fn {
				mc = m
			}
		})
		if mc == nil {
			R.Fail("C19.gate", key, pos, "hand-off closure", "undecided: creation site not found")
			continue
		}
		fs := facts.At(mc, nil)
		gsCall := "(*X/guardiansets.GuardianSets).GetGuardianSet(p.guardianSets,ctx,v.GuardianSetIndex)"
		c.checkFacts(p, "C19.gate", push, "closure:hand-off", mc, fs, []req{
			{Name: "guardian set fetched for the index the VAA carries, without error", Pred: func(a string) bool { return a == gsCall+"#1 == nil" }},
			{Name: "verifyVAA(v, that set's keys) == nil", Pred: func(a string) bool { return a == fname(verify)+"(v,"+gsCall+"#0.Keys) == nil" }},
		})
		// the queued message carries the same v
		var bound = map[string]string{}
		for k, fv := range sd.Fn.FreeVars {
			bound[fv.Name()] = facts.Term(mc.Bindings[k])
		}
		okMsg := false
		// (the literal is built inside the hand-off closure, or in Push itself and captured)
		if al, ok := resolveSpill(sd.X).(*ssa.Alloc); ok {
			vals, _ := allocStores(al)
			// (a captured variable renders as `x` or, when it lives in a cell shared with the
			// enclosing function, as `local:x`)
			same := func(t, name string) bool { return t == name || t == "local:"+name }
			okMsg = same(termOrNil(vals["vaa"]), "v") && (al.Parent() == push || same(bound["v"], "v"))
			okMsg = okMsg && same(termOrNil(vals["serialized"]), "serializedVaa")
		}
		R.Check("C19.gate", R.Key("C19.gate", shortFn(sd.Fn), "message"), pos, "the queued message carries the verified VAA and its serialized bytes", okMsg, fmt.Sprintf("bindings %v; message fields %v", bound, c19vals(sd.X)))
		R.Check("C19.gate", R.Key("C19.gate", shortFn(sd.Fn), "nonblocking"), pos, "the hand-off is a select with default (a full queue does not block)", sd.InSelect && !sd.Blocking, "blocking send")
		// closure returns nil only when the send case was taken
		for _, r := range acceptingReturns(sd.Fn) {
			fsr := facts.Atoms(acceptFacts(r))
			R.Check("C19.gate", R.Key("C19.gate", shortFn(sd.Fn), "return:nil"), c.rel(p.Pos(instrPos(r))), "the callback reports success only when the message was queued", len(fsr) == 1 && fsr[0] == "0 == select#0", strings.Join(fsr, ";"))
		}
		R.Sample(map[string]any{"sink": "messageQueue <- message", "inherited_facts": facts.Atoms(fs)})
	}
	R.Floor("C19.gate", n, 1)
	// verifyVAA summary
	for _, r := range acceptingReturns(verify) {
		fs := acceptFacts(r)
		c.checkFacts(p, "C19.gate", verify, "return:nil", r, fs, []req{
			{Name: "keys non-nil", Pred: func(a string) bool { return a == "addresses != nil" }},
			{Name: "signatures non-empty", Pred: func(a string) bool { return a == "0 != len(v.Signatures)" }},
			{Name: "len(signatures) >= CalculateQuorum(len(keys))", Pred: func(a string) bool { return a == "N/processor.CalculateQuorum(len(addresses)) <= len(v.Signatures)" }},
			{Name: "VerifySignatures(keys)", Pred: func(a string) bool { return a == "(*N/vaa.VAA).VerifySignatures(v,addresses)" }},
		})
	}

	// ---- lockset
	lock := must(p.FieldOf(pkgXGS, "GuardianSets", "lock"), "GuardianSets.lock")
	cur := must(p.FieldOf(pkgXGS, "GuardianSets", "currentGuardianSetIndex"), "GuardianSets.currentGuardianSetIndex")
	lst := must(p.FieldOf(pkgXGS, "GuardianSets", "guardianSetLists"), "GuardianSets.guardianSetLists")
	ctor := must(p.Func(pkgXGS, "NewGuardianSets"), "NewGuardianSets")
	na := 0
	for _, fld := range []*ssaField{{cur, "currentGuardianSetIndex"}, {lst, "guardianSetLists"}} {
		for _, s := range fieldAccesses(p, fld.v) {
			if s.Fn == ctor && isFreshAlloc(s.Instr.(ssa.Value)) {
				continue
			}
			na++
			held := heldAt(p, s.Fn, s.Instr, lock, false, 0)
			R.Check("C19.lockset", R.Key("C19.lockset", shortFn(s.Fn), "access:"+fld.name), c.rel(p.Pos(s.Instr.Pos())), "access to GuardianSets."+fld.name+" in "+shortFn(s.Fn)+" holds GuardianSets.lock", held,
				"the field is read without the lock while updateGuardianSets writes it under the lock (the index is stored before the list is appended, so an unlocked reader can index past the list or pair a new index with the old list)")
		}
	}
	R.Floor("C19.lockset", na, 8)

	c19indexAligned(c, p, "C19.index-aligned")

	// ---- dedup
	apply := must(p.Method(pkgXDedup, "Deduplicator", "Apply"), "Deduplicator.Apply")
	ns := 0
	eachInstr(apply, func(i ssa.Instruction) {
		cl, ok := i.(*ssa.Call)
		if !ok || !cl.Call.IsInvoke() || cl.Call.Method.Name() != "Set" {
			return
		}
		ns++
		fs := facts.Atoms(facts.At(cl, nil))
		ok2 := false
		for _, a := range fs {
			if a == "dyn:fn() == nil" {
				ok2 = true
			}
		}
		R.Check("C19.dedup", R.Key("C19.dedup", shortFn(apply), "cache.Set"), c.rel(p.Pos(cl.Pos())), "a key is marked as seen only after the callback succeeded (a failed hand-off can be retried by a later copy)", ok2, strings.Join(fs, ";"))
	})
	R.Floor("C19.dedup", ns, 1)
	// Push calls Apply with the VAA's message id as key
	okKey := false
	eachInstr(push, func(i ssa.Instruction) {
		if cl, ok := i.(*ssa.Call); ok && cl.Call.StaticCallee() == apply {
			okKey = strings.HasPrefix(facts.Term(cl.Call.Args[2]), "(*N/vaa.VAA).MessageID(v)")
		}
	})
	R.Check("C19.dedup", "C19.dedup/key", c.rel(p.Pos(push.Pos())), "the dedup key is the VAA's message id", okKey, "key changed")
}

type ssaField struct {
	v    *types.Var
	name string
}

func c19vals(v ssa.Value) map[string]string {
	out := map[string]string{}
	if al, ok := v.(*ssa.Alloc); ok {
		vals, _ := allocStores(al)
		for k, x := range vals {
			out[k] = termOrNil(x)
		}
	}
	return out
}

// c19indexAligned: position i of the explorer's guardian-set list holds the set with index i (shared
// by C19 — the set a VAA is verified against — and C07 — the n the explorer's threshold is taken from).
func c19indexAligned(c *Ctx, p *load.Program, rule string) {
	R := c.R
	cur := must(p.FieldOf(pkgXGS, "GuardianSets", "currentGuardianSetIndex"), "GuardianSets.currentGuardianSetIndex")
	lst := must(p.FieldOf(pkgXGS, "GuardianSets", "guardianSetLists"), "GuardianSets.guardianSetLists")
	// ---- index-aligned
	upd := must(p.Method(pkgXGS, "GuardianSets", "updateGuardianSets"), "updateGuardianSets")
	for _, fld := range []*ssaField{{cur, "currentGuardianSetIndex"}, {lst, "guardianSetLists"}} {
		nst := 0
		for _, s := range storesToField(p, fld.v) {
			if isFreshAlloc(s.Instr.(*ssa.Store).Addr) {
				continue
			}
			nst++
			st := s.Instr.(*ssa.Store)
			ok := s.Fn == upd
			if fld.v == lst {
				// gs.guardianSetLists = append(gs.guardianSetLists, tail...)
				ap := asCall(st.Val, "append")
				ok = ok && ap != nil && loadedField(ap.Call.Args[0]) == lst
			}
			R.Check(rule, R.Key(rule, shortFn(s.Fn), "store:"+fld.name), c.sitePos(p, s), fld.name+" is written only by updateGuardianSets (the list only by appending to itself)", ok, "value = "+facts.Term(st.Val))
		}
		R.Floor(rule+"."+fld.name, nst, 1)
	}
	// the appended tail starts at the batch element whose Index is currentGuardianSetIndex+1
	nap := 0
	for _, s := range storesToField(p, lst) {
		if s.Fn != upd {
			continue
		}
		ap := asCall(s.Instr.(*ssa.Store).Val, "append")
		if ap == nil || len(ap.Call.Args) != 2 {
			continue
		}
		nap++
		ok, why := false, "appended value = "+facts.Term(ap.Call.Args[1])
		if sl, isSl := ap.Call.Args[1].(*ssa.Slice); isSl && sl.X == upd.Params[1] && sl.High == nil && sl.Low != nil {
			starts := []ssa.Value{sl.Low}
			var preds []*ssa.BasicBlock
			if ph, isPhi := sl.Low.(*ssa.Phi); isPhi {
				starts = ph.Edges
				preds = ph.Block().Preds
			}
			ok = true
			for k, v := range starts {
				if kv, isK := constInt(v); isK {
					if kv != 0 {
						ok, why = false, fmt.Sprintf("tail starts at constant %d", kv)
					}
					continue
				}
				var fs []facts.Fact
				if preds != nil {
					fs = facts.Between(nil, preds[k], nil)
				} else {
					fs = facts.At(s.Instr, nil)
				}
				found := false
				for _, f := range fs {
					x, op, y, isCmp := cmpOf(f)
					if !isCmp || op != token.EQL {
						continue
					}
					for _, pr := range [][2]ssa.Value{{x, y}, {y, x}} {
						// pr[0] = guardianSets[v].Index ; pr[1] = uint32(gs.currentGuardianSetIndex) + 1
						ld, isLd := strip(pr[0]).(*ssa.UnOp)
						if !isLd {
							continue
						}
						fa, isFa := ld.X.(*ssa.FieldAddr)
						if !isFa || fieldOfAddr(fa).Name() != "Index" {
							continue
						}
						el, isEl := fa.X.(*ssa.UnOp)
						if !isEl {
							continue
						}
						ia, isIa := el.X.(*ssa.IndexAddr)
						if !isIa || ia.X != upd.Params[1] || ia.Index != v {
							continue
						}
						add, isAdd := pr[1].(*ssa.BinOp)
						if !isAdd || add.Op != token.ADD {
							continue
						}
						one, isOne := constInt(add.Y)
						base := add.X
						if cv, isCv := base.(*ssa.Convert); isCv {
							base = cv.X
						}
						if isOne && one == 1 && loadedField(base) == cur {
							found = true
						}
					}
				}
				if !found {
					ok, why = false, "tail start "+facts.Term(v)+" is not chosen under the fact guardianSets[start].Index == currentGuardianSetIndex+1 (facts: "+facts.Join(fs)+")"
				}
			}
		}
		R.Check(rule, R.Key(rule, shortFn(upd), "append-start"), c.sitePos(p, s), "the tail appended to the list starts at the batch element whose Index is currentGuardianSetIndex+1 (so list position i keeps holding the set with index i when a batch overlaps what is already known)", ok, why)
	}
	R.Floor(rule+".append", nap, 1)
	// every returned set is list[index] for the index asked
	nret := 0
	for _, name := range []string{"GetGuardianSet", "lookup"} {
		fn := p.Method(pkgXGS, "GuardianSets", name)
		if fn == nil {
			continue
		}
		eachInstr(fn, func(i ssa.Instruction) {
			ia, ok := i.(*ssa.IndexAddr)
			if !ok || loadedField(ia.X) != lst {
				return
			}
			nret++
			_, isParam := ia.Index.(*ssa.Parameter)
			R.Check(rule, R.Key(rule, shortFn(fn), "index:guardianSetLists"), c.rel(p.Pos(ia.Pos())), "the set returned for index i is element i of the list", isParam && ia.Index.(*ssa.Parameter).Name() == "index", "index expression = "+facts.Term(ia.Index))
		})
	}
	R.Floor(rule+".lookups", nret, 1)
	// the batch fetched from the chain is assembled in index order: every guardian set built in
	// the explorer's guardiansets package is created by the function that walks the indices — not
	// by goroutines that append whenever their answer arrives (updateGuardianSets and
	// NewGuardianSets take position k of a batch for index first+k)
	ngs := 0
	for _, f := range p.SrcFuncs(pkgXGS) {
		eachInstr(f, func(i ssa.Instruction) {
			al, ok := i.(*ssa.Alloc)
			if !ok || !al.Heap {
				return
			}
			pt, ok := al.Type().(*types.Pointer)
			if !ok {
				return
			}
			nt, ok := pt.Elem().(*types.Named)
			if !ok || nt.Obj().Name() != "GuardianSet" || nt.Obj().Pkg() == nil || !strings.HasSuffix(nt.Obj().Pkg().Path(), "/node/pkg/common") {
				return
			}
			ngs++
			spawned := ""
			for g := f; g != nil && g.Parent() != nil; g = g.Parent() {
				eachInstr(g.Parent(), func(j ssa.Instruction) {
					if gi, ok := j.(*ssa.Go); ok {
						if mc, ok := gi.Call.Value.(*ssa.MakeClosure); ok && mc.Fn == ssa.Value(g) {
							spawned = c.rel(p.Pos(gi.Pos()))
						}
					}
				})
			}
			R.Check(rule, R.Key(rule, shortFn(f), "batch-built-in-order"), c.rel(p.Pos(al.Pos())), "guardian sets fetched from the chain are collected by the loop over the indices itself", spawned == "", "the set is built in a goroutine started at "+spawned+": the batch is in completion order, not index order")
		})
	}
	R.Floor(rule+".chain-sets", ngs, 1)
	// … and GetGuardianSet hands out nothing but the result of lookup(index) for the index it was
	// asked for (the "current" set is the requested one only until another update is appended)
	if ggs := p.Method(pkgXGS, "GuardianSets", "GetGuardianSet"); ggs != nil {
		lk := p.Method(pkgXGS, "GuardianSets", "lookup")
		nacc := 0
		for _, r := range acceptingReturns(ggs) {
			nacc++
			good, nl := lk != nil, 0
			for _, leaf := range valueLeaves(returnValues(r)[0]) {
				nl++
				cl, isCall := leaf.(*ssa.Call)
				if !isCall || cl.Call.StaticCallee() != lk || len(cl.Call.Args) != 2 {
					// the element access itself, when lookup has been inlined
					if ld, isLd := leaf.(*ssa.UnOp); isLd && ld.Op == token.MUL {
						if ia, isIA := ld.X.(*ssa.IndexAddr); isIA && loadedField(ia.X) == lst {
							if prm, isP := ia.Index.(*ssa.Parameter); isP && prm.Name() == "index" {
								continue
							}
						}
					}
					good = false
					continue
				}
				if prm, isP := cl.Call.Args[1].(*ssa.Parameter); !isP || prm.Name() != "index" {
					good = false
				}
			}
			R.Check(rule, R.Key(rule, shortFn(ggs), "returns-lookup"), c.rel(p.Pos(instrPos(r))), "GetGuardianSet(index) returns the list element looked up for that index", good && nl > 0, "returned value = "+facts.Term(returnValues(r)[0]))
		}
		R.Floor(rule+".returns", nacc, 1)
	}

}
