package rules

import (
	"fmt"
	"go/token"
	"go/types"
	"strings"

	"golang.org/x/tools/go/ssa"

	"wvsa/internal/facts"
	"wvsa/internal/load"
)

func init() {
	register("C16", "Crash recovery of badger (a third-party storage engine, run-time behaviour) is NOT decided. Decided API-contract discipline in pkg/db, each a necessary condition for an acknowledged write to be durable: (ack-implies-commit) StoreSignedVAA returns nil only on paths where (*badger.DB).Update returned nil, and the transaction closure returns nil only when txn.Set returned nil (no dropped error); (synchronous) the write is performed on the caller's goroutine before return — no `go`, no WriteBatch, no TTL entry — one update transaction per VAA, key and value as in C12; (on-disk) the options passed to badger.Open derive from DefaultOptions(path) without WithInMemory; SyncWrites is reported (badger default false: durable across process kill through the OS page cache, which is the property's quantifier, not across power loss); (who-opens) the store is opened only through db.Open.", c16)
}

func c16(c *Ctx) {
	a := c.processor()
	p, R := a.p, c.R
	R.Trust("go/types + go/ssa", "badger: a committed Update is durable across process kill; value log replay on reopen", "the OS page cache survives a process kill")
	loopVarRule(c, p, "C16.loopvar", pkgDB)
	R.Assumption("kill/reopen cycles are not executed; badger's recovery is trusted as documented")
	st := a.store
	// ---- ack-implies-commit
	var upd *ssa.Call
	eachInstr(st, func(i ssa.Instruction) {
		if cl, ok := i.(*ssa.Call); ok && facts.CalleeName(&cl.Call) == "(*badger.DB).Update" {
			upd = cl
		}
	})
	if upd == nil {
		// the same transaction spelled out: NewTransaction(true), one plain Set, blocking Commit
		if c16manualTxn(c, p, st) {
			c16onDisk(c, p)
			c16lookup(c, a)
			return
		}
		R.Fail("C16.ack-implies-commit", "C16.ack-implies-commit/StoreSignedVAA/update", c.rel(p.Pos(st.Pos())), "write transaction", "no (*badger.DB).Update call in StoreSignedVAA")
		return
	}
	n := 0
	for _, r := range acceptingReturns(st) {
		n++
		fs := acceptFacts(r)
		R.Check("C16.ack-implies-commit", R.Key("C16.ack-implies-commit", shortFn(st), "return:nil"), c.rel(p.Pos(instrPos(r))), "StoreSignedVAA acknowledges (returns nil) only after the update transaction committed without error", facts.HasAtom(fs, facts.Term(upd)+" == nil"), "missing fact Update(...) == nil", facts.Atoms(fs)...)
	}
	R.Floor("C16.ack-implies-commit", n, 1)
	// closure
	mc, _ := upd.Call.Args[1].(*ssa.MakeClosure)
	if mc == nil {
		R.Fail("C16.ack-implies-commit", "C16.ack-implies-commit/StoreSignedVAA/closure", c.rel(p.Pos(upd.Pos())), "transaction closure", "undecided: Update argument is not a function literal")
		return
	}
	cf := mc.Fn.(*ssa.Function)
	if bm := boundMethod(mc); bm != nil && len(bm.Blocks) > 0 {
		// a method value of a small entry struct used as the transaction body
		cf = bm
	}
	var set *ssa.Call
	nwrites := 0
	eachInstr(cf, func(i ssa.Instruction) {
		if cl, ok := i.(*ssa.Call); ok {
			n := facts.CalleeName(&cl.Call)
			if strings.HasPrefix(n, "(*badger.Txn).Set") {
				nwrites++
				if n == "(*badger.Txn).Set" || plainSetEntry(cl) {
					set = cl
				}
			}
		}
	})
	R.Check("C16.synchronous", "C16.synchronous/one-plain-set", c.rel(p.Pos(cf.Pos())), "the transaction performs exactly one plain txn.Set (no SetEntry/TTL)", set != nil && nwrites == 1, fmt.Sprintf("%d writes", nwrites))
	if set != nil {
		for _, r := range acceptingReturns(cf) {
			fs := acceptFacts(r)
			R.Check("C16.ack-implies-commit", R.Key("C16.ack-implies-commit", shortFn(cf), "return:nil"), c.rel(p.Pos(instrPos(r))), "the transaction closure reports success only when txn.Set succeeded", facts.HasAtom(fs, facts.Term(set)+" == nil"), "missing fact txn.Set(...) == nil", facts.Atoms(fs)...)
		}
		for _, r := range nonAcceptingReturns(cf) {
			R.Check("C16.ack-implies-commit", R.Key("C16.ack-implies-commit", shortFn(cf), "return:err"), c.rel(p.Pos(instrPos(r))), "a failed txn.Set is propagated out of the closure", facts.Term(r.Results[0]) == facts.Term(set), "returns "+facts.Term(r.Results[0]))
		}
	}
	// ---- synchronous: no goroutines, batches or deferred writes in StoreSignedVAA and its closures
	bad := ""
	for _, f := range withAnon(st) {
		eachInstr(f, func(i ssa.Instruction) {
			switch x := i.(type) {
			case *ssa.Go:
				bad = "go statement in " + fname(f)
			case *ssa.Defer:
				bad = "deferred call in " + fname(f)
			case ssa.CallInstruction:
				n := facts.CalleeName(x.Common())
				if strings.Contains(n, "WriteBatch") || strings.Contains(n, "WithTTL") || strings.Contains(n, "NewTransaction") {
					bad = n + " in " + fname(f)
				}
			}
		})
	}
	R.Check("C16.synchronous", "C16.synchronous/StoreSignedVAA", c.rel(p.Pos(st.Pos())), "the write happens on the caller's goroutine inside db.Update before StoreSignedVAA returns", bad == "", bad)
	c16onDisk(c, p)
	c16lookup(c, a)
}

// c16manualTxn accepts `txn := db.NewTransaction(true); defer txn.Discard(); txn.Set(k, v); txn.Commit()`
// (the body of badger's Update) and checks the same obligations on it.
func c16manualTxn(c *Ctx, p *load.Program, st *ssa.Function) bool {
	R := c.R
	var nt, set, commit *ssa.Call
	nwrites := 0
	bad := ""
	eachInstr(st, func(i ssa.Instruction) {
		switch x := i.(type) {
		case *ssa.Go:
			bad = "go statement"
		case *ssa.Defer:
			if n := facts.CalleeName(&x.Call); n != "(*badger.Txn).Discard" {
				bad = "deferred " + n
			}
		case *ssa.Call:
			n := facts.CalleeName(&x.Call)
			switch {
			case n == "(*badger.DB).NewTransaction":
				nt = x
			case strings.HasPrefix(n, "(*badger.Txn).Set"):
				nwrites++
				if n == "(*badger.Txn).Set" {
					set = x
				}
			case n == "(*badger.Txn).Commit":
				commit = x
			case strings.Contains(n, "WriteBatch") || strings.Contains(n, "WithTTL") || strings.Contains(n, "CommitWith"):
				bad = n
			}
		}
	})
	if nt == nil || set == nil || commit == nil {
		return false
	}
	upd, _ := nt.Call.Args[1].(*ssa.Const)
	R.Check("C16.synchronous", "C16.synchronous/one-plain-set", c.rel(p.Pos(st.Pos())), "the read-write transaction performs exactly one plain txn.Set (no SetEntry/TTL) on the caller's goroutine", nwrites == 1 && bad == "" && upd != nil && upd.Value != nil && upd.Value.ExactString() == "true" && set.Call.Args[0] == ssa.Value(nt) && commit.Call.Args[0] == ssa.Value(nt), fmt.Sprintf("%d writes; %s", nwrites, bad))
	R.Check("C16.synchronous", "C16.synchronous/StoreSignedVAA", c.rel(p.Pos(st.Pos())), "the write happens on the caller's goroutine before StoreSignedVAA returns", bad == "", bad)
	n := 0
	for _, r := range acceptingReturns(st) {
		n++
		fs := acceptFacts(r)
		ok := facts.HasAtom(fs, facts.Term(set)+" == nil") && facts.HasAtom(fs, facts.Term(commit)+" == nil")
		R.Check("C16.ack-implies-commit", R.Key("C16.ack-implies-commit", shortFn(st), "return:nil"), c.rel(p.Pos(instrPos(r))), "StoreSignedVAA acknowledges (returns nil) only after txn.Set and the blocking txn.Commit succeeded", ok, "missing fact Set(...) == nil or Commit() == nil", facts.Atoms(fs)...)
	}
	R.Floor("C16.ack-implies-commit", n, 1)
	return true
}

func c16onDisk(c *Ctx, p *load.Program) {
	R := c.R
	// a lookup hands out its own copy of the stored value: ValueCopy(nil) allocates; a destination
	// buffer that is shared (pooled, reused) makes an earlier result change under the caller
	ncopy := 0
	for _, f := range p.SrcFuncs(pkgDB) {
		eachInstr(f, func(i ssa.Instruction) {
			cl, ok := i.(*ssa.Call)
			if !ok || !strings.HasSuffix(facts.CalleeName(&cl.Call), "badger.Item).ValueCopy") {
				return
			}
			ncopy++
			R.Check("C16.intact", R.Key("C16.intact", shortFn(f), "ValueCopy"), c.rel(p.Pos(cl.Pos())), "a stored value is returned as a freshly allocated copy (ValueCopy(nil))", isNilConst(cl.Call.Args[1]),
				"ValueCopy into "+facts.Term(cl.Call.Args[1])+": the bytes returned to one caller are overwritten by the next lookup")
		})
	}
	R.Floor("C16.intact", ncopy, 1)
	// ---- on-disk
	nopen := 0
	for _, s := range callsNamed(p, "", "badger.Open") {
		nopen++
		t := facts.Term(s.Instr.(ssa.CallInstruction).Common().Args[0])
		ok := strings.HasPrefix(t, "badger.DefaultOptions(path)") || strings.Contains(t, "badger.DefaultOptions(path)")
		ok = ok && !strings.Contains(t, "WithInMemory") && fname(s.Fn) == "N/db.Open"
		R.Check("C16.on-disk", R.Key("C16.on-disk", shortFn(s.Fn), "call:badger.Open"), c.sitePos(p, s), "the store is opened on disk from DefaultOptions(path), only by db.Open", ok, "options = "+t)
		R.Note("badger options expression: %s (SyncWrites explicitly set: %v; badger default is false)", t, strings.Contains(t, "WithSyncWrites"))
	}
	R.Floor("C16.on-disk", nopen, 1)
	// only badger manipulates the files of the store: no file-mutating os/ioutil call anywhere in pkg/db
	mutators := []string{"os.Remove", "os.RemoveAll", "os.Rename", "os.Truncate", "os.WriteFile", "os.Create", "os.OpenFile", "os.Chmod", "os.Symlink", "os.Link",
		"io/ioutil.WriteFile", "(*os.File).Truncate", "(*os.File).Write", "(*os.File).WriteAt", "(*os.File).WriteString", "syscall.Unlink", "syscall.Rename", "syscall.Truncate"}
	nscan := 0
	for _, f := range p.SrcFuncs(pkgDB) {
		nscan++
		eachInstr(f, func(i ssa.Instruction) {
			ci, ok := i.(ssa.CallInstruction)
			if !ok {
				return
			}
			n := facts.CalleeName(ci.Common())
			for _, m := range mutators {
				if n == m {
					R.Fail("C16.on-disk", R.Key("C16.on-disk", shortFn(f), "call:"+n), c.rel(p.Pos(i.Pos())), "pkg/db mutates files itself ("+n+" in "+fname(f)+")", "the store directory may only be written by badger: deleting, truncating or rewriting its files (value log, memtable WAL, manifest) outside badger loses acknowledged writes on reopen")
				}
			}
		})
	}
	R.Pass("C16.on-disk", "C16.on-disk/no-foreign-file-ops", "", fmt.Sprintf("scanned %d functions of pkg/db for file-mutating calls outside badger", nscan), "who-may-write rule for the store directory")
}

// c16lookup: "once a store has returned success, every later lookup returns the VAA" needs the
// lookup to be answered by the store itself: every return of GetSignedVAABytes follows a read
// transaction of the same invocation, and the function consults no state of the Database other
// than the badger handle (an in-memory answer — a cache of misses, a bloom filter — can be stale
// with respect to a commit that has already been acknowledged).
func c16lookup(c *Ctx, a *procAnchors) {
	p, R := a.p, c.R
	get := a.getBytes
	isRead := func(i ssa.Instruction) bool {
		cl, ok := i.(*ssa.Call)
		if !ok {
			return false
		}
		n := facts.CalleeName(&cl.Call)
		return n == "(*badger.DB).View" || n == "(*badger.DB).NewTransaction"
	}
	n := 0
	eachInstr(get, func(i ssa.Instruction) {
		r, ok := i.(*ssa.Return)
		if !ok {
			return
		}
		n++
		R.Check("C16.lookup", R.Key("C16.lookup", shortFn(get), "return-after-read"), c.rel(p.Pos(instrPos(r))), "every answer of GetSignedVAABytes follows a read transaction of this invocation", facts.Before(r, isRead), "a return is reachable without reading the store: the answer comes from memory and can be stale with respect to an acknowledged commit")
	})
	R.Floor("C16.lookup.returns", n, 1)
	// a read that succeeded is answered with the stored bytes: an error is returned only when the
	// read transaction itself reported one (a later "integrity" or decoding test that turns a
	// successful read into an error makes an acknowledged VAA unreadable — the encoder accepts
	// values the decoder rejects, e.g. an empty payload)
	var view *ssa.Call
	eachInstr(get, func(i ssa.Instruction) {
		if cl, ok := i.(*ssa.Call); ok && isRead(cl) {
			view = cl
		}
	})
	if view != nil && facts.CalleeName(&view.Call) == "(*badger.DB).View" {
		for _, r := range nonAcceptingReturns(get) {
			fs := acceptFacts(r)
			failed := facts.HasAtom(fs, facts.Term(view)+" != nil")
			for _, f := range fs {
				// … or it equals a sentinel error (a package-level error variable is never nil)
				x, op, y, ok := cmpOf(f)
				if !ok || op != token.EQL {
					continue
				}
				for _, pr := range [][2]ssa.Value{{x, y}, {y, x}} {
					if pr[0] != ssa.Value(view) {
						continue
					}
					if ld, isLd := pr[1].(*ssa.UnOp); isLd && ld.Op == token.MUL {
						if _, isG := ld.X.(*ssa.Global); isG {
							failed = true
						}
					}
				}
			}
			R.Check("C16.lookup", R.Key("C16.lookup", shortFn(get), "error-only-from-store"), c.rel(p.Pos(instrPos(r))), "GetSignedVAABytes reports an error only when the read transaction failed", failed, "an error return is reachable although the read succeeded: "+strings.Join(facts.Atoms(fs), ";"))
		}
	}
	dbF := must(p.FieldOf(pkgDB, "Database", "db"), "Database.db")
	var other []string
	dbFields := map[*types.Var]bool{}
	if st, ok := must(p.Named(pkgDB, "Database"), "db.Database").Underlying().(*types.Struct); ok {
		for k := 0; k < st.NumFields(); k++ {
			dbFields[st.Field(k)] = true
		}
	}
	for _, f := range withAnon(get) {
		eachInstr(f, func(i ssa.Instruction) {
			if fa, ok := i.(*ssa.FieldAddr); ok {
				if fv := fieldOfAddr(fa); fv != nil && fv != dbF && dbFields[fv] {
					other = append(other, fv.Name())
				}
			}
		})
	}
	R.Check("C16.lookup", "C16.lookup/only-the-store", c.rel(p.Pos(get.Pos())), "GetSignedVAABytes consults nothing of the Database but the badger handle", len(other) == 0, "fields read or written: "+strings.Join(other, ","))
}

// plainSetEntry: txn.SetEntry(badger.NewEntry(k, v)) — what txn.Set(k, v) is defined as (no TTL,
// no meta, no discard flag chained onto the entry).
func plainSetEntry(cl *ssa.Call) bool {
	if facts.CalleeName(&cl.Call) != "(*badger.Txn).SetEntry" || len(cl.Call.Args) != 2 {
		return false
	}
	ne, ok := cl.Call.Args[1].(*ssa.Call)
	return ok && facts.CalleeName(&ne.Call) == "badger.NewEntry"
}
