package rules

import (
	"fmt"
	"go/types"
	"sort"
	"strings"

	"golang.org/x/tools/go/ssa"

	"wvsa/internal/cparse"
	"wvsa/internal/facts"
	"wvsa/internal/layout"
	"wvsa/internal/load"
)

// bodyTable is the layout the property states (offsets 0,4,8,10,12,44,52,53).
var bodyTable = []struct {
	Name       string
	Off, Width int
}{{"Timestamp", 0, 4}, {"Nonce", 4, 4}, {"EmitterChain", 8, 2}, {"TargetChain", 10, 2}, {"EmitterAddress", 12, 32},
	{"Sequence", 44, 8}, {"ConsistencyLevel", 52, 1}, {"Payload", 53, -1}}

var bodyFieldSet = map[string]bool{"Timestamp": true, "Nonce": true, "EmitterChain": true, "TargetChain": true, "EmitterAddress": true, "Sequence": true, "ConsistencyLevel": true, "Payload": true}

func init() {
	register("C04", "Three-way layout comparison decided from source: (layout-go) the ordered write table of (*VAA).serializeBody is extracted from its syntax tree with go/types widths and compared with the property's offsets 0,4,8,10,12,44,52,53, big-endian, no conditional or looped write; (agree) Messages.sol parseVM is walked symbolically over its `index` cursor and governance.ral parseAndVerifyVAA's byteVecSlice bounds are evaluated as linear forms, both by hand-written subset parsers, and every contract-side field offset/width, the body start (6+66*signatures), the header (version 1, set index 4, count 1, signature 1+65) and the double-keccak of the body must equal the Go table; (reads) serializeBody/signingBody/SigningMsg read only the eight body fields and call only an allow-list of pure functions; (injective) every field but the last is fixed width; (build) handleMessage's VAA is a field-for-field copy of the chain message. (own-payload) vaa.Unmarshal does not store a sub-slice of its input into VAA.Payload.", c04)
}

// goBodyTable extracts serializeBody's write table; recvName is replaced by "v".
func goBodyTable(c *Ctx, pkgPath string, rule string) ([]layout.Ev, bool) {
	p := c.Node()
	pk := must(p.ByPath[pkgPath], "package "+pkgPath)
	fd := must(layout.FindFunc(pk, "VAA", "serializeBody"), "vaa.(*VAA).serializeBody")
	evs := writeEvents(p, pk, "VAA", "serializeBody")
	recv := "v"
	if fd.Recv != nil && len(fd.Recv.List[0].Names) == 1 {
		recv = fd.Recv.List[0].Names[0].Name
	}
	ok := true
	pos := c.rel(p.Pos(fd.Pos()))
	if len(evs) != len(bodyTable) {
		c.R.Fail(rule, rule+"/serializeBody/count", pos, "serializeBody write table", fmt.Sprintf("expected %d writes, extracted %d: %v", len(bodyTable), len(evs), evs))
		return evs, false
	}
	offs := layout.Offsets(evs)
	for i, e := range evs {
		want := bodyTable[i]
		f := strings.ReplaceAll(e.Field, recv+".", "v.")
		expectField := "v." + want.Name
		if want.Name == "Timestamp" {
			expectField = "uint32(v.Timestamp.Unix())"
		}
		good := e.Kind == "write" && !e.Cond && e.Loop == 0 && e.Width == want.Width && offs[i] == want.Off && f == expectField
		if e.Width > 1 && want.Name != "EmitterAddress" && e.Order != "binary.BigEndian" {
			good = false
		}
		c.R.Check(rule, rule+"/serializeBody/"+want.Name, c.rel(p.Pos(e.Pos)),
			fmt.Sprintf("body field %s written at offset %d, width %d, big-endian", want.Name, want.Off, want.Width), good,
			fmt.Sprintf("extracted: %s at offset %d order=%q", e, offs[i], e.Order))
		ok = ok && good
	}
	return evs, ok
}

func c04(c *Ctx) {
	p, R := c.Node(), c.R
	R.Trust("go/types + go/ast + go/ssa", "encoding/binary writes fixed-size integers at their type width", "hand-written subset parsers for Solidity and Ralph (internal/cparse); BytesLib.toUintN reads N/8 bytes big-endian at the given offset; Ralph byteVecSlice!(b,from,to), u256FromNByte!, keccak256! as documented", "keccak256 itself")
	loopVarRule(c, p, "C04.loopvar", pkgVAA)
	R.Assumption("timestamps outside the 32-bit wire range are outside the property (C05 states the range)")

	// ---- C04.layout-go
	evs, _ := goBodyTable(c, pkgVAA, "C04.layout-go")
	var tbl []string
	for _, e := range evs {
		tbl = append(tbl, e.String())
	}
	R.Sample(map[string]any{"go_serializeBody": tbl})
	R.Floor("C04.layout-go", len(evs), 8)

	// ---- C04.reads/own-payload: the body fields that feed the digest are owned by the VAA. A byte-slice
	// field of a VAA built by vaa.Unmarshal never shares storage with the decoder's
	// input: the value stored is not a sub-slice of a parameter (the digest of a decoded message must not
	// change when the caller reuses its receive buffer)
	npl := 0
	payloadF := must(p.FieldOf(pkgVAA, "VAA", "Payload"), "vaa.VAA.Payload")
	for _, st := range storesToField(p, payloadF) {
		// only the wire decoder: constructors such as CreateGovernanceVAA take the payload they are given
		if top(st.Fn) != must(p.Func(pkgVAA, "Unmarshal"), "vaa.Unmarshal") {
			continue
		}
		npl++
		alias := ""
		seen := map[ssa.Value]bool{}
		var walk func(v ssa.Value)
		walk = func(v ssa.Value) {
			if v == nil || seen[v] {
				return
			}
			seen[v] = true
			switch x := v.(type) {
			case *ssa.Slice:
				walk(x.X)
			case *ssa.Phi:
				for _, e := range x.Edges {
					walk(e)
				}
			case *ssa.ChangeType:
				walk(x.X)
			case *ssa.Convert:
				walk(x.X)
			case *ssa.Parameter:
				if _, isSl := x.Type().Underlying().(*types.Slice); isSl {
					alias = x.Name()
				}
			}
		}
		walk(st.Instr.(*ssa.Store).Val)
		R.Check("C04.reads", R.Key("C04.reads", shortFn(st.Fn), "store:Payload-owned"), c.sitePos(p, st), "the payload of a VAA decoded by vaa.Unmarshal does not share storage with the input slice", alias == "", "Payload is a sub-slice of parameter "+alias+": the signing body changes when the caller reuses that buffer")
	}
	R.Floor("C04.reads.payload-stores", npl, 1)

	// ---- C04.injective: only the last field is variable length
	inj := len(evs) > 0
	for i, e := range evs {
		if (e.Width < 0) != (i == len(evs)-1) {
			inj = false
		}
	}
	R.Check("C04.injective", "C04.injective/prefix-free-concatenation", "", "every body field but the last is fixed width and the only variable-length field is last (equal bodies imply equal fields)", inj, "a variable-length field is not last, or the last field is fixed")

	// ---- C04.reads
	c04reads(c)

	// ---- C04.agree: Solidity
	sol, err := parseSolVM(c.ReadFile("ethereum/contracts/Messages.sol"))
	if err != nil {
		R.Fail("C04.agree", "C04.agree/solidity/parse", "ethereum/contracts/Messages.sol", "Messages.sol parseVM", "undecided: "+err.Error())
	} else {
		solName := map[string]string{"vm.timestamp": "Timestamp", "vm.nonce": "Nonce", "vm.emitterChainId": "EmitterChain", "vm.targetChainId": "TargetChain",
			"vm.emitterAddress": "EmitterAddress", "vm.sequence": "Sequence", "vm.consistencyLevel": "ConsistencyLevel", "vm.payload": "Payload"}
		got := map[string]fieldRead{}
		var smp []string
		for _, r := range sol.Body {
			smp = append(smp, r.String())
			if n, ok := solName[r.Name]; ok {
				got[n] = r
			} else {
				R.Fail("C04.agree", "C04.agree/solidity/unknown:"+r.Name, fmt.Sprintf("ethereum/contracts/Messages.sol:%d", r.Line), "parseVM reads a body field the table does not know", r.String())
			}
		}
		for _, w := range bodyTable {
			r, ok := got[w.Name]
			good := ok && r.Off.K == 0 && int(r.Off.C) == w.Off && r.Width == w.Width
			R.Check("C04.agree", "C04.agree/solidity/"+w.Name, fmt.Sprintf("ethereum/contracts/Messages.sol:%d", r.Line),
				fmt.Sprintf("Solidity parses %s at body offset %d width %d", w.Name, w.Off, w.Width), good, "extracted: "+r.String())
		}
		// header
		hdrWant := []struct {
			Name       string
			Off, Width int
		}{{"vm.version", 0, 1}, {"vm.guardianSetIndex", 1, 4}, {"signersLen", 5, 1}}
		for i, w := range hdrWant {
			good := i < len(sol.Header) && sol.Header[i].Name == w.Name && sol.Header[i].Off.K == 0 && int(sol.Header[i].Off.C) == w.Off && sol.Header[i].Width == w.Width
			got := "<missing>"
			if i < len(sol.Header) {
				got = sol.Header[i].String()
			}
			R.Check("C04.agree", "C04.agree/solidity/header:"+w.Name, "ethereum/contracts/Messages.sol", fmt.Sprintf("Solidity header field %s at %d width %d", w.Name, w.Off, w.Width), good, "extracted: "+got)
		}
		sigOK := sol.SigStride == 66 && len(sol.SigLoop) == 4 && sol.SigLoop[0].Off.C == 0 && sol.SigLoop[0].Width == 1 &&
			sol.SigLoop[1].Off.C == 1 && sol.SigLoop[1].Width == 32 && sol.SigLoop[2].Off.C == 33 && sol.SigLoop[2].Width == 32 && sol.SigLoop[3].Off.C == 65 && sol.SigLoop[3].Width == 1
		R.Check("C04.agree", "C04.agree/solidity/signature-record", "ethereum/contracts/Messages.sol", "Solidity signature record = index(1) r(32) s(32) v(1), stride 66", sigOK, fmt.Sprintf("stride=%d reads=%v", sol.SigStride, sol.SigLoop))
		R.Check("C04.agree", "C04.agree/solidity/body-start", "ethereum/contracts/Messages.sol", "Solidity body starts at 6 + 66*signatures and runs to the end of the message", sol.BodyStart.C == 6 && sol.BodyStart.K == 66, "extracted: "+sol.BodyStart.String())
		R.Check("C04.agree", "C04.agree/solidity/hash", "ethereum/contracts/Messages.sol", "vm.hash = keccak256(abi.encodePacked(keccak256(body)))", sol.HashOK, "hash statement not of the expected form")
		R.Check("C04.agree", "C04.agree/solidity/version", "ethereum/contracts/Messages.sol", "Solidity requires version == 1 (Go SupportedVAAVersion)", sol.VersionEq == 1, fmt.Sprintf("version check: %d", sol.VersionEq))
		R.Sample(map[string]any{"solidity_parseVM_body": smp, "body_start": sol.BodyStart.String()})
	}

	// ---- C04.agree: Ralph
	cs, err := cparse.ParseRalph(c.ReadFile("alephium/contracts/governance.ral"))
	var fn *cparse.Func
	if err == nil {
		if g := cs["Governance"]; g != nil {
			fn = g.Funcs["parseAndVerifyVAA"]
		}
		if fn == nil {
			err = fmt.Errorf("Governance.parseAndVerifyVAA not found")
		}
	}
	if err != nil {
		R.Fail("C04.agree", "C04.agree/ralph/parse", "alephium/contracts/governance.ral", "governance.ral parseAndVerifyVAA", "undecided: "+err.Error())
	} else {
		env := &ralphEnv{vars: map[string]lin{}}
		var reads []ralphRead
		var asserts []cparse.Expr
		ralphReads(fn.Body, env, false, &reads, &asserts)
		data := fn.Params[0]
		by := map[string]ralphRead{}
		var smp []string
		for _, r := range reads {
			smp = append(smp, r.String())
			by[r.Name] = r
		}
		body := by["body"]
		okBody := body.Src == data && body.From.C == 6 && body.From.K == 66 && body.From.Sym == "signatureSize" && body.To.End == data
		R.Check("C04.agree", "C04.agree/ralph/body-start", fmt.Sprintf("alephium/contracts/governance.ral:%d", body.Line), "Ralph body = data[6 + signatureSize*66 : size(data)]", okBody, "extracted: "+body.String())
		sc := by["signatureSize"]
		R.Check("C04.agree", "C04.agree/ralph/header:count", fmt.Sprintf("alephium/contracts/governance.ral:%d", sc.Line), "Ralph signature count = u256From1Byte(data[5:6])", sc.Src == data && sc.From.C == 5 && sc.To.C == 6 && sc.Conv == "u256From1Byte!", "extracted: "+sc.String())
		gi := by["guardianSetIndex"]
		R.Check("C04.agree", "C04.agree/ralph/header:setIndex", fmt.Sprintf("alephium/contracts/governance.ral:%d", gi.Line), "Ralph guardian set index = u256From4Byte(data[1:5])", gi.Src == data && gi.From.C == 1 && gi.To.C == 5 && gi.Conv == "u256From4Byte!", "extracted: "+gi.String())
		// version assert: byteVecSlice!(data,0,1) == Version, Version = #01
		verOK := false
		for _, a := range asserts {
			if a.String() == "(byteVecSlice!("+data+", 0, 1) == Version)" {
				if h, ok := hexOfConst(cs["Governance"].Consts["Version"]); ok && h == "01" {
					verOK = true
				}
			}
		}
		R.Check("C04.agree", "C04.agree/ralph/version", "alephium/contracts/governance.ral", "Ralph asserts data[0:1] == #01", verOK, "version assertion not found")
		// hash
		hashOK := false
		for _, s := range fn.Body {
			if l, ok := s.(cparse.Let); ok && len(l.Names) == 1 && l.Names[0] == "hash" && l.X.String() == "keccak256!(keccak256!(body))" {
				hashOK = true
			}
		}
		R.Check("C04.agree", "C04.agree/ralph/hash", "alephium/contracts/governance.ral", "Ralph hash = keccak256!(keccak256!(body))", hashOK, "hash statement not of the expected form")
		// signature record in the loop: guardianIndex = data[offset:offset+1], signature = data[offset+1:offset+66], offset += 66
		gidx, sig := by["guardianIndex"], by["signature"]
		strideOK := false
		for _, s := range fn.Body {
			if f, ok := s.(cparse.For); ok {
				for _, bs := range f.Body {
					if as, ok := bs.(cparse.Assign); ok && as.Target.String() == "offset" && as.X.String() == "(offset + 66)" {
						strideOK = strings.Contains(f.Cond.String(), "< signatureSize")
					}
				}
			}
		}
		recOK := gidx.InLoop && sig.InLoop && gidx.Src == data && sig.Src == data && gidx.From.Sym == "offset" && gidx.From.C == 0 && gidx.width() == 1 &&
			sig.From.C == 1 && sig.width() == 65 && strideOK && env.vars["offset"].C == 6
		R.Check("C04.agree", "C04.agree/ralph/signature-record", "alephium/contracts/governance.ral", "Ralph signature record = index(1) + signature(65), stride 66, starting at offset 6", recOK,
			fmt.Sprintf("guardianIndex: %s; signature: %s; stride ok=%v; offset0=%s", gidx, sig, strideOK, env.vars["offset"]))
		ralphName := map[string]string{"emitterChainId": "EmitterChain", "targetChainId": "TargetChain", "emitterAddress": "EmitterAddress", "sequence": "Sequence", "payload": "Payload"}
		n := 0
		for _, r := range reads {
			if r.Src != "body" {
				continue
			}
			n++
			cn, ok := ralphName[r.Name]
			if !ok {
				R.Fail("C04.agree", "C04.agree/ralph/unknown:"+r.Name, fmt.Sprintf("alephium/contracts/governance.ral:%d", r.Line), "Ralph reads a body slice the table does not know", r.String())
				continue
			}
			for _, w := range bodyTable {
				if w.Name != cn {
					continue
				}
				good := r.From.K == 0 && int(r.From.C) == w.Off && r.width() == w.Width && !r.InLoop
				if w.Width > 0 && r.Conv != "" && ralphFromWidth[r.Conv] != w.Width {
					good = false
				}
				if w.Width < 0 && r.To.End != "body" {
					good = false
				}
				R.Check("C04.agree", "C04.agree/ralph/"+cn, fmt.Sprintf("alephium/contracts/governance.ral:%d", r.Line), fmt.Sprintf("Ralph parses %s at body offset %d width %d", cn, w.Off, w.Width), good, "extracted: "+r.String())
			}
		}
		R.Floor("C04.agree.ralph-body-fields", n, 5)
		sort.Strings(smp)
		R.Sample(map[string]any{"ralph_parseAndVerifyVAA_slices": smp})
	}

	// ---- C04.build
	a := c.processor()
	c02bodyCopy(c, a, "C04.build")
	_ = p
	// the signature that accompanies an observed VAA is the guardian key's signature over the digest
	// of THAT VAA on every path: a digest or signature taken from anywhere else (a cache keyed by
	// message id, say) signs bytes that need not be the digest of the message observed
	sm := must(p.Method(pkgVAA, "VAA", "SigningMsg"), "vaa.(*VAA).SigningMsg")
	ns := 0
	for _, s := range callsTo(p, a.bSig) {
		if s.Fn != a.hMsg && s.Fn != a.hInj {
			continue
		}
		ns++
		args := s.Instr.(ssa.CallInstruction).Common().Args
		v, sig := args[1], args[2]
		var bad []string
		for _, leaf := range phiLeaves(resolveSpill(sig)) {
			leaf = resolveSpill(leaf)
			ex, ok := leaf.(*ssa.Extract)
			var call *ssa.Call
			if ok && ex.Index == 0 {
				call, _ = ex.Tuple.(*ssa.Call)
			}
			if call == nil || !call.Call.IsInvoke() || call.Call.Method.Name() != "Sign" {
				bad = append(bad, "signature source "+facts.Term(leaf)+" is not the result of guardianSigner.Sign")
				continue
			}
			// Sign(digest.Bytes()) with digest = v.SigningMsg()
			okDigest := false
			if bc := asCall(call.Call.Args[0], "(geth/common.Hash).Bytes"); bc != nil {
				for _, dl := range phiLeaves(resolveSpill(bc.Call.Args[0])) {
					if smc, isCall := resolveSpill(dl).(*ssa.Call); isCall && smc.Call.StaticCallee() == sm && resolveSpill(smc.Call.Args[0]) == resolveSpill(v) {
						okDigest = true
					} else {
						okDigest = false
						break
					}
				}
			}
			if !okDigest {
				bad = append(bad, "signed bytes "+facts.Term(call.Call.Args[0])+" are not SigningMsg() of the VAA being broadcast")
			}
		}
		R.Check("C04.build", R.Key("C04.build", shortFn(s.Fn), "signs-own-digest"), c.sitePos(p, s), "the signature handed to broadcastSignature is Sign(v.SigningMsg()) of the same v on every path", len(bad) == 0, strings.Join(bad, "; "))
	}
	R.Floor("C04.build.signs-own-digest", ns, 1)
}

// c04reads: the signing functions depend only on the eight body fields.
func c04reads(c *Ctx) { c04readsOn(c, c.Node(), "C04.reads") }

// c04readsOn checks digest purity on the vaa package of program p under the given rule name.
func c04readsOn(c *Ctx, p *load.Program, rule string) {
	R := c.R
	allowed := map[string]bool{"geth/crypto.Keccak256": true, "geth/common.BytesToHash": true,
		// other ways of laying bytes out (pure with respect to the VAA): slice writers of encoding/binary and builtins
		"len": true, "cap": true, "copy": true, "append": true,
		"(encoding/binary.bigEndian).PutUint16": true, "(encoding/binary.bigEndian).PutUint32": true, "(encoding/binary.bigEndian).PutUint64": true,
		"(encoding/binary.bigEndian).AppendUint16": true, "(encoding/binary.bigEndian).AppendUint32": true, "(encoding/binary.bigEndian).AppendUint64": true,
		"N/vaa.MustWrite": true, "(*bytes.Buffer).Write": true, "(*bytes.Buffer).Bytes": true, "(time.Time).Unix": true,
		"(*bytes.Buffer).WriteByte": true, "(*bytes.Buffer).Grow": true, "(*bytes.Buffer).Len": true,
		"geth/crypto.Keccak256Hash": true, "(geth/common.Hash).Bytes": true, "(*N/vaa.VAA).serializeBody": true, "(*N/vaa.VAA).signingBody": true,
	}
	for _, name := range []string{"serializeBody", "signingBody", "SigningMsg"} {
		fn := must(p.Method(pkgVAA, "VAA", name), "vaa.(*VAA)."+name)
		var bad []string
		nf := 0
		eachInstr(fn, func(i ssa.Instruction) {
			switch x := i.(type) {
			case *ssa.FieldAddr:
				if x.X == fn.Params[0] {
					nf++
					if f := fieldOfAddr(x); !bodyFieldSet[f.Name()] {
						bad = append(bad, "reads non-body field "+f.Name())
					}
				}
			case ssa.CallInstruction:
				n := facts.CalleeName(x.Common())
				if !allowed[n] {
					bad = append(bad, "calls "+n)
				}
			case *ssa.UnOp:
				if g, ok := x.X.(*ssa.Global); ok && g.Pkg.Pkg.Path() != "encoding/binary" {
					bad = append(bad, "reads package variable "+g.Name())
				}
			}
		})
		// the receiver must not escape other than as receiver of the allowed methods
		R.Check(rule, rule+"/"+name, c.rel(p.Pos(fn.Pos())), name+" reads only body fields of the receiver and calls only pure serialisation/hash functions", len(bad) == 0, strings.Join(bad, "; "))
		if name == "serializeBody" {
			R.Floor(rule+".fields", nf, 8)
		}
	}
	sm := must(p.Method(pkgVAA, "VAA", "SigningMsg"), "vaa.(*VAA).SigningMsg")
	dbl := false
	eachInstr(sm, func(i ssa.Instruction) {
		if rt, ok := i.(*ssa.Return); ok && len(rt.Results) == 1 {
			// (any spelling of keccak(keccak(body)): Keccak256Hash / Keccak256 / BytesToHash)
			d, inner := keccakChain(rt.Results[0])
			dbl = d == 2 && facts.Term(inner) == "(*N/vaa.VAA).signingBody(v)"
		}
	})
	R.Check(rule, rule+"/SigningMsg/double-keccak", c.rel(p.Pos(sm.Pos())), "SigningMsg = Keccak256(Keccak256(signingBody())) — the digest both contracts recompute", dbl, "SigningMsg is not the double keccak of the signing body")
	sb := must(p.Method(pkgVAA, "VAA", "signingBody"), "vaa.(*VAA).signingBody")
	same := false
	eachInstr(sb, func(i ssa.Instruction) {
		if rt, ok := i.(*ssa.Return); ok && len(rt.Results) == 1 {
			same = facts.Term(rt.Results[0]) == "(*N/vaa.VAA).serializeBody(v)"
		}
	})
	R.Check(rule, rule+"/signingBody/is-serializeBody", c.rel(p.Pos(sb.Pos())), "the signing body is exactly the serialized body that Marshal appends to the header", same, "signingBody no longer returns serializeBody()")
	// binary.BigEndian is the only package variable used; MustWrite = binary.Write or panic
	mw := must(p.Func(pkgVAA, "MustWrite"), "vaa.MustWrite")
	okmw := false
	eachInstr(mw, func(i ssa.Instruction) {
		if cl, ok := i.(*ssa.Call); ok && facts.CalleeName(&cl.Call) == "encoding/binary.Write" {
			if cl.Call.Args[0] == mw.Params[0] && cl.Call.Args[1] == mw.Params[1] && cl.Call.Args[2] == mw.Params[2] {
				okmw = true
			}
		}
	})
	R.Check(rule, rule+"/MustWrite", c.rel(p.Pos(mw.Pos())), "MustWrite forwards its arguments unchanged to encoding/binary.Write", okmw, "MustWrite shape changed")
	// timestamp contributes whole seconds only: Unix() (checked in layout-go by the exact source expression)
	_ = types.Typ
}
