package rules

import (
	"fmt"
	"go/ast"
	"go/token"
	"strings"

	"golang.org/x/tools/go/ssa"

	"wvsa/internal/facts"
	"wvsa/internal/load"
)

// loopVarRule: both modules declare `go 1.19`, so a `for … := range` variable is ONE cell for the
// whole loop. If its address outlives the iteration (stored, passed to a function that may keep
// it, sent, returned, captured by a goroutine), every element recorded in earlier iterations is
// silently replaced by the last one — for the watchers that means a message attributed to the
// wrong event. The rule lists the range/for variables of the given packages whose cell go/ssa
// allocates outside the loop body and requires that their address is only loaded from and stored
// to. With `go >= 1.22` in go.mod the cells are per-iteration and the rule is vacuous by language.
func loopVarRule(c *Ctx, p *load.Program, rule string, pkgs ...string) {
	R := c.R
	examined := 0
	for _, pkg := range pkgs {
		pp := p.ByPath[pkg]
		if pp == nil {
			R.Fail(rule, rule+"/"+pkg, "", "loop variables of "+pkg, "undecided: package not loaded")
			continue
		}
		if pp.Module != nil && goAtLeast122(pp.Module.GoVersion) {
			R.Pass(rule, rule+"/"+pkg+"/per-iteration", "", "loop variables of "+pkg+" are per-iteration (go "+pp.Module.GoVersion+")", "language semantics")
			examined++
			continue
		}
		// positions of identifiers defined by range / for-init clauses
		loopIdent := map[token.Pos]string{}
		for _, f := range pp.Syntax {
			ast.Inspect(f, func(n ast.Node) bool {
				switch x := n.(type) {
				case *ast.RangeStmt:
					if x.Tok == token.DEFINE {
						for _, e := range []ast.Expr{x.Key, x.Value} {
							if id, ok := e.(*ast.Ident); ok && id.Name != "_" {
								loopIdent[id.Pos()] = id.Name
							}
						}
					}
				case *ast.ForStmt:
					if as, ok := x.Init.(*ast.AssignStmt); ok && as.Tok == token.DEFINE {
						for _, e := range as.Lhs {
							if id, ok := e.(*ast.Ident); ok && id.Name != "_" {
								loopIdent[id.Pos()] = id.Name
							}
						}
					}
				}
				return true
			})
		}
		examined += len(loopIdent)
		for _, fn := range p.SrcFuncs(pkg) {
			if fn.Pkg == nil || fn.Pkg.Pkg.Path() != pkg {
				continue
			}
			eachInstr(fn, func(i ssa.Instruction) {
				al, ok := i.(*ssa.Alloc)
				if !ok || al.Referrers() == nil {
					return
				}
				name, isLoopVar := loopIdent[al.Pos()]
				if !isLoopVar {
					return
				}
				var esc []string
				for _, r := range *al.Referrers() {
					switch x := r.(type) {
					case *ssa.UnOp, *ssa.DebugRef, *ssa.FieldAddr, *ssa.IndexAddr, *ssa.Slice:
						// loads and projections of the cell; a projection's address escaping is
						// the same hazard
						if v, isV := r.(ssa.Value); isV {
							if _, isLoad := r.(*ssa.UnOp); !isLoad && addrEscapes(v) {
								esc = append(esc, "address of a component is retained")
							}
						}
					case *ssa.Store:
						if x.Val == ssa.Value(al) {
							esc = append(esc, "address stored into "+facts.Term(x.Addr))
						}
					case *ssa.MakeClosure:
						// captured by a closure: harmful only when the closure runs after the
						// iteration (started with go, deferred, or stored)
						if closureOutlives(x) {
							esc = append(esc, "captured by a closure that runs after the iteration ("+x.Fn.Name()+")")
						}
					case ssa.CallInstruction:
						cn := facts.CalleeName(x.Common())
						if calleeKeepsNothing(cn) || !argRetained(x.Common(), al, 0) {
							continue
						}
						if _, isGo := r.(*ssa.Go); isGo {
							esc = append(esc, "address passed to goroutine "+cn)
							continue
						}
						esc = append(esc, "address passed to "+cn+", which may keep it")
					default:
						esc = append(esc, fmt.Sprintf("address used by %T", r))
					}
				}
				R.Check(rule, R.Key(rule, shortFn(fn), "loopvar:"+name), c.rel(p.Pos(al.Pos())), "the address of loop variable "+name+" in "+shortFn(fn)+" (one cell for the whole loop under go 1.19) does not outlive the iteration", len(esc) == 0,
					strings.Join(esc, "; ")+": every element recorded in earlier iterations then aliases the last one")
			})
		}
	}
	R.Floor(rule, examined, 1)
}

func goAtLeast122(v string) bool {
	var maj, min int
	if _, err := fmt.Sscanf(v, "%d.%d", &maj, &min); err != nil {
		return false
	}
	return maj > 1 || maj == 1 && min >= 22
}

// addrEscapes: the address value v (a projection of a cell) is used other than by load/store-to.
func addrEscapes(v ssa.Value) bool {
	refs := v.Referrers()
	if refs == nil {
		return false
	}
	for _, r := range *refs {
		switch x := r.(type) {
		case *ssa.UnOp, *ssa.DebugRef:
		case *ssa.Store:
			if x.Val == v {
				return true
			}
		case *ssa.FieldAddr, *ssa.IndexAddr:
			if addrEscapes(r.(ssa.Value)) {
				return true
			}
		case *ssa.Slice:
			if addrEscapes(x) {
				return true
			}
		case ssa.CallInstruction:
			cn := facts.CalleeName(x.Common())
			if cn == "append" && len(x.Common().Args) == 2 && x.Common().Args[1] == v && x.Common().Args[0] != v {
				continue // append(dst, v...) copies the elements
			}
			if !calleeKeepsNothing(cn) && argRetained(x.Common(), v, 0) {
				return true
			}
		default:
			return true
		}
	}
	return false
}

// argRetained: may the callee keep pointer argument v after it returns? Decided from the callee's
// body when it is available (the parameter is only loaded from / stored to / projected, possibly
// through further such callees); unknown callees are assumed to keep it.
func argRetained(cc *ssa.CallCommon, v ssa.Value, depth int) bool {
	callee := cc.StaticCallee()
	if callee == nil || len(callee.Blocks) == 0 || depth > 2 {
		return true
	}
	for k, a := range cc.Args {
		if a != v || k >= len(callee.Params) {
			continue
		}
		if paramEscapes(callee.Params[k], depth) {
			return true
		}
	}
	return false
}

func paramEscapes(v ssa.Value, depth int) bool {
	refs := v.Referrers()
	if refs == nil {
		return false
	}
	for _, r := range *refs {
		switch x := r.(type) {
		case *ssa.UnOp, *ssa.DebugRef:
		case *ssa.Store:
			if x.Val == v {
				return true
			}
		case *ssa.FieldAddr, *ssa.IndexAddr:
			if paramEscapes(r.(ssa.Value), depth) {
				return true
			}
		case *ssa.Go, *ssa.Defer:
			return true
		case *ssa.Call:
			if !calleeKeepsNothing(facts.CalleeName(&x.Call)) && argRetained(&x.Call, v, depth+1) {
				return true
			}
		default:
			return true
		}
	}
	return false
}

func closureOutlives(mc *ssa.MakeClosure) bool {
	refs := mc.Referrers()
	if refs == nil {
		return false
	}
	for _, r := range *refs {
		switch x := r.(type) {
		case *ssa.Go, *ssa.Defer, *ssa.Store, *ssa.Send, *ssa.MakeInterface, *ssa.Return:
			return true
		case *ssa.Call:
			if x.Call.Value != ssa.Value(mc) {
				return true // passed as an argument: may be kept
			}
		}
	}
	return false
}

// calleeKeepsNothing lists callees known not to retain a pointer argument beyond the call.
func calleeKeepsNothing(name string) bool {
	for _, p := range []string{"encoding/json.Unmarshal", "encoding/json.Marshal", "fmt.", "go.uber.org/zap.", "encoding/binary.Read", "encoding/binary.Write", "(*encoding/json.Decoder).Decode", "len", "cap", "copy", "print",
		"(*bytes.Buffer).Write", "bytes.Equal", "bytes.Compare", "encoding/hex.EncodeToString", "github.com/ethereum/go-ethereum/crypto.Keccak256"} {
		if strings.HasPrefix(name, p) {
			return true
		}
	}
	return false
}
