package rules

import (
	"fmt"
	"go/token"
	"go/types"
	"strings"

	"golang.org/x/tools/go/ssa"

	"wvsa/internal/facts"
	"wvsa/internal/load"
)

// panicOb is one potential run-time panic site and the way it is discharged (DESIGN §4, E9).
type panicOb struct {
	Instr ssa.Instruction
	Kind  string // "index", "slice", "panic", "assert", "div", "nilmap"
	Desc  string
	OK    bool
	Why   string
}

// minLenOf: values whose length is known from the callee's contract.
var trustedMinLen = map[string]int64{
	"geth/crypto.Keccak256":       32,
	"(geth/common.Hash).Bytes":    32,
	"(geth/common.Address).Bytes": 20,
	"geth/crypto.Keccak256Hash":   32,
	"(N/vaa.Address).Bytes":       32,
	"(N/alephium.Byte32).ToHex":   64,
}

// knownMinLen returns a lower bound for len(v) that follows from how v was produced, or -1.
func knownMinLen(v ssa.Value, fs []facts.Fact) int64 {
	v0 := v
	v = strip(v)
	switch x := v.(type) {
	case *ssa.Call:
		if n, ok := trustedMinLen[facts.CalleeName(&x.Call)]; ok {
			return n
		}
	case *ssa.Extract:
		if cl, ok := x.Tuple.(*ssa.Call); ok && facts.CalleeName(&cl.Call) == "geth/crypto.Ecrecover" && x.Index == 0 {
			// 65 bytes on success: require the success fact
			for _, f := range fs {
				a, op, b, ok := cmpOf(f)
				if ok && op == token.EQL {
					for _, pr := range [][2]ssa.Value{{a, b}, {b, a}} {
						if ex, isEx := pr[0].(*ssa.Extract); isEx && ex.Tuple == cl && ex.Index == 1 && isNilConst(pr[1]) {
							return 65
						}
					}
				}
			}
		}
	case *ssa.MakeSlice:
		if k, ok := constInt(x.Len); ok {
			return k
		}
		// make([]byte, K+len(y)): at least K
		if b, ok := x.Len.(*ssa.BinOp); ok && b.Op == token.ADD {
			for _, pr := range [][2]ssa.Value{{b.X, b.Y}, {b.Y, b.X}} {
				if k, isK := constInt(pr[0]); isK && k >= 0 && nonNegative(pr[1], nil, 0) {
					return k
				}
			}
		}
	case *ssa.Slice:
		// full slice of an array
		if pt, ok := x.X.Type().Underlying().(*types.Pointer); ok {
			if at, ok := pt.Elem().Underlying().(*types.Array); ok && x.Low == nil && x.High == nil {
				return at.Len()
			}
		}
		if x.Low != nil && x.High != nil {
			lo, ok1 := constInt(x.Low)
			hi, ok2 := constInt(x.High)
			if ok1 && ok2 {
				return hi - lo
			}
		}
		// s[:K] (what make([]T, K) with a constant K compiles to: a slice of a fresh array)
		if x.Low == nil && x.High != nil {
			if hi, ok := constInt(x.High); ok && hi >= 0 {
				return hi
			}
		}
		// s[K:] of a slice known to have at least n elements has at least n-K
		if x.Low != nil && x.High == nil {
			if lo, ok := constInt(x.Low); ok && lo >= 0 {
				if _, isSlice := x.X.Type().Underlying().(*types.Slice); isSlice {
					if n := knownMinLen(x.X, fs); n >= lo {
						return n - lo
					}
				}
			}
		}
	case *ssa.Const:
		if x.Value != nil && x.Value.Kind().String() == "String" {
			return int64(len(x.Value.ExactString())) - 2
		}
	}
	// facts about len(v)
	best := int64(-1)
	t := facts.Term(v0)
	for _, f := range fs {
		a, op, b, ok := cmpOf(f)
		if !ok {
			continue
		}
		isLen := func(x ssa.Value) bool {
			l := lenOf(x)
			return l != nil && (l == v0 || strip(l) == v || facts.Term(l) == t)
		}
		ka, aK := constInt(a)
		kb, bK := constInt(b)
		switch {
		case op == token.EQL && isLen(a) && bK:
			best = max64(best, kb)
		case op == token.EQL && isLen(b) && aK:
			best = max64(best, ka)
		case op == token.LSS && aK && isLen(b): // k < len
			best = max64(best, ka+1)
		case op == token.LEQ && aK && isLen(b): // k <= len
			best = max64(best, ka)
		case op == token.NEQ && isLen(a) && bK && kb == 0, op == token.NEQ && isLen(b) && aK && ka == 0:
			best = max64(best, 1)
		}
	}
	return best
}

func max64(a, b int64) int64 {
	if a > b {
		return a
	}
	return b
}

// rangeIndexOver reports whether idx is the index variable of a `range` loop over value/term x.
func rangeIndexOver(idx ssa.Value, x ssa.Value) bool {
	if bound, ok := facts.CountedLoopIndex(idx); ok {
		if l := lenOf(bound); l != nil {
			return l == x || facts.Term(l) == facts.Term(x)
		}
		_, isK := constInt(bound)
		return isK
	}
	b, ok := idx.(*ssa.BinOp)
	if !ok || b.Op != token.ADD {
		return false
	}
	ph, ok := b.X.(*ssa.Phi)
	if !ok || ph.Comment != "rangeindex" {
		return false
	}
	hdr := ph.Block()
	iff, ok := hdr.Instrs[len(hdr.Instrs)-1].(*ssa.If)
	if !ok {
		return false
	}
	bo, ok := iff.Cond.(*ssa.BinOp)
	if !ok || bo.Op != token.LSS || bo.X != idx {
		return false
	}
	l := lenOf(bo.Y)
	if l == nil {
		// `range arrayPointer`: bound is a constant
		if _, isK := constInt(bo.Y); isK {
			return true
		}
		return false
	}
	return l == x || facts.Term(l) == facts.Term(x)
}

// boundsObligations enumerates index and slice expressions of fn and tries to discharge each.
func boundsObligations(p *load.Program, fn *ssa.Function) []panicOb {
	var out []panicOb
	eachInstr(fn, func(i ssa.Instruction) {
		switch x := i.(type) {
		case *ssa.IndexAddr, *ssa.Index:
			var base, idx ssa.Value
			if ia, ok := x.(*ssa.IndexAddr); ok {
				base, idx = ia.X, ia.Index
			} else {
				ix := x.(*ssa.Index)
				base, idx = ix.X, ix.Index
			}
			ob := panicOb{Instr: i, Kind: "index", Desc: facts.Term(x.(ssa.Value))}
			// arrays
			var arrLen int64 = -1
			switch t := base.Type().Underlying().(type) {
			case *types.Pointer:
				if at, ok := t.Elem().Underlying().(*types.Array); ok {
					arrLen = at.Len()
				}
			case *types.Array:
				arrLen = t.Len()
			}
			k, isK := constInt(idx)
			fs := facts.At(i, nil)
			switch {
			case arrLen >= 0 && isK && k < arrLen:
				ob.OK, ob.Why = true, "constant index into a fixed-size array"
			case arrLen >= 0 && !isK && idxTypeBound(idx) <= arrLen && idxTypeBound(idx) > 0:
				ob.OK, ob.Why = true, "index type cannot exceed the array length"
			case rangeIndexOver(idx, base):
				ob.OK, ob.Why = true, "range index of the ranged value"
			case madeWithLen(fn, base) != nil && indexBelow(idx, madeWithLen(fn, base), fs):
				ob.OK, ob.Why = true, "slice was made with the length that bounds the index"
			case isK:
				if n := knownMinLen(base, fs); n > k {
					ob.OK, ob.Why = true, fmt.Sprintf("length >= %d established on every path", n)
				} else {
					ob.Why = fmt.Sprintf("constant index %d but no length bound on %s on every path", k, facts.Term(base))
				}
			case lenMinusK(idx, base) > 0 && knownMinLen(base, fs) >= lenMinusK(idx, base):
				ob.OK, ob.Why = true, "index len-K with length >= K established on every path"
			default:
				// idx < len(base) fact
				for _, f := range fs {
					a, op, b, ok := cmpOf(f)
					if ok && op == token.LSS && (strip(a) == strip(idx) || facts.Term(a) == facts.Term(idx)) {
						if l := lenOf(b); l != nil && (l == base || facts.Term(l) == facts.Term(base)) {
							ob.OK, ob.Why = true, "dominated by index < len"
						}
					}
				}
				if !ok2(ob) {
					ob.Why = "no dominating bound for non-constant index " + facts.Term(idx)
				}
			}
			out = append(out, ob)
		case *ssa.Slice:
			ob := panicOb{Instr: i, Kind: "slice", Desc: facts.Term(x)}
			if x.Low == nil && x.High == nil {
				return // s[:] never panics (nil array pointers aside)
			}
			fs := facts.At(i, nil)
			need := int64(0)
			constOK := true
			for _, b := range []ssa.Value{x.Low, x.High} {
				if b == nil {
					continue
				}
				if k, ok := constInt(b); ok {
					need = max64(need, k)
				} else {
					constOK = false
				}
			}
			var arrLen int64 = -1
			if pt, ok := x.X.Type().Underlying().(*types.Pointer); ok {
				if at, ok := pt.Elem().Underlying().(*types.Array); ok {
					arrLen = at.Len()
				}
			}
			switch {
			case constOK && arrLen >= need:
				ob.OK, ob.Why = true, "constant bounds inside a fixed-size array"
			case constOK:
				if n := knownMinLen(x.X, fs); n >= need {
					ob.OK, ob.Why = true, fmt.Sprintf("length >= %d established on every path", n)
				} else {
					ob.Why = fmt.Sprintf("slice bound %d but no length bound on %s on every path", need, facts.Term(x.X))
				}
			default:
				// s[:n] with n <= len(s) fact, or n = result of Read into s / copy
				ob.Why = "non-constant slice bound"
				if x.High != nil && x.Low == nil {
					if ex, ok := x.High.(*ssa.Extract); ok && ex.Index == 0 {
						if cl, ok := ex.Tuple.(*ssa.Call); ok && strings.HasSuffix(facts.CalleeName(&cl.Call), ".Read") && len(cl.Call.Args) > 0 && cl.Call.Args[len(cl.Call.Args)-1] == x.X {
							ob.OK, ob.Why = true, "bound is the count returned by Read into the same buffer"
						}
					}
					for _, f := range fs {
						a, op, b, ok := cmpOf(f)
						if ok && (op == token.LEQ || op == token.LSS) && facts.Term(a) == facts.Term(x.High) {
							if l := lenOf(b); l != nil && facts.Term(l) == facts.Term(x.X) {
								ob.OK, ob.Why = true, "dominated by bound <= len"
							}
						}
					}
				}
			}
			out = append(out, ob)
		case *ssa.Panic:
			if !x.Pos().IsValid() && strings.Contains(facts.Term(x.X), "blocking select matched no case") {
				return // unreachable block synthesised by go/ssa for select statements
			}
			out = append(out, panicOb{Instr: i, Kind: "panic", Desc: "panic(" + facts.Term(x.X) + ")", Why: "explicit panic"})
		case *ssa.TypeAssert:
			if !x.CommaOk {
				out = append(out, panicOb{Instr: i, Kind: "assert", Desc: facts.Term(x), Why: "unchecked type assertion"})
			}
		case *ssa.MakeSlice:
			// make([]T, len, cap) panics on a negative length or capacity (and on cap < len)
			for _, sz := range []ssa.Value{x.Len, x.Cap} {
				if nonNegative(sz, facts.At(i, nil), 0) {
					continue
				}
				out = append(out, panicOb{Instr: i, Kind: "makeslice", Desc: "make(" + facts.Term(sz) + ")", Why: "size " + facts.Term(sz) + " is not shown to be non-negative (a difference such as len(a)-len(b) is negative when b is the larger one): make panics"})
			}
			if x.Len != x.Cap && facts.Term(x.Len) != facts.Term(x.Cap) {
				lk, okL := constInt(x.Len)
				if !(okL && lk == 0) {
					capOK := false
					// cap = len + n (or K + n with K >= len) for a non-negative n
					if b, isB := x.Cap.(*ssa.BinOp); isB && b.Op == token.ADD {
						for _, pr := range [][2]ssa.Value{{b.X, b.Y}, {b.Y, b.X}} {
							if !nonNegative(pr[1], facts.At(i, nil), 0) {
								continue
							}
							if pr[0] == x.Len || facts.Term(pr[0]) == facts.Term(x.Len) {
								capOK = true
							}
							if k, isK := constInt(pr[0]); isK && okL && k >= lk {
								capOK = true
							}
						}
					}
					if ck, okC := constInt(x.Cap); !(okL && okC && lk <= ck) && !capOK {
						out = append(out, panicOb{Instr: i, Kind: "makeslice", Desc: "make(len " + facts.Term(x.Len) + ", cap " + facts.Term(x.Cap) + ")", Why: "cap >= len is not established"})
					}
				}
			}
		}
	})
	return out
}

// nonNegative: v is an integer that cannot be negative — a constant >= 0, len/cap, an unsigned or
// widened-unsigned value, or a sum/product/quotient of such; a difference only under a must-hold
// fact that orders its operands.
func nonNegative(v ssa.Value, fs []facts.Fact, depth int) bool {
	if depth > 6 {
		return false
	}
	if k, ok := constInt(v); ok {
		return k >= 0
	}
	if b, ok := v.Type().Underlying().(*types.Basic); ok && b.Info()&types.IsUnsigned != 0 {
		return true
	}
	switch x := v.(type) {
	case *ssa.Call:
		n := facts.CalleeName(&x.Call)
		// lengths: builtins and the documented non-negative Len methods of the byte containers
		return n == "len" || n == "cap" || n == "(*bytes.Reader).Len" || n == "(*bytes.Buffer).Len" || n == "(*strings.Reader).Len"
	case *ssa.Convert:
		if b, ok := x.X.Type().Underlying().(*types.Basic); ok && b.Info()&types.IsUnsigned != 0 {
			// widening or same-size conversion of an unsigned value to int (64-bit) keeps it
			// non-negative for 8/16/32-bit sources
			switch b.Kind() {
			case types.Uint8, types.Uint16, types.Uint32:
				return true
			}
			return false
		}
		return nonNegative(x.X, fs, depth+1)
	case *ssa.BinOp:
		switch x.Op {
		case token.ADD, token.MUL, token.QUO, token.REM, token.SHR:
			return nonNegative(x.X, fs, depth+1) && nonNegative(x.Y, fs, depth+1)
		case token.SUB:
			// a - b with the fact b <= a
			a, b := facts.Term(x.X), facts.Term(x.Y)
			for _, f := range fs {
				if f.Atom == facts.CmpAtom(b, token.LEQ, a) || f.Atom == facts.CmpAtom(b, token.LSS, a) {
					return nonNegative(x.Y, fs, depth+1)
				}
			}
			return false
		}
	case *ssa.Phi:
		for _, e := range x.Edges {
			if e == v || !nonNegative(e, fs, depth+1) {
				if e == v {
					continue
				}
				return false
			}
		}
		return true
	}
	return false
}

func ok2(o panicOb) bool { return o.OK }

// idxTypeBound returns 2^bits for small unsigned index types, else -1.
func idxTypeBound(v ssa.Value) int64 {
	if b, ok := strip(v).Type().Underlying().(*types.Basic); ok {
		switch b.Kind() {
		case types.Uint8:
			return 256
		case types.Uint16:
			return 65536
		}
	}
	return -1
}

// madeWithLen returns the length value L when base is a slice created by make([]T, L) — either
// directly or through the unique store to the field of a local allocation it is loaded from.
func madeWithLen(fn *ssa.Function, base ssa.Value) ssa.Value {
	if ms, ok := base.(*ssa.MakeSlice); ok {
		return ms.Len
	}
	u, ok := base.(*ssa.UnOp)
	if !ok || u.Op != token.MUL {
		return nil
	}
	fa, ok := u.X.(*ssa.FieldAddr)
	if !ok {
		return nil
	}
	al, ok := fa.X.(*ssa.Alloc)
	if !ok {
		return nil
	}
	fld := fieldOfAddr(fa)
	var found ssa.Value
	n := 0
	eachInstr(fn, func(i ssa.Instruction) {
		if st, ok := i.(*ssa.Store); ok {
			if fa2, ok := st.Addr.(*ssa.FieldAddr); ok && fa2.X == al && fieldOfAddr(fa2) == fld {
				n++
				if ms, ok := st.Val.(*ssa.MakeSlice); ok {
					found = ms.Len
				}
			}
		}
	})
	if n != 1 {
		return nil
	}
	return found
}

// indexBelow: idx is a range index bounded by L, or a must-hold fact idx < L exists (L compared by term).
func indexBelow(idx, L ssa.Value, fs []facts.Fact) bool {
	lt := facts.Term(L)
	if b, ok := idx.(*ssa.BinOp); ok && b.Op == token.ADD {
		if ph, ok := b.X.(*ssa.Phi); ok && ph.Comment == "rangeindex" {
			hdr := ph.Block()
			if iff, ok := hdr.Instrs[len(hdr.Instrs)-1].(*ssa.If); ok {
				if bo, ok := iff.Cond.(*ssa.BinOp); ok && bo.Op == token.LSS && bo.X == idx && facts.Term(bo.Y) == lt {
					return true
				}
			}
		}
	}
	for _, f := range fs {
		a, op, b, ok := cmpOf(f)
		if ok && op == token.LSS && facts.Term(a) == facts.Term(idx) && facts.Term(b) == lt {
			return true
		}
	}
	return false
}

// lenMinusK: idx is len(base) - K for a positive constant K (the K-th element from the end);
// returns K, or 0.
func lenMinusK(idx, base ssa.Value) int64 {
	b, ok := strip(idx).(*ssa.BinOp)
	if !ok || b.Op != token.SUB {
		return 0
	}
	k, isK := constInt(b.Y)
	if !isK || k <= 0 {
		return 0
	}
	l := lenOf(b.X)
	if l == nil || !(l == base || facts.Term(l) == facts.Term(base)) {
		return 0
	}
	return k
}
