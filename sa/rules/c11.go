package rules

import (
	"fmt"
	"go/constant"
	"go/token"
	"go/types"
	"math/big"
	"sort"
	"strings"

	"golang.org/x/tools/go/ssa"

	"wvsa/internal/cparse"
	"wvsa/internal/facts"
	"wvsa/internal/load"
)

func init() {
	register("C11", "Decided from source: (fields) ToWormholeMessage requires exactly WormholeMessageFieldSize event fields and maps index i through a fixed conversion to one message field; that index order equals the Ralph `event WormholeMessage(...)` declaration and the `emit` argument order parsed from governance.ral; (narrow) for toUint8/toUint16/toUint64 the interval of big-integer values accepted on the success path — derived from the must-hold guard facts (IsUint64, Cmp against constants, Sign) intersected with what toU256 guarantees — must equal exactly [0, 2^N-1]: not smaller (a fitting value must decode) and not larger (no wrap-around in uintN(value.Uint64())); (publication) toMessagePublication copies each field, sets the Alephium chain id and derives the timestamp only from the block header — exhaustive over the struct's fields; (attest-layout) parseAttestToken's constant offsets equal the widths of the Ralph concatenation in TokenBridge.attestToken with its asserted sizes. Value-level inverses of base58/hex conversions are not decided.", c11)
}

// bigInterval is an interval over the integers with optional infinite ends.
type bigInterval struct {
	lo, hi *big.Int // nil = unbounded
}

func (iv bigInterval) String() string {
	l, h := "-inf", "+inf"
	if iv.lo != nil {
		l = iv.lo.String()
	}
	if iv.hi != nil {
		h = iv.hi.String()
	}
	return "[" + l + ", " + h + "]"
}

func (iv *bigInterval) tightenHi(v *big.Int) {
	if iv.hi == nil || v.Cmp(iv.hi) < 0 {
		iv.hi = v
	}
}
func (iv *bigInterval) tightenLo(v *big.Int) {
	if iv.lo == nil || v.Cmp(iv.lo) > 0 {
		iv.lo = v
	}
}

// bigFactsInterval derives the interval of big.Int value V implied by must-hold facts.
func bigFactsInterval(fs []facts.Fact, V ssa.Value) bigInterval {
	iv := bigInterval{}
	vt := facts.Term(V)
	for _, f := range fs {
		// V.IsUint64()
		if cl := asCall(f.Cond, "(*math/big.Int).IsUint64"); cl != nil && facts.Term(cl.Call.Args[0]) == vt && f.Pol {
			iv.tightenLo(big.NewInt(0))
			iv.tightenHi(new(big.Int).SetUint64(^uint64(0)))
		}
		if cl := asCall(f.Cond, "(*math/big.Int).IsInt64"); cl != nil && facts.Term(cl.Call.Args[0]) == vt && f.Pol {
			iv.tightenLo(big.NewInt(-1 << 63))
			iv.tightenHi(big.NewInt(1<<63 - 1))
		}
		x, op, y, ok := cmpOf(f)
		if !ok {
			continue
		}
		// V.Cmp(big.NewInt(K)) <op> 0   /  V.Sign() <op> 0
		for _, pr := range []struct {
			l, r ssa.Value
			flip bool
		}{{x, y, false}, {y, x, true}} {
			k0, isK := constInt(pr.r)
			if !isK || k0 != 0 {
				continue
			}
			o := op
			if pr.flip { // 0 op l  ==> l op' 0
				switch op {
				case token.LSS:
					o = token.GTR
				case token.LEQ:
					o = token.GEQ
				}
			}
			if cmp := asCall(pr.l, "(*math/big.Int).Cmp"); cmp != nil && facts.Term(cmp.Call.Args[0]) == vt {
				nb := asCall(cmp.Call.Args[1], "math/big.NewInt")
				if nb == nil {
					// a limit kept in a package-level variable that is assigned exactly once (in
					// the package initialiser) and only ever read: `var maxU8 = big.NewInt(255)`
					nb = c11globalBigInit(cmp.Call.Args[1])
				}
				if nb == nil {
					continue
				}
				K, isC := constInt(nb.Call.Args[0])
				if !isC {
					continue
				}
				kb := big.NewInt(K)
				switch o {
				case token.LSS: // V < K
					iv.tightenHi(new(big.Int).Sub(kb, big.NewInt(1)))
				case token.LEQ:
					iv.tightenHi(kb)
				case token.GTR:
					iv.tightenLo(new(big.Int).Add(kb, big.NewInt(1)))
				case token.GEQ:
					iv.tightenLo(kb)
				case token.EQL:
					iv.tightenLo(kb)
					iv.tightenHi(kb)
				}
			}
			if sg := asCall(pr.l, "(*math/big.Int).Sign"); sg != nil && facts.Term(sg.Call.Args[0]) == vt {
				switch o {
				case token.GEQ:
					iv.tightenLo(big.NewInt(0))
				case token.GTR:
					iv.tightenLo(big.NewInt(1))
				case token.LSS:
					iv.tightenHi(big.NewInt(-1))
				case token.LEQ:
					iv.tightenHi(big.NewInt(0))
				}
			}
		}
	}
	// V.Uint64() compared with a constant — meaningful only for a value known to fit 64 bits
	// (Uint64 returns the low 64 bits otherwise)
	fits := false
	for _, f := range fs {
		if cl := asCall(f.Cond, "(*math/big.Int).IsUint64"); cl != nil && facts.Term(cl.Call.Args[0]) == vt && f.Pol {
			fits = true
		}
	}
	if fits {
		for _, f := range fs {
			x, op, y, ok := cmpOf(f)
			if !ok {
				continue
			}
			isU := func(v ssa.Value) bool {
				cl := asCall(v, "(*math/big.Int).Uint64")
				return cl != nil && facts.Term(cl.Call.Args[0]) == vt
			}
			if kc, isK := strip(y).(*ssa.Const); isK && isU(x) && kc.Value != nil && kc.Value.Kind() == constant.Int {
				if kb, okb := new(big.Int).SetString(kc.Value.ExactString(), 10); okb {
					switch op {
					case token.LEQ:
						iv.tightenHi(kb)
					case token.LSS:
						iv.tightenHi(new(big.Int).Sub(kb, big.NewInt(1)))
					case token.EQL:
						iv.tightenLo(kb)
						iv.tightenHi(kb)
					}
				}
			}
			if kc, isK := strip(x).(*ssa.Const); isK && isU(y) && kc.Value != nil && kc.Value.Kind() == constant.Int {
				if kb, okb := new(big.Int).SetString(kc.Value.ExactString(), 10); okb {
					switch op {
					case token.LEQ:
						iv.tightenLo(kb)
					case token.LSS:
						iv.tightenLo(new(big.Int).Add(kb, big.NewInt(1)))
					case token.EQL:
						iv.tightenLo(kb)
						iv.tightenHi(kb)
					}
				}
			}
		}
	}
	return iv
}

// acceptingReturns lists returns whose last (error) result is nil or may be nil: a constant nil,
// or a value (typically the phi that merges the results of an inlined helper, or a variable) that
// is not known to be non-nil at the return.
func acceptingReturns(fn *ssa.Function) []*ssa.Return {
	var out []*ssa.Return
	eachInstr(fn, func(i ssa.Instruction) {
		if r, ok := i.(*ssa.Return); ok && len(r.Results) > 0 && r.Block().Comment != "recover" {
			rs := returnValues(r)
			last := rs[len(rs)-1]
			if isNilConst(last) {
				out = append(out, r)
				return
			}
			if !isErrorType(last.Type()) {
				return
			}
			if mayBeNilAt(last, r) {
				out = append(out, r)
			}
		}
	})
	return out
}

func isErrorType(t types.Type) bool { return t.String() == "error" }

// mayBeNilAt: error value v returned by r is not known to be non-nil.
func mayBeNilAt(v ssa.Value, r *ssa.Return) bool {
	v = facts.ThreadedValue(v)
	if isNilConst(v) {
		return true
	}
	if facts.IntrinsicNonNil(v) {
		return false
	}
	if facts.HasAtom(facts.At(r, nil), facts.CmpAtom(facts.Term(v), token.NEQ, "nil")) {
		return false
	}
	if ph, ok := v.(*ssa.Phi); ok && ph.Block() == r.Block() {
		for k, e := range ph.Edges {
			if edgeMayBeNil(e, ph.Block().Preds[k]) && facts.Reachable(ph.Block().Preds[k], nil) {
				return true
			}
		}
		return false
	}
	// a call result or variable handed on as is (`return f()`, `return err`): the callee decides;
	// such returns were never treated as acceptance points and are judged where the value is made
	return false
}

func edgeMayBeNil(e ssa.Value, pred *ssa.BasicBlock) bool {
	if isNilConst(e) {
		return true
	}
	if facts.IntrinsicNonNil(e) || facts.KnownNonNil(e, pred) {
		return false
	}
	if ph, ok := e.(*ssa.Phi); ok {
		for k, e2 := range ph.Edges {
			if e2 != e && edgeMayBeNil(e2, ph.Block().Preds[k]) {
				return true
			}
		}
		return false
	}
	return false
}

// acceptFacts: the must-hold facts on the paths on which return r yields a nil (or possibly nil)
// error. When the error result is a phi of r's block, only the entry edges that can carry nil count.
func acceptFacts(r *ssa.Return) []facts.Fact {
	if len(r.Results) == 0 {
		return facts.At(r, nil)
	}
	rs := returnValues(r)
	v := rs[len(rs)-1]
	ph, ok := v.(*ssa.Phi)
	if !ok || ph.Block() != r.Block() || !isErrorType(v.Type()) {
		return facts.At(r, nil)
	}
	var acc []facts.Fact
	first := true
	for k, e := range ph.Edges {
		pred := ph.Block().Preds[k]
		if !edgeMayBeNil(e, pred) || !facts.Reachable(pred, nil) {
			continue
		}
		ei := 0
		for j, sc := range pred.Succs {
			if sc == ph.Block() {
				ei = j
			}
		}
		fs := facts.AtEdge(pred, ei, nil)
		if first {
			acc, first = fs, false
		} else {
			acc = facts.Intersect(acc, fs)
		}
	}
	if first {
		return facts.At(r, nil)
	}
	return acc
}

// returnValues resolves results that go/ssa spills into named-result allocations when the function
// has deferred calls: a load of such an allocation is replaced by the last value stored to it in
// the returning block (or in its unique straight-line predecessors).
func returnValues(r *ssa.Return) []ssa.Value {
	out := make([]ssa.Value, len(r.Results))
	for k, v := range r.Results {
		out[k] = v
		u, ok := v.(*ssa.UnOp)
		if !ok || u.Op != token.MUL {
			continue
		}
		al, ok := u.X.(*ssa.Alloc)
		if !ok {
			continue
		}
		b := r.Block()
		for hops := 0; hops < 4 && b != nil; hops++ {
			var last ssa.Value
			for _, ins := range b.Instrs {
				if ins == ssa.Instruction(u) {
					break
				}
				if st, ok := ins.(*ssa.Store); ok && st.Addr == al {
					last = st.Val
				}
			}
			if last != nil {
				out[k] = last
				break
			}
			if len(b.Preds) != 1 {
				break
			}
			b = b.Preds[0]
		}
	}
	return out
}

func c11(c *Ctx) {
	p, R := c.Node(), c.R
	R.Trust("go/types + go/ssa", "math/big semantics (SetString base 10 accepts an optional sign; Uint64 returns the low 64 bits)", "hand-written Ralph subset parser; Ralph builtins u256ToNByte!/size!/++ as documented")
	R.Assumption("base58/hex conversion inverses are value-level properties and are not decided")
	c11narrow(c, p)
	c11fields(c, p)
	c11publication(c, p)
	c11attest(c, p)
}

func c11narrow(c *Ctx, p *load.Program) {
	R := c.R
	toU256 := must(p.Func(pkgAlph, "toU256"), "alephium.toU256")
	// what toU256 guarantees about its result on success
	var base bigInterval
	acc := acceptingReturns(toU256)
	for i, r := range acc {
		iv := bigFactsInterval(acceptFacts(r), r.Results[0])
		if i == 0 {
			base = iv
		} else { // union (conservative): drop a bound unless both have it
			if iv.lo == nil || base.lo == nil {
				base.lo = nil
			} else if iv.lo.Cmp(base.lo) < 0 {
				base.lo = iv.lo
			}
			if iv.hi == nil || base.hi == nil {
				base.hi = nil
			} else if iv.hi.Cmp(base.hi) > 0 {
				base.hi = iv.hi
			}
		}
	}
	R.Note("toU256 guarantees its result lies in %s on success (%d accepting returns)", base, len(acc))
	n := 0
	for _, spec := range []struct {
		name string
		bits uint
	}{{"toUint8", 8}, {"toUint16", 16}, {"toUint64", 64}} {
		fn := must(p.Func(pkgAlph, spec.name), "alephium."+spec.name)
		want := bigInterval{big.NewInt(0), new(big.Int).Sub(new(big.Int).Lsh(big.NewInt(1), spec.bits), big.NewInt(1))}
		// the big value: result #0 of the toU256 call
		var V ssa.Value
		eachInstr(fn, func(i ssa.Instruction) {
			if ex, ok := i.(*ssa.Extract); ok && ex.Index == 0 {
				if cl, ok := ex.Tuple.(*ssa.Call); ok && cl.Call.StaticCallee() == toU256 {
					V = ex
				}
			}
		})
		if V == nil {
			R.Fail("C11.narrow", "C11.narrow/"+spec.name, c.rel(p.Pos(fn.Pos())), spec.name, "undecided: value is not obtained from toU256")
			continue
		}
		for _, r := range acceptingReturns(fn) {
			n++
			iv := bigFactsInterval(acceptFacts(r), V)
			if base.lo != nil {
				iv.tightenLo(base.lo)
			}
			if base.hi != nil {
				iv.tightenHi(base.hi)
			}
			good := iv.lo != nil && iv.hi != nil && iv.lo.Cmp(want.lo) == 0 && iv.hi.Cmp(want.hi) == 0
			why := fmt.Sprintf("accepted interval %s, representable range %s", iv, want)
			if !good {
				if iv.hi == nil || iv.hi.Cmp(want.hi) > 0 || iv.lo == nil || iv.lo.Cmp(want.lo) < 0 {
					why += " — values outside the range are accepted and wrapped by uint(value.Uint64())"
				}
				if iv.hi != nil && iv.hi.Cmp(want.hi) < 0 {
					why += fmt.Sprintf(" — the fitting value %s is rejected", want.hi)
				}
			}
			// the returned value is uintN(V.Uint64()) (or V.Uint64())
			R.Check("C11.narrow", R.Key("C11.narrow", spec.name, "accept"), c.rel(p.Pos(instrPos(r))), spec.name+" accepts exactly the values representable in "+fmt.Sprint(spec.bits)+" bits", good, why, facts.Atoms(acceptFacts(r))...)
			R.Sample(map[string]any{"function": spec.name, "accepted_interval": iv.String(), "target_range": want.String()})
		}
	}
	R.Floor("C11.narrow", n, 3)
	// the 32-byte fields (sender / emitter address, token id): accepted only when the decoded byte
	// string has length exactly 32, and what is returned is a copy of exactly that string — a
	// shorter value padded to 32 bytes or a prefix stripped before decoding makes two different
	// event fields yield the same emitter address
	tb := must(p.Func(pkgAlph, "toByte32"), "alephium.toByte32")
	nb := 0
	for _, r := range acceptingReturns(tb) {
		nb++
		fs := acceptFacts(r)
		var V ssa.Value
		for _, f := range fs {
			x, op, y, ok := cmpOf(f)
			if !ok || op != token.EQL {
				continue
			}
			for _, pr := range [][2]ssa.Value{{x, y}, {y, x}} {
				if k, isK := constInt(pr[0]); isK && k == 32 {
					if l := lenOf(pr[1]); l != nil {
						V = l
					}
				}
			}
		}
		okSrc, okCopy := false, false
		if V != nil {
			vt := facts.Term(V)
			okSrc = vt == "N/alephium.toByteVec(field)#0" || strings.HasPrefix(vt, "encoding/hex.DecodeString(field.ValByteVec.Value)")
			eachInstr(tb, func(i ssa.Instruction) {
				if cl, ok := i.(*ssa.Call); ok && facts.CalleeName(&cl.Call) == "copy" && len(cl.Call.Args) == 2 && facts.Term(cl.Call.Args[1]) == vt {
					if sl, isSl := cl.Call.Args[0].(*ssa.Slice); isSl {
						if ret, isAl := strip(r.Results[0]).(*ssa.Alloc); isAl && sl.X == ssa.Value(ret) {
							okCopy = true
						}
					}
				}
			})
		}
		why := "no must-hold fact len(<decoded bytes>) == 32 on the accepted path"
		if V != nil {
			why = fmt.Sprintf("length-tested value %s: is the hex decoding of the field=%v, result is a copy of it=%v", facts.Term(V), okSrc, okCopy)
		}
		R.Check("C11.narrow", R.Key("C11.narrow", "toByte32", "accept"), c.rel(p.Pos(instrPos(r))), "toByte32 accepts exactly the fields whose hex decoding is 32 bytes long and returns those bytes", V != nil && okSrc && okCopy, why, facts.Atoms(fs)...)
	}
	R.Floor("C11.narrow.toByte32", nb, 1)
}

func c11fields(c *Ctx, p *load.Program) {
	R := c.R
	fn := must(p.Func(pkgAlph, "ToWormholeMessage"), "alephium.ToWormholeMessage")
	wmT := must(p.Named(pkgAlph, "WormholeMessage"), "alephium.WormholeMessage")
	szC := must(p.ByPath[pkgAlph].Types.Scope().Lookup("WormholeMessageFieldSize"), "WormholeMessageFieldSize").(*types.Const)
	sz, _ := constant.Int64Val(szC.Val())
	// expected mapping: Go field <- conversion(fields[i])
	want := map[string]string{
		"senderId":         "*N/alephium.toByte32(fields[0])#0",
		"targetChainId":    "*N/alephium.toUint16(fields[1])#0",
		"Sequence":         "*N/alephium.toUint64(fields[2])#0",
		"nonce":            "(encoding/binary.bigEndian).Uint32(*encoding/binary.BigEndian,N/alephium.toByteVec(fields[3])#0)",
		"payload":          "N/alephium.toByteVec(fields[4])#0",
		"consistencyLevel": "*N/alephium.toUint8(fields[5])#0",
		"txId":             "txId",
	}
	eventOrder := []string{"senderId", "targetChainId", "Sequence", "nonce", "payload", "consistencyLevel"}
	st := wmT.Underlying().(*types.Struct)
	n := 0
	for _, s := range allocsOf(p, wmT) {
		if s.Fn != fn {
			R.Fail("C11.fields", R.Key("C11.fields", shortFn(s.Fn), "alloc:WormholeMessage"), c.sitePos(p, s), "WormholeMessage built outside ToWormholeMessage", "messages must be decoded by ToWormholeMessage")
			continue
		}
		n++
		vals, cnt := allocStores(s.Instr.(*ssa.Alloc))
		var bad []string
		for i := 0; i < st.NumFields(); i++ {
			f := st.Field(i).Name()
			w, known := want[f]
			if !known {
				bad = append(bad, "field "+f+" has no entry in the mapping table (new field?)")
				continue
			}
			got := termOrNil(vals[f])
			if got != w || cnt[f] != 1 {
				bad = append(bad, fmt.Sprintf("%s = %s (want %s)", f, got, w))
			}
		}
		fs := facts.At(s.Instr, nil)
		// when the message is allocated first and filled in step by step, the tests lie between
		// the allocation and the accepting return that hands it out: judge them there
		for _, r := range acceptingReturns(fn) {
			if strip(returnValues(r)[0]) == ssa.Value(s.Instr.(*ssa.Alloc)) {
				fs = acceptFacts(r)
			}
		}
		if !facts.Has(fs, func(a string) bool {
			return a == fmt.Sprintf("%d == len(fields)", sz) || a == fmt.Sprintf("len(fields) == %d", sz)
		}) {
			bad = append(bad, "field count is not tested to be exactly WormholeMessageFieldSize")
		}
		if !facts.HasAtom(fs, "4 == len(N/alephium.toByteVec(fields[3])#0)") && !facts.HasAtom(fs, "len(N/alephium.toByteVec(fields[3])#0) == 4") {
			bad = append(bad, "nonce length is not tested to be 4")
		}
		for _, conv := range []string{"toByte32(fields[0])", "toUint16(fields[1])", "toUint64(fields[2])", "toByteVec(fields[3])", "toByteVec(fields[4])", "toUint8(fields[5])"} {
			if !facts.HasAtom(fs, "N/alephium."+conv+"#1 == nil") {
				bad = append(bad, "error of "+conv+" not tested")
			}
		}
		sort.Strings(bad)
		R.Check("C11.fields", R.Key("C11.fields", shortFn(fn), "alloc:WormholeMessage"), c.sitePos(p, s), "event field i is converted by the fixed conversion into the fixed message field, all conversion errors are tested, count == 6, nonce is 4 bytes big-endian", len(bad) == 0, strings.Join(bad, "; "))
		R.Sample(map[string]any{"ToWormholeMessage_mapping": termMap(vals)})
	}
	R.Floor("C11.fields", n, 1)
	// Ralph event declaration and emit order
	cs, err := cparse.ParseRalph(c.ReadFile("alephium/contracts/governance.ral"))
	if err != nil || cs["Governance"] == nil {
		R.Fail("C11.fields", "C11.fields/ralph/parse", "alephium/contracts/governance.ral", "governance.ral", fmt.Sprintf("undecided: %v", err))
		return
	}
	g := cs["Governance"]
	ev, ok := g.Events["WormholeMessage"]
	ralphToGo := map[string]string{"sender": "senderId", "targetChainId": "targetChainId", "sequence": "Sequence", "nonce": "nonce", "payload": "payload", "consistencyLevel": "consistencyLevel"}
	var declOrder []string
	for _, f := range ev.Fields {
		declOrder = append(declOrder, ralphToGo[f])
	}
	R.Check("C11.fields", "C11.fields/ralph/event-declaration", "alephium/contracts/governance.ral", "Ralph `event WormholeMessage(...)` declares the fields in the order the node indexes them", ok && strings.Join(declOrder, ",") == strings.Join(eventOrder, ",") && int64(len(ev.Fields)) == sz,
		fmt.Sprintf("declared %v, node expects %v (%d fields)", ev.Fields, eventOrder, sz))
	emitOK := false
	if pf := g.Funcs["publishWormholeMessage"]; pf != nil {
		for _, s := range pf.Body {
			if em, ok := s.(cparse.Emit); ok && em.Name == "WormholeMessage" && len(em.Args) == 6 {
				var args []string
				for _, a := range em.Args {
					args = append(args, a.String())
				}
				emitOK = strings.Join(args, ",") == "callerContractId!(),targetChainId,sequence,nonce,payload,consistencyLevel"
			}
		}
	}
	R.Check("C11.fields", "C11.fields/ralph/emit-order", "alephium/contracts/governance.ral", "publishWormholeMessage emits (callerContractId, targetChainId, sequence, nonce, payload, consistencyLevel) in declaration order", emitOK, "emit statement not of the expected form")
}

func c11publication(c *Ctx, p *load.Program) {
	R := c.R
	fn := must(p.Method(pkgAlph, "WormholeMessage", "toMessagePublication"), "toMessagePublication")
	mpT := must(p.Named(pkgCommon, "MessagePublication"), "common.MessagePublication")
	st := mpT.Underlying().(*types.Struct)
	want := map[string]string{
		"TxHash":           "geth/common.HexToHash(w.txId)",
		"Timestamp":        "time.Unix((header.Timestamp / 1000),((header.Timestamp % 1000) * 1000000))",
		"Nonce":            "w.nonce",
		"Sequence":         "w.Sequence",
		"ConsistencyLevel": "w.consistencyLevel",
		"EmitterChain":     "255",
		"TargetChain":      "w.targetChainId",
		"EmitterAddress":   "w.senderId",
		"Payload":          "w.payload",
	}
	n := 0
	for _, s := range allocsOf(p, mpT) {
		if s.Fn != fn {
			continue
		}
		n++
		vals, cnt := allocStores(s.Instr.(*ssa.Alloc))
		var bad []string
		for i := 0; i < st.NumFields(); i++ {
			f := st.Field(i).Name()
			w, known := want[f]
			if !known {
				bad = append(bad, "field "+f+" of MessagePublication has no entry in the table (new field?)")
				continue
			}
			got := termOrNil(projectThroughCall(vals[f]))
			if f == "Timestamp" && got == "time.UnixMilli(header.Timestamp)" {
				got = w // the library defines UnixMilli(ms) as Unix(ms/1e3, (ms%1e3)*1e6)
			}
			if got != w || cnt[f] != 1 {
				bad = append(bad, fmt.Sprintf("%s = %s (want %s)", f, got, w))
			}
		}
		sort.Strings(bad)
		R.Check("C11.publication", R.Key("C11.publication", shortFn(fn), "alloc:MessagePublication"), c.sitePos(p, s), "toMessagePublication copies every field, sets EmitterChain = ChainIDAlephium (255) and derives the timestamp only from the block header (exhaustive over the struct)", len(bad) == 0, strings.Join(bad, "; "))
	}
	R.Floor("C11.publication", n, 1)
	ch := must(p.ByPath[pkgVAA].Types.Scope().Lookup("ChainIDAlephium"), "vaa.ChainIDAlephium").(*types.Const)
	v, _ := constant.Int64Val(ch.Val())
	R.Check("C11.publication", "C11.publication/ChainIDAlephium", "", "ChainIDAlephium is 255", v == 255, fmt.Sprint(v))
}

// c11strings: the decoder applied to the 32-byte symbol/name strips exactly the zero padding the
// contracts use. The bridge's own Ralph decoder (AttestTokenHandler.removeTrailingZeros) treats the
// text as right-padded, so trailing NULs must be removed; leading NULs may be removed as well.
func c11strings(c *Ctx, p *load.Program) {
	R := c.R
	fn := must(p.Func(pkgAlph, "bytesToString"), "alephium.bytesToString")
	n := 0
	var rets []*ssa.Return
	eachInstr(fn, func(i ssa.Instruction) {
		if r, ok := i.(*ssa.Return); ok {
			rets = append(rets, r)
		}
	})
	for _, ret := range rets {
		rv := returnValues(ret)
		if len(rv) != 1 {
			continue
		}
		n++
		ok, why := false, "returned value = "+facts.Term(rv[0])
		{
			v := rv[0]
			if cv, isConv := v.(*ssa.Convert); isConv {
				v = cv.X
			}
			if cl, isCall := strip(v).(*ssa.Call); isCall {
				name := facts.CalleeName(&cl.Call)
				if (name == "bytes.Trim" || name == "bytes.TrimRight") && len(cl.Call.Args) == 2 && cl.Call.Args[0] == fn.Params[0] {
					if k, isK := cl.Call.Args[1].(*ssa.Const); isK && k.Value != nil && constant.StringVal(k.Value) == "\x00" {
						ok = true
					} else {
						why = "cutset is not exactly the NUL byte"
					}
				} else {
					why = "padding is removed by " + name + ": trailing NUL padding (the layout AttestTokenHandler.removeTrailingZeros assumes) is kept in the decoded text"
				}
			}
		}
		R.Check("C11.attest-strings", R.Key("C11.attest-strings", shortFn(fn), "return"), c.rel(p.Pos(fn.Pos())), "symbol and name are decoded by removing the zero padding on the right (and optionally on the left) of the 32-byte field, nothing else", ok, why)
	}
	R.Floor("C11.attest-strings", n, 1)
}

func c11attest(c *Ctx, p *load.Program) {
	R := c.R
	c11strings(c, p)
	fn := must(p.Func(pkgAlph, "parseAttestToken"), "alephium.parseAttestToken")
	tiT := must(p.Named(pkgAlph, "TokenInfo"), "alephium.TokenInfo")
	// Go side: destination -> [from,to)
	goTbl := map[string][2]int64{}
	total := int64(-1)
	for _, s := range allocsOf(p, tiT) {
		if s.Fn != fn {
			continue
		}
		vals, _ := allocStores(s.Instr.(*ssa.Alloc))
		fs := facts.At(s.Instr, nil)
		for _, f := range fs {
			x, op, y, ok := cmpOf(f)
			if ok && op == token.EQL {
				if k, isK := constInt(y); isK && lenOf(x) == fn.Params[0] {
					total = k
				}
				if k, isK := constInt(x); isK && lenOf(y) == fn.Params[0] {
					total = k
				}
			}
		}
		rng := func(v ssa.Value) ([2]int64, bool) {
			switch x := strip(v).(type) {
			case *ssa.Slice:
				lo, ok1 := constInt(x.Low)
				hi, ok2 := constInt(x.High)
				if ok1 && ok2 && x.X == fn.Params[0] {
					return [2]int64{lo, hi}, true
				}
			case *ssa.UnOp:
				if ia, ok := x.X.(*ssa.IndexAddr); ok && ia.X == fn.Params[0] {
					if k, ok := constInt(ia.Index); ok {
						return [2]int64{k, k + 1}, true
					}
				}
				// load of the local tokenId array filled by copy(tokenId[:], payload[a:b])
				if al, ok := x.X.(*ssa.Alloc); ok && al.Referrers() != nil {
					for _, r := range *al.Referrers() {
						if sl, ok := r.(*ssa.Slice); ok && sl.Referrers() != nil {
							for _, rr := range *sl.Referrers() {
								if cp, ok := rr.(*ssa.Call); ok && facts.CalleeName(&cp.Call) == "copy" && cp.Call.Args[0] == sl {
									if src, ok := cp.Call.Args[1].(*ssa.Slice); ok && src.X == fn.Params[0] {
										lo, _ := constInt(src.Low)
										hi, _ := constInt(src.High)
										return [2]int64{lo, hi}, true
									}
								}
							}
						}
					}
				}
			case *ssa.Call:
				if facts.CalleeName(&x.Call) == "N/alephium.bytesToString" {
					if sl, ok := x.Call.Args[0].(*ssa.Slice); ok && sl.X == fn.Params[0] {
						lo, ok1 := constInt(sl.Low)
						hi, ok2 := constInt(sl.High)
						if ok1 && ok2 {
							return [2]int64{lo, hi}, true
						}
					}
				}
			}
			return [2]int64{}, false
		}
		for name, v := range vals {
			if r, ok := rng(v); ok {
				goTbl[name] = r
			}
		}
		// a field filled in place: copy(result.F[:], payload[a:b])
		eachInstr(fn, func(i ssa.Instruction) {
			cp, ok := i.(*ssa.Call)
			if !ok || facts.CalleeName(&cp.Call) != "copy" {
				return
			}
			dst, ok := cp.Call.Args[0].(*ssa.Slice)
			if !ok {
				return
			}
			fa, ok := dst.X.(*ssa.FieldAddr)
			if !ok || fa.X != ssa.Value(s.Instr.(*ssa.Alloc)) {
				return
			}
			if src, ok := cp.Call.Args[1].(*ssa.Slice); ok && src.X == fn.Params[0] {
				lo, ok1 := constInt(src.Low)
				hi, ok2 := constInt(src.High)
				if ok1 && ok2 {
					goTbl[fieldOfAddr(fa).Name()] = [2]int64{lo, hi}
				}
			}
		})
	}
	// chain id slice: binary.BigEndian.Uint16(payload[a:b]) compared with ChainIDAlephium
	eachInstr(fn, func(i ssa.Instruction) {
		if cl, ok := i.(*ssa.Call); ok && strings.HasSuffix(facts.CalleeName(&cl.Call), "bigEndian).Uint16") {
			if sl, ok := cl.Call.Args[len(cl.Call.Args)-1].(*ssa.Slice); ok && sl.X == fn.Params[0] {
				lo, _ := constInt(sl.Low)
				hi, _ := constInt(sl.High)
				goTbl["<tokenChainId>"] = [2]int64{lo, hi}
			}
		}
	})
	// Ralph side
	cs, err := cparse.ParseRalph(c.ReadFile("alephium/contracts/token_bridge/token_bridge.ral"))
	var at *cparse.Func
	if err == nil && cs["TokenBridge"] != nil {
		at = cs["TokenBridge"].Funcs["attestToken"]
	}
	if at == nil {
		R.Fail("C11.attest-layout", "C11.attest-layout/ralph/parse", "alephium/contracts/token_bridge/token_bridge.ral", "TokenBridge.attestToken", fmt.Sprintf("undecided: %v", err))
		return
	}
	sizes := map[string]int64{}
	var payload cparse.Expr
	for _, s := range at.Body {
		if es, ok := s.(cparse.ExprStmt); ok {
			if cl, ok := es.X.(cparse.Call); ok && cl.Fn.String() == "assert!" && len(cl.Args) > 0 {
				if b, ok := cl.Args[0].(cparse.Bin); ok && b.Op == "==" {
					if sc, ok := b.X.(cparse.Call); ok && sc.Fn.String() == "size!" && len(sc.Args) == 1 {
						if n, ok := b.Y.(cparse.Num); ok {
							sizes[sc.Args[0].String()] = n.V.Int64()
						}
					}
				}
			}
		}
		if l, ok := s.(cparse.Let); ok && len(l.Names) == 1 && l.Names[0] == "payload" {
			payload = l.X
		}
	}
	var parts []cparse.Expr
	var flat func(e cparse.Expr)
	flat = func(e cparse.Expr) {
		if b, ok := e.(cparse.Bin); ok && b.Op == "++" {
			flat(b.X)
			flat(b.Y)
			return
		}
		parts = append(parts, e)
	}
	if payload != nil {
		flat(payload)
	}
	type seg struct {
		name     string
		from, to int64
	}
	var ralph []seg
	off := int64(0)
	okR := payload != nil
	for _, e := range parts {
		w := int64(-1)
		name := e.String()
		switch x := e.(type) {
		case cparse.Member:
			if x.String() == "PayloadId.AttestToken" {
				w = 1
			}
		case cparse.Ident:
			if n, ok := sizes[x.Name]; ok {
				w = n
			}
		case cparse.Call:
			if n, ok := ralphToWidth[x.Fn.String()]; ok {
				w = int64(n)
				if len(x.Args) == 1 {
					name = x.Args[0].String()
				}
			}
		}
		if w < 0 {
			okR = false
			break
		}
		ralph = append(ralph, seg{name, off, off + w})
		off += w
	}
	R.Check("C11.attest-layout", "C11.attest-layout/ralph/widths-known", "alephium/contracts/token_bridge/token_bridge.ral", "every segment of the Ralph attestation payload has a known width (size assertions / u256ToNByte)", okR, fmt.Sprintf("segments: %v", ralph))
	want := map[string]string{"TokenId": "localTokenId", "<tokenChainId>": "localChainId", "Decimals": "decimals", "Symbol": "symbol", "Name": "name"}
	for goName, rName := range want {
		g, okG := goTbl[goName]
		var rs *seg
		for i := range ralph {
			if ralph[i].name == rName {
				rs = &ralph[i]
			}
		}
		good := okG && rs != nil && g[0] == rs.from && g[1] == rs.to
		R.Check("C11.attest-layout", "C11.attest-layout/"+goName, c.rel(p.Pos(fn.Pos())), fmt.Sprintf("Go reads %s at the offsets where Ralph writes %s", goName, rName), good, fmt.Sprintf("go=%v ralph=%v", g, rs))
	}
	R.Check("C11.attest-layout", "C11.attest-layout/total-length", c.rel(p.Pos(fn.Pos())), "Go requires exactly the total length of the Ralph payload", okR && total == off, fmt.Sprintf("go requires %d, ralph writes %d", total, off))
	R.Floor("C11.attest-layout", len(goTbl), 5)
}

// c11globalBigInit: v is a load of a package-level *big.Int variable whose only store in the
// package is `big.NewInt(K)` in the initialiser and which is never passed to a mutating method
// (only Cmp reads it); returns that NewInt call.
func c11globalBigInit(v ssa.Value) *ssa.Call {
	u, ok := strip(v).(*ssa.UnOp)
	if !ok || u.Op != token.MUL {
		return nil
	}
	g, ok := u.X.(*ssa.Global)
	if !ok || g.Pkg == nil {
		return nil
	}
	var init *ssa.Call
	stores, bad := 0, false
	var visit func(f *ssa.Function)
	visit = func(f *ssa.Function) {
		eachInstr(f, func(i ssa.Instruction) {
			switch x := i.(type) {
			case *ssa.Store:
				if x.Addr == ssa.Value(g) {
					stores++
					init = asCall(x.Val, "math/big.NewInt")
					if f.Name() != "init" {
						bad = true
					}
				}
			case *ssa.UnOp:
				// every load of the variable may only be used as the ARGUMENT of Cmp
				if x.Op == token.MUL && x.X == ssa.Value(g) && x.Referrers() != nil {
					for _, r := range *x.Referrers() {
						cl, isCall := r.(*ssa.Call)
						if _, isDbg := r.(*ssa.DebugRef); isDbg {
							continue
						}
						if !isCall || facts.CalleeName(&cl.Call) != "(*math/big.Int).Cmp" || len(cl.Call.Args) != 2 || cl.Call.Args[1] != ssa.Value(x) {
							bad = true
						}
					}
				}
			}
		})
		for _, a := range f.AnonFuncs {
			visit(a)
		}
	}
	for _, m := range g.Pkg.Members {
		if f, ok := m.(*ssa.Function); ok {
			visit(f)
		}
	}
	if stores != 1 || bad {
		return nil
	}
	return init
}

// projectThroughCall: v reads field F of the struct a repository function returns. When that
// function is a plain constructor (one return statement returning a fresh composite literal, no
// other stores to it) the value is what the constructor puts into F — `w.GetID().Sequence` is
// `w.Sequence`. Parameters keep their names across the two functions (the receivers of the
// methods involved are spelled alike); anything else is left as it is.
func projectThroughCall(v ssa.Value) ssa.Value {
	if v == nil {
		return v
	}
	ld, ok := strip(v).(*ssa.UnOp)
	if !ok || ld.Op != token.MUL {
		return v
	}
	fa, ok := ld.X.(*ssa.FieldAddr)
	if !ok {
		return v
	}
	cl, ok := fa.X.(*ssa.Call)
	if !ok {
		return v
	}
	callee := cl.Call.StaticCallee()
	if callee == nil || len(callee.Blocks) == 0 || callee.Pkg == nil || !strings.HasPrefix(callee.Pkg.Pkg.Path(), NodeMod) {
		return v
	}
	// same argument names: each argument must be the caller's parameter with the name of the
	// callee's parameter at that position
	for k, a := range cl.Call.Args {
		if k >= len(callee.Params) || facts.Term(a) != facts.Term(callee.Params[k]) {
			return v
		}
	}
	var rets []*ssa.Return
	eachInstr(callee, func(i ssa.Instruction) {
		if r, ok := i.(*ssa.Return); ok {
			rets = append(rets, r)
		}
	})
	if len(rets) != 1 || len(rets[0].Results) != 1 {
		return v
	}
	al, ok := rets[0].Results[0].(*ssa.Alloc)
	if !ok {
		return v
	}
	vals, cnt := allocStores(al)
	name := fieldOfAddr(fa).Name()
	if cnt[name] != 1 || vals[name] == nil {
		return v
	}
	return vals[name]
}
