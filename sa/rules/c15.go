package rules

import (
	"encoding/hex"
	"fmt"
	"go/token"
	"go/types"
	"regexp"
	"sort"
	"strings"

	"golang.org/x/tools/go/ssa"

	"wvsa/internal/cparse"
	"wvsa/internal/facts"
	"wvsa/internal/layout"
	"wvsa/internal/load"
)

func init() {
	register("C15", "Decided from source for the nine governance message kinds: (layout) the ordered write table of each Go payload serializer (AST + go/types widths: 32-byte module, action byte, fixed fields, length prefixes, arrays, trailing bytes) is compared — by offset and width, independent of names — with the byteVecSlice bounds, u256FromNByte widths and size!(payload) assertions of the Ralph parser that consumes it (hand-written subset parser, linear evaluation of bounds), including action ids against the Ralph ActionId enums and the module constants left-padded to 32 bytes; (lossless) every narrowing conversion of a request-derived value in the conversion functions, and every narrowing of a length in a serializer, needs a dominating range check in the function or at every caller; (no-crash) every explicit panic reachable from InjectGovernanceVAA needs a discharge (caller-side rejection of over-long module names; an unhandled message kind must be an error, not a panic); (pure) conversion functions and serializers call no clock, RNG, environment or mutable-global API, the emitter is the configured governance emitter and the consistency level/version are constants.", c15)
}

// seg is one segment of a governance payload.
type pseg struct {
	Kind  string // module, action, field, len, array, bytes
	Name  string
	Off   int
	Width int // bytes for module/action/field/len; element width for array; -1 for bytes
	Value string
}

func (s pseg) String() string {
	switch s.Kind {
	case "array":
		return fmt.Sprintf("array %s @%d elem=%d", s.Name, s.Off, s.Width)
	case "bytes":
		return fmt.Sprintf("bytes %s @%d..", s.Name, s.Off)
	case "action":
		return fmt.Sprintf("action @%d = %s", s.Off, s.Value)
	}
	return fmt.Sprintf("%s %s @%d[%d]", s.Kind, s.Name, s.Off, s.Width)
}

// globalBytes returns the bytes of a package-level `var X = []byte{...}`.
func globalBytes(p *load.Program, pkg, name string) ([]byte, bool) {
	pk := p.ByPath[pkg]
	for _, f := range pk.Syntax {
		for _, d := range f.Decls {
			gd, ok := d.(*astGenDecl)
			if !ok {
				continue
			}
			for _, sp := range gd.Specs {
				vs, ok := sp.(*astValueSpec)
				if !ok {
					continue
				}
				for i, n := range vs.Names {
					if n.Name != name || i >= len(vs.Values) {
						continue
					}
					cl, ok := vs.Values[i].(*astCompositeLit)
					if !ok {
						return nil, false
					}
					var out []byte
					for _, e := range cl.Elts {
						tv, ok := pk.TypesInfo.Types[e]
						if !ok || tv.Value == nil {
							return nil, false
						}
						v, _ := constInt64(tv.Value)
						out = append(out, byte(v))
					}
					return out, true
				}
			}
		}
	}
	return nil, false
}

// goPayloadTable converts the event list of a Serialize method into segments.
func goPayloadTable(p *load.Program, typ string) ([]pseg, error) {
	pk := p.ByPath[pkgVAA]
	fd := layout.FindFunc(pk, typ, "Serialize")
	if fd == nil {
		return nil, fmt.Errorf("%s.Serialize not found", typ)
	}
	recv := "b"
	if fd.Recv != nil && len(fd.Recv.List[0].Names) == 1 {
		recv = fd.Recv.List[0].Names[0].Name
	}
	evs := layout.Extract(pk, fd)
	var out []pseg
	off := 0
	i := 0
	// module
	switch {
	case len(evs) > 0 && (evs[0].Field == "CoreModule" || evs[0].Field == "TokenBridgeModule") && evs[0].Loop == 0:
		b, ok := globalBytes(p, pkgVAA, evs[0].Field)
		if !ok || len(b) != 32 {
			return nil, fmt.Errorf("module constant %s is not a 32-byte literal", evs[0].Field)
		}
		out = append(out, pseg{Kind: "module", Name: evs[0].Field, Off: 0, Width: 32, Value: hex.EncodeToString(b)})
		i = 1
	case len(evs) > 1 && evs[0].Loop == 1 && evs[0].Field == "0x00" && evs[0].LoopX == "i < (32 - len("+recv+".Module))" && evs[1].Field == "[]byte("+recv+".Module)":
		out = append(out, pseg{Kind: "module", Name: "request module, zero-padded on the left to 32", Off: 0, Width: 32, Value: "<request>"})
		i = 2
	case len(evs) > 1 && evs[0].Loop == 1 && evs[0].Field == "0x00" && strings.HasPrefix(evs[1].Field, "[]byte(") && c15padLoop(p, evs[0].LoopInit, evs[0].LoopX, strings.TrimSuffix(strings.TrimPrefix(evs[1].Field, "[]byte("), ")")):
		// the same padding written as `for i := len(m); i < 32; i++` (or with a named constant)
		out = append(out, pseg{Kind: "module", Name: "request module, zero-padded on the left to 32", Off: 0, Width: 32, Value: "<request>"})
		i = 2
	default:
		return nil, fmt.Errorf("payload does not start with a 32-byte module: %v", evs)
	}
	off = 32
	for ; i < len(evs); i++ {
		e := evs[i]
		if e.Cond || e.Kind != "write" {
			return nil, fmt.Errorf("conditional or unrecognised write: %s", e)
		}
		f := strings.ReplaceAll(e.Field, recv+".", "")
		switch {
		case off == 32 && e.Width == 1 && e.ConstVal != "" && e.Loop == 0:
			// the action id: a one-byte constant (literal, conversion of a literal, or named constant)
			out = append(out, pseg{Kind: "action", Off: 32, Width: 1, Value: e.ConstVal})
			off++
		case off == 32 && e.Width == 1 && strings.HasPrefix(f, "uint8(") && e.Loop == 0:
			out = append(out, pseg{Kind: "action", Off: 32, Width: 1, Value: strings.TrimSuffix(strings.TrimPrefix(f, "uint8("), ")")})
			off++
		case e.Loop == 1 && strings.HasPrefix(e.LoopX, "range "+recv+"."):
			out = append(out, pseg{Kind: "array", Name: strings.TrimPrefix(e.LoopX, "range "+recv+"."), Off: off, Width: e.Width})
			off = -1
		case e.Loop == 1 && c15countedOver(e, recv) != "":
			// the same loop written with an index: for i := 0; i < len(b.X); i++ { … b.X[i] … }
			out = append(out, pseg{Kind: "array", Name: c15countedOver(e, recv), Off: off, Width: e.Width})
			off = -1
		case e.Loop == 0 && e.Width > 0 && strings.Contains(f, "(len("):
			nm := f[strings.Index(f, "(len(")+5:]
			nm = strings.TrimSuffix(nm, "))")
			out = append(out, pseg{Kind: "len", Name: nm, Off: off, Width: e.Width})
			off += e.Width
		case e.Loop == 0 && e.Width > 0:
			if off < 0 {
				return nil, fmt.Errorf("fixed field after a variable-length one: %s", e)
			}
			nm := strings.TrimSuffix(strings.TrimPrefix(f, "uint16("), ")")
			out = append(out, pseg{Kind: "field", Name: nm, Off: off, Width: e.Width})
			off += e.Width
		case e.Loop == 0 && e.Width < 0:
			out = append(out, pseg{Kind: "bytes", Name: strings.TrimSuffix(f, "[:]"), Off: off, Width: -1})
			off = -1
		default:
			return nil, fmt.Errorf("unrecognised write: %s", e)
		}
	}
	return out, nil
}

type govKind struct {
	GoType       string
	RalphFile    string
	Contract     string
	Func         string
	EnumContract string
	Action       string // ActionId member
	Module       string // Ralph module constant name
	Converter    string // guardiand conversion function
	// widths pinned by request validation for trailing byte fields (Go field -> bytes)
	Pinned map[string]int
	// Opaque: the trailing bytes are an operator-supplied blob parsed elsewhere (contract upgrade)
	Opaque bool
}

// govNames maps Go body fields to the Ralph let-variable that must read the same offset (needed
// where two fields have the same width and an offset/width comparison alone cannot tell them apart).
var govNames = map[string]map[string]string{
	"BodyUpdateMessageFee":                         {"NewMessageFee": "fee"},
	"BodyTransferFee":                              {"Amount": "amount", "Recipient": "recipient"},
	"BodyGuardianSetUpgrade":                       {"NewIndex": "newGuardianSetIndex"},
	"BodyTokenBridgeRegisterChain":                 {"ChainID": "remoteChainId", "EmitterAddress": "remoteTokenBridgeId"},
	"BodyTokenBridgeDestroyContracts":              {"EmitterChain": "remoteChainIdBytes"},
	"BodyTokenBridgeUpdateMinimalConsistencyLevel": {"NewConsistencyLevel": "consistencyLevel"},
}

var govKinds = []govKind{
	{"BodyUpdateMessageFee", "alephium/contracts/governance.ral", "Governance", "submitSetMessageFee", "Governance", "NewMessageFee", "CoreModule", "adminUpdateMessageFeeToVAA", map[string]int{"NewMessageFee": 32}, false},
	{"BodyTransferFee", "alephium/contracts/governance.ral", "Governance", "submitTransferFees", "Governance", "TransferFee", "CoreModule", "adminTransferFeeToVAA", map[string]int{"Amount": 32, "Recipient": 32}, false},
	{"BodyContractUpgrade", "alephium/contracts/governance.ral", "Governance", "submitContractUpgrade", "Governance", "ContractUpgrade", "CoreModule", "adminContractUpgradeToVAA", nil, true},
	{"BodyGuardianSetUpgrade", "alephium/contracts/governance.ral", "Governance", "submitNewGuardianSet", "Governance", "NewGuardianSet", "CoreModule", "adminGuardianSetUpgradeToVAA", nil, false},
	{"BodyTokenBridgeRegisterChain", "alephium/contracts/token_bridge/token_bridge_governance.ral", "TokenBridgeGovernance", "parseAndVerifyRegisterChain", "TokenBridgeGovernance", "RegisterChain", "TokenBridgeModule", "tokenBridgeRegisterChain", nil, false},
	{"BodyTokenBridgeUpgradeContract", "alephium/contracts/token_bridge/token_bridge_governance.ral", "TokenBridgeGovernance", "upgradeContract", "TokenBridgeGovernance", "ContractUpgrade", "TokenBridgeModule", "tokenBridgeUpgradeContract", nil, true},
	{"BodyTokenBridgeDestroyContracts", "alephium/contracts/token_bridge/token_bridge_governance.ral", "TokenBridgeGovernance", "destroyUnexecutedSequenceContracts", "TokenBridgeGovernance", "DestroyUnexecutedSequences", "TokenBridgeModule", "tokenBridgeDestroyUnexecutedSequenceContracts", nil, false},
	{"BodyTokenBridgeUpdateMinimalConsistencyLevel", "alephium/contracts/token_bridge/token_bridge_governance.ral", "TokenBridgeGovernance", "updateMinimalConsistencyLevel", "TokenBridgeGovernance", "UpdateMinimalConsistencyLevel", "TokenBridgeModule", "tokenBridgeUpdateMinimalConsistencyLevel", nil, false},
	{"BodyTokenBridgeUpdateRefundAddress", "alephium/contracts/token_bridge/token_bridge_governance.ral", "TokenBridgeGovernance", "updateRefundAddress", "TokenBridgeGovernance", "UpdateRefundAddress", "TokenBridgeModule", "tokenBridgeUpdateRefundAddress", nil, false},
}

func c15(c *Ctx) {
	p, R := c.Node(), c.R
	R.Trust("go/types + go/ast + go/ssa", "hand-written Ralph subset parser; Ralph builtins byteVecSlice!/u256FromNByte!/size! as documented", "encoding/binary widths")
	R.Assumption("the contract-upgrade blobs are operator-supplied and only their position (offset 33) is checked")
	ralph := map[string]map[string]*cparse.Contract{}
	getContract := func(file, name string) *cparse.Contract {
		if ralph[file] == nil {
			cs, err := cparse.ParseRalph(c.ReadFile(file))
			if err != nil {
				panic(Undecided{"cannot parse " + file + ": " + err.Error()})
			}
			ralph[file] = cs
		}
		return ralph[file][name]
	}
	// generic module/action checks in parseAndVerifyGovernanceVAAGeneric
	gov := getContract("alephium/contracts/governance.ral", "Governance")
	okMod, okAct := false, false
	if gov != nil && gov.Funcs["parseAndVerifyGovernanceVAAGeneric"] != nil {
		for _, s := range gov.Funcs["parseAndVerifyGovernanceVAAGeneric"].Body {
			if es, ok := s.(cparse.ExprStmt); ok {
				t := es.X.String()
				if strings.HasPrefix(t, "assert!((u256From32Byte!(byteVecSlice!(payload, 0, 32)) == coreModule)") {
					okMod = true
				}
				if strings.HasPrefix(t, "assert!((byteVecSlice!(payload, 32, 33) == action)") {
					okAct = true
				}
			}
		}
	}
	R.Check("C15.layout", "C15.layout/ralph/generic-header", "alephium/contracts/governance.ral", "the contract checks payload[0:32] against the module and payload[32:33] against the action id", okMod && okAct, fmt.Sprintf("module assert=%v action assert=%v", okMod, okAct))

	nk := 0
	for _, k := range govKinds {
		nk++
		rule := "C15.layout"
		tbl, err := goPayloadTable(p, k.GoType)
		key := "C15.layout/" + k.GoType
		if err != nil {
			R.Fail(rule, key, "node/pkg/vaa/payloads.go", k.GoType+".Serialize", "undecided: "+err.Error())
			continue
		}
		ct := getContract(k.RalphFile, k.Contract)
		var fn *cparse.Func
		if ct != nil {
			fn = ct.Funcs[k.Func]
		}
		if fn == nil {
			R.Fail(rule, key, k.RalphFile, k.Contract+"."+k.Func, "undecided: Ralph function not found")
			continue
		}
		var bad []string
		var smp []string
		for _, s := range tbl {
			smp = append(smp, s.String())
		}
		// module constant and action id
		enumCt := getContract(k.RalphFile, k.EnumContract)
		actHex, _ := hexOfConst(enumCt.Enums["ActionId"][k.Action])
		modHex, _ := hexOfConst(enumCt.Consts[k.Module])
		for _, s := range tbl {
			switch s.Kind {
			case "module":
				if s.Value != "<request>" && strings.TrimLeft(s.Value, "0") != strings.TrimLeft(modHex, "0") {
					bad = append(bad, fmt.Sprintf("module bytes %s differ from Ralph %s = %s", s.Value, k.Module, modHex))
				}
			case "action":
				gv := strings.TrimPrefix(strings.ToLower(s.Value), "0x")
				var n int64
				fmt.Sscanf(s.Value, "%v", &n)
				if strings.HasPrefix(strings.ToLower(s.Value), "0x") {
					fmt.Sscanf(gv, "%x", &n)
				}
				if fmt.Sprintf("%02x", n) != actHex {
					bad = append(bad, fmt.Sprintf("action id %s differs from Ralph ActionId.%s = #%s", s.Value, k.Action, actHex))
				}
			}
		}
		// the Ralph function must select this action
		selOK := false
		for _, s := range fn.Body {
			if l, ok := s.(cparse.Let); ok && l.X != nil && strings.Contains(l.X.String(), "parseAndVerifyGovernanceVAA(vaa, ActionId."+k.Action+")") {
				selOK = true
			}
		}
		if !selOK {
			bad = append(bad, "Ralph function does not verify the VAA with ActionId."+k.Action)
		}
		// reads on payload
		env := &ralphEnv{vars: map[string]lin{}}
		var reads []ralphRead
		var asserts []cparse.Expr
		ralphReads(fn.Body, env, false, &reads, &asserts)
		type rfix struct{ off, w int }
		var rfixed []rfix
		var rvar []ralphRead
		for _, r := range reads {
			if r.Src != "payload" {
				continue
			}
			smp = append(smp, "ralph: "+r.String())
			if w := r.width(); w > 0 && r.From.K == 0 {
				rfixed = append(rfixed, rfix{int(r.From.C), w})
			} else {
				rvar = append(rvar, r)
			}
		}
		// asserted total size
		var sizeExpr *lin
		for _, a := range asserts {
			if b, ok := a.(cparse.Bin); ok && b.Op == "==" && b.X.String() == "size!(payload)" {
				if l, ok := env.eval(b.Y); ok {
					sizeExpr = &l
				}
			}
		}
		if k.Opaque {
			// only the header: the blob starts at 33 and is handed to parseContractUpgrade
			okBlob := false
			for _, s := range fn.Body {
				if l, ok := s.(cparse.Let); ok && l.X != nil && strings.Contains(l.X.String(), "tokenBridgeFactory.parseContractUpgrade(payload)") {
					okBlob = true
				}
			}
			last := tbl[len(tbl)-1]
			if !okBlob || last.Kind != "bytes" || last.Off != 33 {
				bad = append(bad, fmt.Sprintf("upgrade blob: go=%s, ralph hands payload to parseContractUpgrade=%v", last, okBlob))
			}
		} else {
			// fixed fields
			var gfixed []rfix
			total := 33
			var lenSeg, arrSeg, bytesSeg *pseg
			for i := range tbl {
				s := &tbl[i]
				switch s.Kind {
				case "field":
					gfixed = append(gfixed, rfix{s.Off, s.Width})
					total = s.Off + s.Width
				case "len":
					gfixed = append(gfixed, rfix{s.Off, s.Width})
					total = s.Off + s.Width
					lenSeg = s
				case "array":
					arrSeg = s
				case "bytes":
					if w, ok := k.Pinned[s.Name]; ok {
						gfixed = append(gfixed, rfix{s.Off, w})
						total = s.Off + w
						// the following segment offsets continue after the pinned width
						for j := i + 1; j < len(tbl); j++ {
							if tbl[j].Off < 0 {
								tbl[j].Off = total
								if w2, ok := k.Pinned[tbl[j].Name]; ok {
									total += w2
									_ = w2
								}
							}
						}
					} else {
						bytesSeg = s
					}
				}
			}
			sort.Slice(gfixed, func(i, j int) bool { return gfixed[i].off < gfixed[j].off })
			sort.Slice(rfixed, func(i, j int) bool { return rfixed[i].off < rfixed[j].off })
			// recompute pinned sequences (Amount, Recipient)
			if len(k.Pinned) > 0 {
				gfixed = nil
				o := 33
				for _, s := range tbl {
					if s.Kind == "bytes" {
						gfixed = append(gfixed, rfix{o, k.Pinned[s.Name]})
						o += k.Pinned[s.Name]
					}
				}
				total = o
			}
			if fmt.Sprint(gfixed) != fmt.Sprint(rfixed) {
				bad = append(bad, fmt.Sprintf("fixed fields (offset,width): go %v, ralph %v", gfixed, rfixed))
			}
			// per-name offsets
			goOff := map[string]int{}
			o := 33
			for _, s := range tbl {
				switch s.Kind {
				case "field", "len":
					goOff[s.Name] = s.Off
				case "bytes":
					if w, ok := k.Pinned[s.Name]; ok {
						goOff[s.Name] = o
						o += w
					}
				}
			}
			for gf, rn := range govNames[k.GoType] {
				found := false
				for _, r := range reads {
					if r.Src == "payload" && r.Name == rn {
						found = true
						if g, ok := goOff[gf]; !ok || int(r.From.C) != g {
							bad = append(bad, fmt.Sprintf("Go writes %s at %d, Ralph reads %s at %d", gf, goOff[gf], rn, r.From.C))
						}
					}
				}
				if !found {
					bad = append(bad, "Ralph variable "+rn+" (counterpart of "+gf+") not found")
				}
			}
			switch {
			case arrSeg != nil && lenSeg != nil:
				// ralph: size == C + len*k with C = start of the array, k = element width; length read at lenSeg
				if sizeExpr == nil || int(sizeExpr.C) != lenSeg.Off+lenSeg.Width || int(sizeExpr.K) != arrSeg.Width {
					bad = append(bad, fmt.Sprintf("array: go starts at %d with %d-byte elements, ralph asserts size == %v", lenSeg.Off+lenSeg.Width, arrSeg.Width, sizeExpr))
				}
			case bytesSeg != nil && lenSeg != nil:
				if sizeExpr == nil || int(sizeExpr.C) != lenSeg.Off+lenSeg.Width || sizeExpr.K != 1 {
					bad = append(bad, fmt.Sprintf("length-prefixed bytes: go data starts at %d, ralph asserts size == %v", lenSeg.Off+lenSeg.Width, sizeExpr))
				}
			case bytesSeg != nil:
				bad = append(bad, "trailing bytes "+bytesSeg.Name+" have neither a length prefix nor a width pinned by request validation")
			default:
				if sizeExpr == nil || sizeExpr.K != 0 || int(sizeExpr.C) != total {
					bad = append(bad, fmt.Sprintf("total size: go %d, ralph asserts %v", total, sizeExpr))
				}
			}
		}
		sort.Strings(bad)
		R.Check(rule, key, "node/pkg/vaa/payloads.go", fmt.Sprintf("%s.Serialize writes exactly what %s.%s parses (module, action id ActionId.%s, field offsets/widths, length prefixes, total size)", k.GoType, k.Contract, k.Func, k.Action), len(bad) == 0, strings.Join(bad, "; "))
		R.Sample(map[string]any{"kind": k.GoType, "tables": smp})
	}
	R.Floor("C15.layout.kinds", nk, 9)
	c15pinned(c, p)
	c15lossless(c, p)
	c15noCrash(c, p)
	c15pure(c, p)
}

// c15pinned: widths assumed for trailing byte fields are enforced by request validation.
func c15pinned(c *Ctx, p *load.Program) {
	R := c.R
	for _, k := range govKinds {
		if len(k.Pinned) == 0 {
			continue
		}
		fn := must(p.Func(pkgGuardiand, k.Converter), "guardiand."+k.Converter)
		for _, r := range acceptingReturns(fn) {
			fs := facts.Atoms(acceptFacts(r))
			n := 0
			why := ""
			for _, a := range fs {
				// the decoded value itself is pinned to 32 bytes
				if strings.HasPrefix(a, "32 == len(encoding/hex.DecodeString(") {
					n++
					continue
				}
				if !strings.HasPrefix(a, "64 == len(req.") {
					continue
				}
				// the string whose length is pinned must be the very string that is decoded:
				// decoding a trimmed or otherwise transformed copy lets a 64-character request
				// value decode to fewer than 32 bytes
				str := strings.TrimSuffix(strings.TrimPrefix(a, "64 == len("), ")")
				decoded := false
				for _, b := range fs {
					if strings.HasPrefix(b, "encoding/hex.DecodeString("+str+")") && strings.HasSuffix(b, "#1 == nil") {
						decoded = true
					}
				}
				if decoded {
					n++
				} else {
					why += "length of " + str + " is pinned to 64 characters but the value decoded is not hex.DecodeString(" + str + "): a transformed string (prefix stripped, trimmed) decodes to a different width; "
				}
			}
			if why != "" {
				fs = append([]string{why}, fs...)
			}
			R.Check("C15.layout", R.Key("C15.layout", k.Converter, "pinned-widths"), c.rel(p.Pos(instrPos(r))), fmt.Sprintf("%s accepts only 64-hex-character (32-byte) values for its %d fixed-width fields", k.Converter, len(k.Pinned)), n == len(k.Pinned), strings.Join(fs, ";"))
		}
	}
}

// c15lossless: narrowing conversions on request-derived values.
func c15lossless(c *Ctx, p *load.Program) {
	R := c.R
	inject := must(p.Method(pkgGuardiand, "nodePrivilegedService", "InjectGovernanceVAA"), "InjectGovernanceVAA")
	var fns []*ssa.Function
	fns = append(fns, inject)
	for _, k := range govKinds {
		fns = append(fns, must(p.Func(pkgGuardiand, k.Converter), "guardiand."+k.Converter))
	}
	n := 0
	bounded := func(fs []facts.Fact, operand ssa.Value, max int64) bool {
		ot := facts.Term(operand)
		for _, f := range fs {
			x, op, y, ok := cmpOf(f)
			if !ok {
				continue
			}
			if facts.Term(x) != ot {
				continue
			}
			if k, isK := constInt(y); isK && (op == token.LEQ && k <= max || op == token.LSS && k <= max+1) {
				return true
			}
		}
		return false
	}
	for _, fn := range fns {
		eachInstr(fn, func(i ssa.Instruction) {
			cv, ok := i.(*ssa.Convert)
			if !ok || !strings.HasPrefix(facts.Term(cv), "narrow:") {
				return
			}
			tb, ok := cv.Type().Underlying().(*types.Basic)
			if !ok {
				return
			}
			_, hi := facts.IntRange(tb)
			max, _ := constInt64(hi)
			// signed source widened to int64 (e.g. int64(uint32)) is reported as narrowing only when ranges really differ
			// a widening of a value that was itself narrowed (`uint32(uint16(x))`) only serves the
			// round-trip test below and is not a narrowing of request data
			if inner, isCv := cv.X.(*ssa.Convert); isCv && strings.HasPrefix(facts.Term(inner), "narrow:") && !strings.HasPrefix(facts.Term(cv), "narrow:narrow:") {
				if it, ok := inner.X.Type().Underlying().(*types.Basic); ok && it.Kind() == tb.Kind() {
					return
				}
			}
			n++
			ok2 := bounded(facts.At(cv, nil), cv.X, max)
			if !ok2 {
				// the round-trip idiom: `n := T(x); if W(n) != x { reject }` — every use of the
				// narrowed value other than that comparison lies behind the fact W(T(x)) == x
				ok2 = c15roundTrip(cv)
			}
			R.Check("C15.lossless", R.Key("C15.lossless", shortFn(fn), "convert:"+facts.Term(cv)), c.rel(p.Pos(cv.Pos())), "narrowing "+facts.Term(cv)+" in "+shortFn(fn)+" is dominated by a range check of its operand", ok2,
				"no dominating check `"+facts.Term(cv.X)+" <= "+fmt.Sprint(max)+"`: a larger request value is wrapped into the payload instead of being rejected")
		})
	}
	// serializers: narrowing of len(b.F) needs the bound at every caller
	for _, k := range govKinds {
		ser := must(p.Method(pkgVAA, k.GoType, "Serialize"), "vaa."+k.GoType+".Serialize")
		eachInstr(ser, func(i ssa.Instruction) {
			cv, ok := i.(*ssa.Convert)
			if !ok || !strings.HasPrefix(facts.Term(cv), "narrow:") {
				return
			}
			l := lenOf(cv.X)
			if l == nil {
				return
			}
			_, fld := fieldLoad(l)
			if fld == nil {
				return
			}
			tb := cv.Type().Underlying().(*types.Basic)
			_, hi := facts.IntRange(tb)
			max, _ := constInt64(hi)
			sites := callsTo(p, ser)
			for _, s := range sites {
				if s.Fn.Pkg.Pkg.Path() != pkgGuardiand {
					continue // only the operator request path is in scope (pkg/devnet helpers build fixed local sets)
				}
				n++
				// the receiver literal's field value
				recv := s.Instr.(ssa.CallInstruction).Common().Args[0]
				var fv ssa.Value
				if u, ok := recv.(*ssa.UnOp); ok {
					if al, ok := u.X.(*ssa.Alloc); ok {
						vals, _ := allocStores(al)
						fv = vals[fld.Name()]
					}
				}
				okB := false
				why := "receiver is not a local literal"
				if fv != nil {
					lt := "len(" + facts.Term(fv) + ")"
					if ms, ok := fv.(*ssa.MakeSlice); ok {
						lt = facts.Term(ms.Len)
					}
					why = "no dominating check `" + lt + " <= " + fmt.Sprint(max) + "` at the caller"
					for _, f := range facts.At(s.Instr, nil) {
						x, op, y, ok := cmpOf(f)
						if !ok || facts.Term(x) != lt {
							continue
						}
						if kk, isK := constInt(y); isK && (op == token.LEQ && kk <= max || op == token.LSS && kk <= max+1) {
							okB = true
						}
					}
				}
				R.Check("C15.lossless", R.Key("C15.lossless", shortFn(s.Fn), "caller-bound:"+k.GoType+"."+fld.Name()), c.sitePos(p, s), fmt.Sprintf("%s.Serialize narrows len(%s) to %s; caller %s bounds it", k.GoType, fld.Name(), tb.Name(), shortFn(s.Fn)), okB, why+": a longer list/string is serialised with a wrapped length prefix")
			}
		})
	}
	R.Floor("C15.lossless", n, 7)
}

func c15noCrash(c *Ctx, p *load.Program) {
	R := c.R
	inject := must(p.Method(pkgGuardiand, "nodePrivilegedService", "InjectGovernanceVAA"), "InjectGovernanceVAA")
	reach := reachableFuncs(p, inject)
	var fns []*ssa.Function
	for f := range reach {
		if f.Pkg == nil || len(f.Blocks) == 0 {
			continue
		}
		pp := f.Pkg.Pkg.Path()
		if pp == pkgGuardiand || pp == pkgVAA {
			fns = append(fns, f)
		}
	}
	sort.Slice(fns, func(i, j int) bool { return fname(fns[i]) < fname(fns[j]) })
	R.Count("functions_reachable_from_InjectGovernanceVAA", len(fns))
	n := 0
	for _, f := range fns {
		for _, ob := range boundsObligations(p, f) {
			if ob.Kind != "panic" {
				if !ob.OK {
					if ok, why := c15boundsException(f, ob); ok {
						ob.OK, ob.Why = true, why
					}
				}
				R.Check("C15.no-crash", R.Key("C15.no-crash", shortFn(f), ob.Kind+":"+ob.Desc), c.rel(p.Pos(instrPos(ob.Instr))), ob.Kind+" "+ob.Desc+" in "+shortFn(f)+" cannot panic", ob.OK, ob.Why)
				continue
			}
			n++
			pn := ob.Instr.(*ssa.Panic)
			t := facts.Term(pn.X)
			kind, why := "", ""
			switch {
			case strings.Contains(t, "module longer than 32 byte"):
				// every caller of this Serialize rejects len(Module) > 32 first
				bad := ""
				for _, s := range callsTo(p, f) {
					recv := s.Instr.(ssa.CallInstruction).Common().Args[0]
					var mv ssa.Value
					if u, ok := recv.(*ssa.UnOp); ok {
						if al, ok := u.X.(*ssa.Alloc); ok {
							vals, _ := allocStores(al)
							mv = vals["Module"]
						}
					}
					okB := false
					if mv != nil {
						lt := "len(" + facts.Term(mv) + ")"
						for _, ft := range facts.At(s.Instr, nil) {
							x, op, y, ok := cmpOf(ft)
							if ok && facts.Term(x) == lt {
								if kk, isK := constInt(y); isK && (op == token.LEQ && kk <= 32 || op == token.LSS && kk <= 33) {
									okB = true
								}
							}
						}
					}
					if !okB {
						bad = fname(s.Fn)
					}
				}
				if bad == "" {
					kind, why = "guarded", "every caller rejects module names longer than 32 bytes"
				} else {
					why = "caller " + bad + " does not reject a module name longer than 32 bytes before Serialize: such a request panics the admin RPC handler"
				}
			case strings.Contains(t, "failed to write binary data"):
				kind, why = c13mustWrite(p, f)
			case strings.Contains(t, "unsupported VAA type"):
				why = "a governance message without payload (or of an unknown kind) reaches the type switch's default branch and panics instead of being rejected"
			default:
				why = "no discharge for " + t
			}
			R.Check("C15.no-crash", R.Key("C15.no-crash", shortFn(f), "panic:"+t), c.rel(p.Pos(instrPos(pn))), "explicit panic in "+shortFn(f)+" cannot be triggered by any request (discharge: "+kind+")", kind != "", why)
		}
	}
	R.Floor("C15.no-crash.panics", n, 3)
}

func c15boundsException(f *ssa.Function, ob panicOb) (bool, string) {
	// addrs[i] = ethAddr: addrs is make([]Address, len(req.Guardians)) indexed by the range index over req.Guardians
	if ia, ok := ob.Instr.(*ssa.IndexAddr); ok {
		if ms, ok := ia.X.(*ssa.MakeSlice); ok && isRangeIndex(ia.Index) {
			b := ia.Index.(*ssa.BinOp)
			hdr := b.X.(*ssa.Phi).Block()
			if iff, ok := hdr.Instrs[len(hdr.Instrs)-1].(*ssa.If); ok {
				if bo, ok := iff.Cond.(*ssa.BinOp); ok && facts.Term(bo.Y) == facts.Term(ms.Len) {
					return true, "slice made with the length that bounds the range loop"
				}
			}
		}
	}
	return false, ob.Why
}

// c15pure: no clock / RNG / environment in construction; emitter and constants.
func c15pure(c *Ctx, p *load.Program) {
	R := c.R
	forbidden := []string{"time.Now", "math/rand.", "crypto/rand.", "os.Getenv", "os.Hostname", "time.Since"}
	var fns []*ssa.Function
	for _, k := range govKinds {
		fns = append(fns, must(p.Func(pkgGuardiand, k.Converter), k.Converter), must(p.Method(pkgVAA, k.GoType, "Serialize"), k.GoType+".Serialize"))
	}
	cg := must(p.Func(pkgVAA, "CreateGovernanceVAA"), "vaa.CreateGovernanceVAA")
	fns = append(fns, cg)
	// helpers of the same module reached from the constructors are part of construction
	seenFn := map[*ssa.Function]bool{}
	for _, f := range fns {
		seenFn[f] = true
	}
	for depth, frontier := 0, append([]*ssa.Function{}, fns...); depth < 3 && len(frontier) > 0; depth++ {
		var next []*ssa.Function
		for _, f := range frontier {
			eachInstr(f, func(i ssa.Instruction) {
				if ci, ok := i.(ssa.CallInstruction); ok {
					g := ci.Common().StaticCallee()
					if g != nil && !seenFn[g] && len(g.Blocks) > 0 && g.Pkg != nil && (g.Pkg.Pkg.Path() == pkgVAA || g.Pkg.Pkg.Path() == pkgGuardiand) {
						seenFn[g] = true
						fns = append(fns, g)
						next = append(next, g)
					}
				}
			})
		}
		frontier = next
	}
	// rootGlobal: the package-level slice variable v is (a reslice of), directly or as a parameter
	// bound to one at a call site inside the analysed functions
	var rootGlobal func(v ssa.Value, f *ssa.Function, depth int) string
	rootGlobal = func(v ssa.Value, f *ssa.Function, depth int) string {
		for {
			if sl, ok := v.(*ssa.Slice); ok {
				v = sl.X
				continue
			}
			break
		}
		if u, ok := v.(*ssa.UnOp); ok && u.Op == token.MUL {
			if g, ok := u.X.(*ssa.Global); ok {
				return g.Name()
			}
		}
		if pr, ok := v.(*ssa.Parameter); ok && depth < 2 {
			idx := -1
			for k, q := range f.Params {
				if q == pr {
					idx = k
				}
			}
			for _, s := range callsTo(p, f) {
				if !seenFn[s.Fn] || idx < 0 {
					continue
				}
				args := s.Instr.(ssa.CallInstruction).Common().Args
				if idx < len(args) {
					if g := rootGlobal(args[idx], s.Fn, depth+1); g != "" {
						return g + " (passed by " + shortFn(s.Fn) + ")"
					}
				}
			}
		}
		return ""
	}
	for _, f := range fns {
		bad := ""
		eachInstr(f, func(i ssa.Instruction) {
			if ci, ok := i.(ssa.CallInstruction); ok {
				n := facts.CalleeName(ci.Common())
				for _, fb := range forbidden {
					if strings.HasPrefix(n, fb) {
						bad = n
					}
				}
				// append(g, …) may write into g's backing array; bytes.NewBuffer(g) hands g's
				// array to a buffer that later writes overwrite: the bytes already returned for an
				// earlier message then change when the next one is built
				if (n == "append" || n == "bytes.NewBuffer") && len(ci.Common().Args) > 0 {
					if g := rootGlobal(ci.Common().Args[0], f, 0); g != "" {
						bad = n + " on package variable " + g + " can write into its backing array (the payload returned for one message is overwritten by the next)"
					}
				}
				if n == "copy" && len(ci.Common().Args) > 0 {
					if g := rootGlobal(ci.Common().Args[0], f, 0); g != "" {
						bad = "copy into package variable " + g
					}
				}
			}
			if st, ok := i.(*ssa.Store); ok {
				if _, isG := st.Addr.(*ssa.Global); isG {
					bad = "store to package variable " + facts.Term(st.Addr)
				}
				if ia, ok := st.Addr.(*ssa.IndexAddr); ok {
					if g := rootGlobal(ia.X, f, 0); g != "" {
						bad = "store into element of package variable " + g
					}
				}
			}
		})
		R.Check("C15.pure", R.Key("C15.pure", shortFn(f), "effects"), c.rel(p.Pos(f.Pos())), shortFn(f)+" uses no clock, randomness, environment or mutable package state", bad == "", bad)
	}
	// CreateGovernanceVAA literal
	vaaT := must(p.Named(pkgVAA, "VAA"), "vaa.VAA")
	for _, s := range allocsOf(p, vaaT) {
		if s.Fn != cg {
			continue
		}
		vals, _ := allocStores(s.Instr.(*ssa.Alloc))
		want := map[string]string{"Version": "1", "GuardianSetIndex": "guardianSetIndex", "Timestamp": "timestamp", "Nonce": "nonce", "Sequence": "sequence", "ConsistencyLevel": "32",
			"EmitterChain": "governanceChainId", "TargetChain": "targetChain", "EmitterAddress": "governanceEmitterAddress", "Payload": "payload"}
		var bad []string
		for f, w := range want {
			if termOrNil(vals[f]) != w {
				bad = append(bad, fmt.Sprintf("%s = %s (want %s)", f, termOrNil(vals[f]), w))
			}
		}
		sort.Strings(bad)
		R.Check("C15.pure", "C15.pure/CreateGovernanceVAA/literal", c.sitePos(p, s), "the governance VAA is built from its arguments with constant version and consistency level", len(bad) == 0, strings.Join(bad, "; "))
	}
	// Inject passes the configured governance emitter
	inject := must(p.Method(pkgGuardiand, "nodePrivilegedService", "InjectGovernanceVAA"), "InjectGovernanceVAA")
	n := 0
	eachInstr(inject, func(i ssa.Instruction) {
		cl, ok := i.(*ssa.Call)
		if !ok || cl.Call.StaticCallee() == nil || cl.Call.StaticCallee().Pkg == nil || cl.Call.StaticCallee().Pkg.Pkg.Path() != pkgGuardiand || len(cl.Call.Args) != 8 {
			return
		}
		n++
		a := cl.Call.Args
		ok2 := facts.Term(a[0]) == "s.governanceChainId" && facts.Term(a[1]) == "s.governanceEmitterAddress" && facts.Term(a[3]) == "time.Unix(req.Timestamp,0)" && facts.Term(a[4]) == "req.CurrentSetIndex"
		R.Check("C15.pure", R.Key("C15.pure", shortFn(inject), "call:"+cl.Call.StaticCallee().Name()), c.rel(p.Pos(cl.Pos())), "conversion is called with the configured governance emitter and the request's own timestamp / set index", ok2, fmt.Sprintf("%s, %s, %s, %s", facts.Term(a[0]), facts.Term(a[1]), facts.Term(a[3]), facts.Term(a[4])))
	})
	R.Floor("C15.pure.conversions", n, 9)
	// every message of a batch is converted from its own request fields only: no argument of a
	// conversion, and nothing else that reaches the injected VAA, is carried over from an earlier
	// iteration of the loop over req.Messages (a variable assigned on some paths only and read on
	// all — the target chain "inherited" from the previous message)
	nm := 0
	for _, l := range facts.LoopsOf(inject) {
		body := l.Body()
		eachInstr(inject, func(i ssa.Instruction) {
			if !body[i.Block()] {
				return
			}
			var vals []ssa.Value
			what := ""
			switch x := i.(type) {
			case *ssa.Call:
				if x.Call.StaticCallee() == nil || x.Call.StaticCallee().Pkg == nil || x.Call.StaticCallee().Pkg.Pkg.Path() != pkgGuardiand || len(x.Call.Args) != 8 {
					return
				}
				vals, what = x.Call.Args, "call:"+x.Call.StaticCallee().Name()
			case *ssa.Send:
				vals, what = []ssa.Value{x.X}, "send:injectC"
			default:
				return
			}
			nm++
			carried := ""
			for k, v := range vals {
				if ph := carriedState(v, l, 0, map[ssa.Value]bool{}); ph != nil {
					carried += fmt.Sprintf("operand %d depends on %s, which survives from the previous message; ", k, facts.Term(ph))
				}
			}
			R.Check("C15.pure", R.Key("C15.pure", shortFn(inject), "per-message:"+what), c.rel(p.Pos(i.Pos())), "a message of a batch is converted from its own fields only (nothing carried over from the previous message)", carried == "", carried)
		})
	}
	R.Floor("C15.pure.per-message", nm, 10)
}

// carriedState: v depends (through pure operators, conversions and non-header phis) on a phi at
// the header of loop l that is not the loop's own counter — a value that survives from one
// iteration to the next.
func carriedState(v ssa.Value, l facts.Loop, depth int, seen map[ssa.Value]bool) *ssa.Phi {
	if v == nil || depth > 12 || seen[v] {
		return nil
	}
	seen[v] = true
	switch x := v.(type) {
	case *ssa.Phi:
		if x.Block() == l.Header {
			// the loop counter: advanced by a constant on every back edge
			counter := true
			for k, e := range x.Edges {
				pred := x.Block().Preds[k]
				if !l.Body()[pred] {
					continue
				}
				b, ok := e.(*ssa.BinOp)
				if !ok || b.Op != token.ADD || b.X != ssa.Value(x) {
					counter = false
				}
			}
			if counter {
				return nil
			}
			return x
		}
		for _, e := range x.Edges {
			if r := carriedState(e, l, depth+1, seen); r != nil {
				return r
			}
		}
	case *ssa.BinOp:
		if r := carriedState(x.X, l, depth+1, seen); r != nil {
			return r
		}
		return carriedState(x.Y, l, depth+1, seen)
	case *ssa.UnOp:
		return carriedState(x.X, l, depth+1, seen)
	case *ssa.Convert:
		return carriedState(x.X, l, depth+1, seen)
	case *ssa.ChangeType:
		return carriedState(x.X, l, depth+1, seen)
	case *ssa.MakeInterface:
		return carriedState(x.X, l, depth+1, seen)
	case *ssa.Extract:
		return carriedState(x.Tuple, l, depth+1, seen)
	case *ssa.FieldAddr:
		return carriedState(x.X, l, depth+1, seen)
	case *ssa.IndexAddr:
		if r := carriedState(x.X, l, depth+1, seen); r != nil {
			return r
		}
		return carriedState(x.Index, l, depth+1, seen)
	case *ssa.TypeAssert:
		return carriedState(x.X, l, depth+1, seen)
	case *ssa.Call:
		for _, a := range x.Call.Args {
			if r := carriedState(a, l, depth+1, seen); r != nil {
				return r
			}
		}
	}
	return nil
}

// c15padLoop: the loop header pads module string m on the left to 32 bytes:
// `i := 0; i < 32-len(m)` or `i := len(m); i < 32`, 32 possibly spelled as a constant of pkg/vaa.
func c15padLoop(p *load.Program, init, cond, m string) bool {
	is32 := func(t string) bool {
		t = strings.TrimSpace(t)
		if t == "32" {
			return true
		}
		if o := p.ByPath[pkgVAA].Types.Scope().Lookup(t); o != nil {
			if k, ok := o.(*types.Const); ok {
				v, _ := constInt64(k.Val())
				return v == 32
			}
		}
		return false
	}
	cond = strings.TrimSpace(cond)
	if !strings.HasPrefix(cond, "i < ") {
		return false
	}
	bound := strings.TrimPrefix(cond, "i < ")
	bound = strings.TrimSuffix(strings.TrimPrefix(bound, "("), ")")
	switch init {
	case "i := 0":
		parts := strings.SplitN(bound, " - ", 2)
		return len(parts) == 2 && is32(parts[0]) && strings.TrimSpace(parts[1]) == "len("+m+")"
	case "i := len(" + m + ")":
		return is32(bound)
	}
	return false
}

// c15roundTrip: every use of narrowing conversion cv (other than the widening that feeds the
// round-trip comparison) is dominated by the fact widen(cv) == cv.X.
func c15roundTrip(cv *ssa.Convert) bool {
	if cv.Referrers() == nil {
		return false
	}
	isRT := func(f facts.Fact) bool {
		x, op, y, ok := cmpOf(f)
		if !ok || op != token.EQL {
			return false
		}
		for _, pr := range [][2]ssa.Value{{x, y}, {y, x}} {
			w, isCv := pr[0].(*ssa.Convert)
			if isCv && w.X == ssa.Value(cv) && (pr[1] == cv.X || facts.Term(pr[1]) == facts.Term(cv.X)) && types.Identical(w.Type(), cv.X.Type()) {
				return true
			}
		}
		return false
	}
	uses := 0
	for _, r := range *cv.Referrers() {
		if _, isDbg := r.(*ssa.DebugRef); isDbg {
			continue
		}
		if w, isCv := r.(*ssa.Convert); isCv && types.Identical(w.Type(), cv.X.Type()) {
			continue // the widening used by the comparison
		}
		uses++
		okUse := false
		for _, f := range facts.At(r, nil) {
			if isRT(f) {
				okUse = true
			}
		}
		if ph, isPhi := r.(*ssa.Phi); isPhi && !okUse {
			_ = ph
		}
		if !okUse {
			return false
		}
	}
	return uses > 0
}

// c15countedOver: the event is the body of `for i := 0; i < len(recv.X); i++` and writes
// recv.X[i] (or a slice/conversion of it); returns X.
func c15countedOver(e layout.Ev, recv string) string {
	m := regexp.MustCompile(`^(\w+) < len\(` + regexp.QuoteMeta(recv) + `\.(\w+)\)$`).FindStringSubmatch(e.LoopX)
	if m == nil || e.LoopInit != m[1]+" := 0" {
		return ""
	}
	if !strings.Contains(e.Field, recv+"."+m[2]+"["+m[1]+"]") {
		return ""
	}
	return m[2]
}
