package rules

import (
	"fmt"
	"go/constant"
	"go/token"
	"go/types"
	"strings"
	"wvsa/internal/load"

	"golang.org/x/tools/go/ssa"

	"wvsa/internal/facts"
)

const pkgSup = N + "supervisor"

func init() {
	register("C18", "The interleaving claim (never two instances at once, for every schedule) is NOT decided. Mechanism-conformance rules on pkg/supervisor SSA, each a necessary condition of the restart protocol: (state-writers) node.state is stored only in reset (NEW), signal (HEALTHY/DONE) and processDied (DEAD/CANCELED) with exactly those constants; (death-after-return) a `died` request is sent only after the runnable call returned, or from the deferred recover of that goroutine; (schedule-sources) `schedule` requests are created only by New (root), runGroup (fresh NEW children) and processGC (after reset); processSchedule is called only by the processor loop; (cancel-group) on processDied's unexpected-exit path the node's own cancel function and the cancel function of every other group sibling are called; (done-left-alone) the DONE-and-nil-error path returns without touching state; (restart-gate) a node is put into the restart set only under want ∧ ready ∧ (no parent ∨ parent context live), want only for DEAD/CANCELED, ready only for DONE/CANCELED/DEAD with all children ready, and reset+reschedule only for members of that set; (backoff) the reschedule goroutine sleeps before sending, with NextBackOff exactly when DEAD; (kill) on ctx.Done the processor cancels every node and returns without running the GC; (capture) with propagatePanic off, a deferred recover reports the panic as a death.", c18)
}

func c18(c *Ctx) {
	p, R := c.Node(), c.R
	R.Trust("go/types + go/ssa", "context cancellation and channel semantics", "a Runnable returns after its context is cancelled (cooperative)")
	loopVarRule(c, p, "C18.loopvar", pkgSup)
	R.Assumption("thread interleavings of the supervisor are not explored; rules check that the code implements the protocol's steps")
	m := func(recv, name string) *ssa.Function {
		return must(p.Method(pkgSup, recv, name), "supervisor.("+recv+")."+name)
	}
	reset, signal, died, gc, sched, kill, proc, runGroup := m("node", "reset"), m("node", "signal"), m("supervisor", "processDied"), m("supervisor", "processGC"), m("supervisor", "processSchedule"), m("supervisor", "processKill"), m("supervisor", "processor"), m("node", "runGroup")
	newFn := must(p.Func(pkgSup, "New"), "supervisor.New")
	stateF := must(p.FieldOf(pkgSup, "node", "state"), "node.state")
	scope := p.ByPath[pkgSup].Types.Scope()
	cv := func(name string) string {
		v, _ := constant.Int64Val(must(scope.Lookup(name), name).(*types.Const).Val())
		return fmt.Sprint(v)
	}
	NEW, HEALTHY, DEAD, DONE, CANCELED := cv("nodeStateNew"), cv("nodeStateHealthy"), cv("nodeStateDead"), cv("nodeStateDone"), cv("nodeStateCanceled")

	// ---- state-writers
	allowed := map[*ssa.Function][]string{reset: {NEW}, signal: {HEALTHY, DONE}, died: {DEAD, CANCELED}}
	n := 0
	for _, s := range storesToField(p, stateF) {
		st := s.Instr.(*ssa.Store)
		if isFreshAlloc(st.Addr) {
			continue
		}
		n++
		v := facts.Term(st.Val)
		ok := false
		for _, a := range allowed[s.Fn] {
			if a == v {
				ok = true
			}
		}
		if !ok {
			// the target state chosen first and stored once: every value it can take is allowed
			if leaves := phiLeaves(st.Val); len(leaves) > 1 {
				ok = true
				for _, lf := range leaves {
					in := false
					for _, a := range allowed[s.Fn] {
						if a == facts.Term(lf) {
							in = true
						}
					}
					if !in {
						ok = false
					}
				}
				if ok {
					n += len(leaves) - 1
				}
			}
		}
		R.Check("C18.state-writers", R.Key("C18.state-writers", shortFn(s.Fn), "store:state="+v), c.sitePos(p, s), "node.state = "+v+" in "+shortFn(s.Fn)+" is one of the protocol's transitions", ok, "unlisted writer or value")
		// an exit counts as a cancellation (no DEAD state, no cancellation of the group, no
		// back-off) only when the node's context really was cancelled
		if s.Fn == died && v == CANCELED {
			fs := facts.Atoms(facts.At(st, nil))
			okCtx := false
			for _, a := range fs {
				if strings.HasPrefix(a, "invoke:context.Context.Err(") && strings.HasSuffix(a, ".ctx) != nil") {
					okCtx = true
				}
			}
			R.Check("C18.cancel-group", R.Key("C18.cancel-group", shortFn(s.Fn), "canceled-needs-cancelled-context"), c.sitePos(p, s), "an exit is classified CANCELED only under the must-hold fact ctx.Err() != nil (a return on a live context is a death: group cancelled, back-off applied)", okCtx,
				"no fact ctx.Err() != nil: a service that returns nil (or an error equal to a nil ctx.Err()) on a live context is treated as cancelled — its siblings and children keep running and it restarts without back-off; facts: "+strings.Join(fs, ";"))
		}
	}
	R.Floor("C18.state-writers", n, 5)

	// ---- request allocation sites
	diedT := must(p.Named(pkgSup, "processorRequestDied"), "processorRequestDied")
	schedT := must(p.Named(pkgSup, "processorRequestSchedule"), "processorRequestSchedule")
	nd := 0
	// a report site is the allocation of the died request in the goroutine (or its deferred recover
	// closure), or — when the allocation lives in a local helper closure that neither runs the
	// service nor recovers — each call of that helper, with the helper's parameter bound to the
	// argument of the call
	type deathSite struct {
		fn   *ssa.Function
		at   ssa.Instruction
		errV ssa.Value
	}
	runnableF := must(p.FieldOf(pkgSup, "node", "runnable"), "node.runnable")
	ctxF := must(p.FieldOf(pkgSup, "node", "ctx"), "node.ctx")
	// the service call: a dynamic call of the `runnable` field of a node (whatever the node
	// variable is called)
	isRunnableCall := func(cl *ssa.Call) (node ssa.Value, ok bool) {
		if cl.Call.IsInvoke() || cl.Call.StaticCallee() != nil {
			return nil, false
		}
		ld, isLd := cl.Call.Value.(*ssa.UnOp)
		if !isLd || ld.Op != token.MUL {
			return nil, false
		}
		fa, isFA := ld.X.(*ssa.FieldAddr)
		if !isFA || fieldOfAddr(fa) != runnableF {
			return nil, false
		}
		return fa.X, true
	}
	runnableCall := func(f *ssa.Function) *ssa.Call {
		var run *ssa.Call
		eachInstr(f, func(i ssa.Instruction) {
			if cl, ok := i.(*ssa.Call); ok {
				if _, isRun := isRunnableCall(cl); isRun {
					run = cl
				}
			}
		})
		return run
	}
	callsRecover := func(f *ssa.Function) bool {
		r := false
		eachInstr(f, func(i ssa.Instruction) {
			if cl, ok := i.(*ssa.Call); ok && facts.CalleeName(&cl.Call) == "recover" {
				r = true
			}
		})
		return r
	}
	var allUnder func(f *ssa.Function) []*ssa.Function
	allUnder = func(f *ssa.Function) []*ssa.Function {
		out := []*ssa.Function{f}
		for _, a := range f.AnonFuncs {
			out = append(out, allUnder(a)...)
		}
		return out
	}
	var dsites []deathSite
	for _, s := range allocsOf(p, diedT) {
		vals, _ := allocStores(s.Instr.(*ssa.Alloc))
		errV := vals["err"]
		if top(s.Fn) == sched && s.Fn != sched && runnableCall(s.Fn) == nil && !callsRecover(s.Fn) {
			var calls []deathSite
			for _, g := range allUnder(sched) {
				eachInstr(g, func(i ssa.Instruction) {
					ci, ok := i.(ssa.CallInstruction)
					if !ok {
						return
					}
					mc, ok := resolveSpill(ci.Common().Value).(*ssa.MakeClosure)
					if !ok || mc.Fn != ssa.Value(s.Fn) {
						return
					}
					ev := errV
					if prm, isP := errV.(*ssa.Parameter); isP {
						for k, q := range s.Fn.Params {
							if q == prm && k < len(ci.Common().Args) {
								ev = ci.Common().Args[k]
							}
						}
					}
					calls = append(calls, deathSite{g, i, ev})
				})
			}
			if len(calls) > 0 {
				dsites = append(dsites, calls...)
				continue
			}
		}
		dsites = append(dsites, deathSite{s.Fn, s.Instr, errV})
	}
	for _, s := range dsites {
		nd++
		okFn := top(s.fn) == sched && s.fn != sched
		reason := ""
		if _, isCall := s.at.(*ssa.Call); !isCall {
			if _, isAlloc := s.at.(*ssa.Alloc); !isAlloc {
				okFn, reason = false, "death reported through a deferred or spawned helper call (not decided)"
			}
		}
		if okFn {
			// either the goroutine body after the runnable call, or the deferred recover closure
			if run := runnableCall(s.fn); run != nil {
				okFn = facts.Before(s.at, func(i ssa.Instruction) bool { return i == run })
				reason = "the report is not preceded by the runnable call on every path"
				if okFn && termOrNil(s.errV) != facts.Term(run) {
					okFn, reason = false, "reported error is not the runnable's result: "+termOrNil(s.errV)
				}
			} else {
				// recover closure: must be under rec != nil and be a deferred closure of the goroutine
				fs := facts.Atoms(facts.At(s.at, nil))
				okFn = false
				for _, a := range fs {
					if a == "recover() != nil" || a == "nil != recover()" {
						okFn = true
					}
				}
				reason = "death reported from a closure without a recovered panic: " + strings.Join(fs, ";")
			}
		} else if reason == "" {
			reason = "died request created outside processSchedule's goroutine"
		}
		R.Check("C18.death-after-return", R.Key("C18.death-after-return", shortFn(s.fn), "alloc:processorRequestDied"), c.rel(p.Pos(instrPos(s.at))), "a death is recorded only after the service function returned (or panicked)", okFn, reason)
	}
	R.Floor("C18.death-after-return", nd, 2)
	ns := 0
	for _, s := range allocsOf(p, schedT) {
		ns++
		t := top(s.Fn)
		ok := t == newFn || t == runGroup || t == gc
		R.Check("C18.schedule-sources", R.Key("C18.schedule-sources", shortFn(s.Fn), "alloc:processorRequestSchedule"), c.sitePos(p, s), "schedule requests come only from New (root), runGroup (fresh children) and processGC (after reset)", ok, "created in "+fname(s.Fn))
	}
	R.Floor("C18.schedule-sources", ns, 3)
	// runGroup schedules exactly the nodes it has just created: the dn of every schedule request
	// it sends is the dn() of a node returned by newNode in the same call (scheduling a child that
	// an earlier Run/RunGroup call of the same parent already started runs that service twice)
	nfresh := 0
	for _, s := range allocsOf(p, schedT) {
		if top(s.Fn) != runGroup {
			continue
		}
		nfresh++
		vals, _ := allocStores(s.Instr.(*ssa.Alloc))
		bad := c18dnNotFresh(p, vals["dn"])
		R.Check("C18.schedule-sources", R.Key("C18.schedule-sources", shortFn(s.Fn), "fresh-children-only"), c.sitePos(p, s), "runGroup schedules only the nodes created by this call", vals["dn"] != nil && bad == "", bad)
	}
	R.Floor("C18.schedule-sources.fresh", nfresh, 1)
	for _, callee := range []*ssa.Function{sched, died, gc, kill} {
		for _, s := range callsTo(p, callee) {
			_, isGo := s.Instr.(*ssa.Go)
			R.Check("C18.schedule-sources", R.Key("C18.schedule-sources", shortFn(s.Fn), "call:"+callee.Name()), c.sitePos(p, s), callee.Name()+" is called only from the processor loop (serialised)", s.Fn == proc && !isGo, "called from "+fname(s.Fn))
		}
	}
	// runGroup creates children only on a NEW parent
	for _, s := range callsTo(p, must(p.Func(pkgSup, "newNode"), "newNode")) {
		if s.Fn != runGroup {
			continue
		}
		fs := facts.Atoms(facts.At(s.Instr, nil))
		ok := false
		for _, a := range fs {
			if a == NEW+" == n.state" || a == "n.state == "+NEW {
				ok = true
			}
		}
		R.Check("C18.schedule-sources", R.Key("C18.schedule-sources", shortFn(s.Fn), "call:newNode"), c.sitePos(p, s), "children are created only while the parent is NEW (i.e. by its currently starting instance)", ok, strings.Join(fs, ";"))
	}
	// processSchedule starts the runnable with the node's current context
	okRun := false
	for _, f := range allUnder(sched) {
		eachInstr(f, func(i ssa.Instruction) {
			cl, ok := i.(*ssa.Call)
			if !ok {
				return
			}
			nodeV, isRun := isRunnableCall(cl)
			if !isRun || len(cl.Call.Args) != 1 {
				return
			}
			// the argument is the ctx field of the same node
			if ld, isLd := cl.Call.Args[0].(*ssa.UnOp); isLd && ld.Op == token.MUL {
				if fa, isFA := ld.X.(*ssa.FieldAddr); isFA && fieldOfAddr(fa) == ctxF && (fa.X == nodeV || facts.Term(fa.X) == facts.Term(nodeV)) {
					okRun = true
				}
			}
		})
	}
	R.Check("C18.death-after-return", "C18.death-after-return/runs-with-node-context", c.rel(p.Pos(sched.Pos())), "the service is started as n.runnable(n.ctx)", okRun, "call shape changed")

	// ---- capture
	okCap := false
	for _, f := range sched.AnonFuncs {
		eachInstr(f, func(i ssa.Instruction) {
			if d, ok := i.(*ssa.Defer); ok {
				if _, isMC := d.Call.Value.(*ssa.MakeClosure); isMC {
					fs := facts.Atoms(facts.At(d, nil))
					for _, a := range fs {
						if a == "!s.propagatePanic" {
							okCap = true
						}
					}
				}
			}
		})
	}
	R.Check("C18.capture", "C18.capture/deferred-recover", c.rel(p.Pos(sched.Pos())), "when panics are not propagated a deferred recover is installed before the service runs", okCap, "deferred recover not found under !propagatePanic")

	// ---- cancel-group + done-left-alone in processDied
	var deadStore *ssa.Store
	eachInstr(died, func(i ssa.Instruction) {
		if st, ok := i.(*ssa.Store); ok && fieldOfAddr(st.Addr) == stateF && facts.Term(st.Val) == DEAD {
			deadStore = st
		}
	})
	nT := "(*N/supervisor.supervisor).nodeByDN(s,r.dn)"
	if deadStore == nil {
		R.Fail("C18.cancel-group", "C18.cancel-group/dead-store", c.rel(p.Pos(died.Pos())), "DEAD transition", "store of nodeStateDead not found")
	} else {
		ok, _ := facts.MustPassAfter(deadStore, func(i ssa.Instruction) bool {
			cl, ok := i.(*ssa.Call)
			return ok && facts.Term(cl) == "dyn:"+nT+".ctxC()"
		})
		R.Check("C18.cancel-group", "C18.cancel-group/own-context", c.rel(p.Pos(deadStore.Pos())), "after marking a node DEAD its own context is cancelled on every path", ok, "a return is reachable without n.ctxC()")
		// sibling loop
		okSib, okSkip, okGuard := false, false, false
		extra := ""
		eachInstr(died, func(i ssa.Instruction) {
			cl, ok := i.(*ssa.Call)
			if !ok {
				return
			}
			t := facts.Term(cl)
			if strings.HasPrefix(t, "dyn:"+nT+".parent.children[") && strings.HasSuffix(t, "].ctxC()") {
				okSib = strings.Contains(t, "next(range((*N/supervisor.node).groupSiblings("+nT+".parent,"+nT+".name)))#1")
				for _, a := range facts.Atoms(facts.At(cl, nil)) {
					if strings.HasSuffix(a, "#1 != "+nT+".name") || strings.HasPrefix(a, nT+".name != ") {
						okSkip = true
					}
					if a == nT+".parent != nil" {
						okGuard = true
					}
					// no other condition may stand between a sibling and its cancellation
					allowedFact := strings.HasSuffix(a, "#1 != "+nT+".name") || strings.HasPrefix(a, nT+".name != ") || a == nT+".parent != nil" ||
						strings.HasPrefix(a, "next(range((*N/supervisor.node).groupSiblings(") || strings.HasPrefix(a, "errors.Unwrap(") ||
						strings.Contains(a, "invoke:context.Context.Err(") || strings.Contains(a, ".state") || strings.Contains(a, "r.err")
					if !allowedFact {
						extra = a
					}
				}
			}
		})
		// the sibling loop is reached on every path after the DEAD store unless parent == nil
		R.Check("C18.cancel-group", "C18.cancel-group/siblings", c.rel(p.Pos(deadStore.Pos())), "every other member of the dead node's group (groupSiblings(n.name)) is cancelled", okSib && okSkip && okGuard && extra == "", fmt.Sprintf("sibling cancel over group=%v skips self=%v parent guarded=%v extra condition=%q", okSib, okSkip, okGuard, extra))
		// the loop ends only when the group is exhausted
		for _, r := range allReturns(died) {
			if !facts.Before(r, func(i ssa.Instruction) bool { return i == ssa.Instruction(deadStore) }) {
				continue
			}
			es, _ := edgesWhere(died, func(a string) bool {
				return a == nT+".parent == nil" || strings.HasPrefix(a, "!next(range((*N/supervisor.node).groupSiblings(")
			})
			R.Check("C18.cancel-group", R.Key("C18.cancel-group", shortFn(died), "return-after-dead"), c.rel(p.Pos(instrPos(r))), "after a death processDied returns only when there is no parent or the whole sibling group was visited", len(es) >= 2 && facts.PassesAny(r.Block(), nil, es...), "a return is reachable from inside the sibling loop")
		}
		okLoop, _ := facts.MustPassAfter(deadStore, func(i ssa.Instruction) bool {
			if iff, ok := i.(*ssa.If); ok {
				return facts.Atom(iff.Cond, true) == nT+".parent != nil" || facts.Atom(iff.Cond, true) == nT+".parent == nil"
			}
			return false
		})
		R.Check("C18.cancel-group", "C18.cancel-group/reached", c.rel(p.Pos(deadStore.Pos())), "the sibling cancellation is reached on every path after the DEAD transition", okLoop, "early return before the sibling loop")
	}
	for _, r := range allReturns(died) {
		fs := facts.Atoms(acceptFacts(r))
		isDone := false
		for _, a := range fs {
			if a == DONE+" == "+nT+".state" || a == nT+".state == "+DONE {
				isDone = true
			}
		}
		if !isDone {
			continue
		}
		touched := facts.Before(r, func(i ssa.Instruction) bool {
			st, ok := i.(*ssa.Store)
			return ok && fieldOfAddr(st.Addr) == stateF
		})
		hasErrNil := false
		for _, a := range fs {
			if a == "r.err == nil" {
				hasErrNil = true
			}
		}
		R.Check("C18.done-left-alone", R.Key("C18.done-left-alone", shortFn(died), "return:done"), c.rel(p.Pos(instrPos(r))), "a service that signalled DONE and returned nil is left alone (no state change, no cancellation)", !touched && hasErrNil, strings.Join(fs, ";"))
	}

	// ---- restart-gate in processGC
	// the maps of the scan are identified by role, not by name: the restart set is the map ranged
	// over by the loop that resets nodes; the readiness table is the map that receives a computed
	// (non-constant) boolean
	var canMap, readyMap ssa.Value
	for _, s := range callsTo(p, reset) {
		if s.Fn == gc {
			if m := c18rangedMap(s.Instr.(ssa.CallInstruction).Common().Args[0], 0); m != nil {
				canMap = m
			}
		}
	}
	eachInstr(gc, func(i ssa.Instruction) {
		if mu, ok := i.(*ssa.MapUpdate); ok {
			if _, isConst := mu.Value.(*ssa.Const); !isConst && isBoolType(mu.Value.Type()) {
				readyMap = mu.Map
			}
		}
	})
	readyPfx := "\x00"
	if readyMap != nil {
		readyPfx = facts.Term(readyMap) + "[(*N/supervisor.node).dn("
	}
	isRestartState := func(a string) bool {
		for _, st := range []string{DEAD, CANCELED} {
			if strings.HasPrefix(a, st+" == ") && strings.HasSuffix(a, ".state") || strings.HasSuffix(a, ".state == "+st) {
				return true
			}
		}
		return false
	}
	isLive := func(a string) bool {
		return strings.HasSuffix(a, ".parent == nil") || strings.HasPrefix(a, "invoke:context.Context.Err(") && strings.HasSuffix(a, ".parent.ctx) == nil")
	}
	// a must-hold fact all of whose ways to be true contain an atom of the given kind
	everyWay := func(fs []facts.Fact, kind func(string) bool) bool {
		for _, f := range fs {
			djs := facts.DNF(f.Cond, f.Pol)
			if len(djs) == 0 {
				continue
			}
			all := true
			for _, conj := range djs {
				has := false
				for _, x := range conj {
					if kind(x.Atom) {
						has = true
					}
				}
				if !has {
					all = false
				}
			}
			if all {
				return true
			}
		}
		return false
	}
	ngate := 0
	wantMaps := map[string]bool{}
	eachInstr(gc, func(i ssa.Instruction) {
		mu, ok := i.(*ssa.MapUpdate)
		if !ok || canMap == nil || mu.Map != canMap {
			return
		}
		ngate++
		ffs := facts.At(mu, nil)
		fs := facts.Atoms(ffs)
		want, ready := false, false
		for _, a := range fs {
			// wanted: membership in a set that only takes DEAD/CANCELED nodes (checked below) …
			if strings.HasPrefix(a, "map:") && strings.Contains(a, "[(*N/supervisor.node).dn(") && !strings.HasPrefix(a, readyPfx) {
				wantMaps[strings.TrimPrefix(a[:strings.Index(a, "[")], "map:")] = true
				want = true
			}
			if strings.HasPrefix(a, readyPfx) {
				ready = true
			}
		}
		// … or the state test itself on the way to the insertion
		if !want && everyWay(ffs, isRestartState) {
			want = true
		}
		es, ds := edgesWhere(gc, isLive)
		live := len(es) >= 2 && facts.PassesAny(mu.Block(), nil, es...) || everyWay(ffs, isLive)
		R.Check("C18.restart-gate", R.Key("C18.restart-gate", shortFn(gc), "mapupdate:can"), c.rel(p.Pos(mu.Pos())), "a node enters the restart set only if it is wanted, its whole subtree is ready, and it has no parent or the parent's context is live", want && ready && live, fmt.Sprintf("want=%v ready=%v parent-live edges=%v facts=%v", want, ready, ds, fs))
	})
	R.Floor("C18.restart-gate", ngate, 1)
	// want only for DEAD/CANCELED; ready only for DONE/CANCELED/DEAD: check via the If conditions that dominate the constant stores
	for w := range wantMaps {
		c18mapGate(c, gc, w, []string{DEAD, CANCELED})
	}
	// states that a node can take while its runnable is still executing (set by the runnable's own
	// Signal call rather than by processDied after the goroutine returned)
	early := map[string]bool{}
	for _, s := range storesToField(p, stateF) {
		st := s.Instr.(*ssa.Store)
		if isFreshAlloc(st.Addr) || s.Fn == died || s.Fn == reset {
			continue
		}
		early[facts.Term(st.Val)] = true
	}
	c18ready(c, gc, readyMap, []string{DONE, CANCELED, DEAD}, early)
	// reset() is called only on nodes of `can`
	for _, s := range callsTo(p, reset) {
		if s.Fn == gc {
			arg := facts.Term(s.Instr.(ssa.CallInstruction).Common().Args[0])
			ok := strings.HasPrefix(arg, "(*N/supervisor.supervisor).nodeByDN(s,next(range(")
			R.Check("C18.restart-gate", R.Key("C18.restart-gate", shortFn(gc), "call:reset"), c.sitePos(p, s), "reset is applied only to nodes taken from the restart set", ok, "receiver = "+arg)
		} else {
			R.Check("C18.restart-gate", R.Key("C18.restart-gate", shortFn(s.Fn), "call:reset"), c.sitePos(p, s), "reset outside the GC happens only when a node is created", fname(s.Fn) == "N/supervisor.newNode", "called from "+fname(s.Fn))
		}
	}

	// ---- backoff
	okSleep, okBo := false, false
	okAlways, whyAlways := false, "no reschedule goroutine with a schedule request found"
	for _, f := range gc.AnonFuncs {
		var send ssa.Instruction
		for _, sd := range sendsIn(f) {
			send = sd.Instr
		}
		if send != nil {
			// every way out of the goroutine has sent the schedule request: a reset node that is
			// never scheduled stays NEW forever and blocks the restart of its parent's subtree
			okAlways, whyAlways = true, ""
			eachInstr(f, func(i ssa.Instruction) {
				if r, ok := i.(*ssa.Return); ok {
					if !facts.Before(r, func(j ssa.Instruction) bool { return j == send }) {
						okAlways, whyAlways = false, "a return of the reschedule goroutine at "+c.rel(p.Pos(instrPos(r)))+" is reachable without sending the schedule request"
					}
				}
			})
			isTimerChan := func(v ssa.Value) bool {
				t := facts.Term(v)
				return strings.HasPrefix(t, "time.After(bo)") || strings.HasPrefix(t, "time.NewTimer(bo)") && strings.HasSuffix(t, ".C")
			}
			sendFacts := facts.At(send, nil)
			okSleep = facts.Before(send, func(i ssa.Instruction) bool {
				switch x := i.(type) {
				case *ssa.Call:
					return facts.CalleeName(&x.Call) == "time.Sleep" && facts.Term(x.Call.Args[0]) == "bo"
				case *ssa.UnOp:
					// <-time.After(bo)
					return x.Op == token.ARROW && isTimerChan(x.X)
				case *ssa.Select:
					// select { case <-time.After(bo): … }: the send must lie on the timer case
					for k, st := range x.States {
						if st.Dir == types.RecvOnly && isTimerChan(st.Chan) && x.Blocking {
							if facts.HasAtom(sendFacts, fmt.Sprintf("%d == %s#0", k, facts.Term(x))) {
								return true
							}
						}
					}
				}
				return false
			})
		}
	}
	eachInstr(gc, func(i ssa.Instruction) {
		if ph, ok := i.(*ssa.Phi); ok && facts.LocalName(ph.Parent(), ph.Comment) == "bo" {
			good := true
			for k, e := range ph.Edges {
				pred := ph.Block().Preds[k]
				ei := 0
				for j, sc := range pred.Succs {
					if sc == ph.Block() {
						ei = j
					}
				}
				ef := facts.Atoms(facts.AtEdge(pred, ei, nil))
				isDead := false
				for _, a := range ef {
					if strings.HasPrefix(a, DEAD+" == ") && strings.HasSuffix(a, ".state") || strings.HasSuffix(a, ".state == "+DEAD) {
						isDead = true
					}
				}
				if k0, isK := constInt(e); isK && k0 == 0 {
					if isDead {
						good = false
					}
				} else if !strings.Contains(facts.Term(e), "NextBackOff") || !isDead {
					good = false
				}
			}
			okBo = good
		}
	})
	// the same variable when it is captured by the reschedule closure (a cell, not a phi)
	eachInstr(gc, func(i ssa.Instruction) {
		al, ok := i.(*ssa.Alloc)
		if !ok || facts.LocalName(al.Parent(), al.Comment) != "bo" || al.Referrers() == nil {
			return
		}
		good, n := true, 0
		for _, r := range *al.Referrers() {
			st, isStore := r.(*ssa.Store)
			if !isStore || st.Addr != ssa.Value(al) {
				continue
			}
			n++
			isDead := false
			for _, a := range facts.Atoms(facts.At(st, nil)) {
				if strings.HasPrefix(a, DEAD+" == ") && strings.HasSuffix(a, ".state") || strings.HasSuffix(a, ".state == "+DEAD) {
					isDead = true
				}
			}
			if k0, isK := constInt(st.Val); isK && k0 == 0 {
				if isDead {
					good = false
				}
			} else if !strings.Contains(facts.Term(st.Val), "NextBackOff") || !isDead {
				good = false
			}
		}
		if n >= 2 {
			okBo = good
		}
	})
	R.Check("C18.backoff", "C18.backoff/always-scheduled", c.rel(p.Pos(gc.Pos())), "a node that was reset for restart is always scheduled again (the goroutine cannot end without sending the request)", okAlways, whyAlways)
	R.Check("C18.backoff", "C18.backoff/sleep-before-schedule", c.rel(p.Pos(gc.Pos())), "the reschedule goroutine sleeps for the back-off before it sends the schedule request", okSleep, "no time.Sleep(bo) before the send")
	R.Check("C18.backoff", "C18.backoff/dead-backs-off", c.rel(p.Pos(gc.Pos())), "the back-off is NextBackOff() exactly when the node is DEAD (cancelled nodes restart immediately)", okBo, "back-off selection changed")

	// ---- kill
	okKill := false
	for _, s := range callsTo(p, kill) {
		// after processKill the processor returns: no processGC reachable
		okRet, _ := facts.MustPassAfter(s.Instr, func(i ssa.Instruction) bool { _, isRet := i.(*ssa.Return); return isRet })
		noGC := !reachesCall(s.Instr, gc)
		fs := facts.Atoms(facts.At(s.Instr, nil))
		isDoneCase := false
		for _, a := range fs {
			if a == "0 == select#0" {
				isDoneCase = true
			}
		}
		okKill = okRet && noGC && isDoneCase
	}
	// every death and every schedule request makes the next tick run the restart scan: after
	// processDied / processSchedule the "clean" flag is cleared on every path (an exit that leaves
	// the scan clean — say the expected return of a DONE service — can be the very event that makes
	// its parent's subtree restartable, and nothing else would trigger the scan)
	for _, callee := range []*ssa.Function{died, must(p.Method(pkgSup, "supervisor", "processSchedule"), "processSchedule")} {
		for _, s := range callsTo(p, callee) {
			if s.Fn != proc {
				continue
			}
			okDirty := c18dirtyOnEveryPath(s.Instr, gc)
			R.Check("C18.restart-gate", R.Key("C18.restart-gate", shortFn(proc), "dirty-after:"+callee.Name()), c.sitePos(p, s), "after "+callee.Name()+" the restart scan is always marked dirty", okDirty, "a path returns to the processor's select without marking the scan dirty: the exit that makes a subtree restartable may never be acted on")
		}
	}
	R.Check("C18.kill", "C18.kill/processor", c.rel(p.Pos(proc.Pos())), "on cancellation of the supervisor's context the processor cancels all nodes and returns without running the restart scan", okKill, "shape changed")
	// processKill cancels every node: collects ctxC of each visited node and calls each
	okAll := false
	eachInstr(kill, func(i ssa.Instruction) {
		if cl, ok := i.(*ssa.Call); ok && strings.HasPrefix(facts.Term(cl), "dyn:phi:cancels[") {
			okAll = true
		}
	})
	// the same walk with the nodes themselves on the work list: every element's ctxC is called
	var cancelCall *ssa.Call
	eachInstr(kill, func(i ssa.Instruction) {
		cl, ok := i.(*ssa.Call)
		if !ok || cl.Call.IsInvoke() || cl.Call.StaticCallee() != nil {
			return
		}
		if ld, isLd := cl.Call.Value.(*ssa.UnOp); isLd && ld.Op == token.MUL {
			if fa, isFA := ld.X.(*ssa.FieldAddr); isFA && fieldOfAddr(fa).Name() == "ctxC" {
				cancelCall = cl
			}
		}
	})
	formB := false
	if cancelCall != nil {
		okAll = true
		for _, l := range facts.LoopsOf(kill) {
			if !l.Body()[cancelCall.Block()] {
				continue
			}
			cuts := facts.Cuts{}
			for _, lt := range l.Latches {
				for k, sc := range lt.Succs {
					if sc == l.Header {
						cuts[facts.Edge{B: lt.Index, K: k}] = true
					}
				}
			}
			for _, lt := range l.Latches {
				if !facts.BeforeFrom(l.Header, lt.Instrs[len(lt.Instrs)-1], cuts, func(i ssa.Instruction) bool { return i == ssa.Instruction(cancelCall) }) {
					okAll = false
				}
			}
			formB = true
		}
		okAll = okAll && formB
	}
	_ = formB
	R.Check("C18.kill", "C18.kill/processKill", c.rel(p.Pos(kill.Pos())), "processKill calls every collected cancel function", okAll, "cancel loop not found")
	// … and collects the cancel function of EVERY node it dequeues and enqueues all its children:
	// no iteration of the walk may skip that (a DONE node's context is still live; skipping it, or
	// its subtree, leaves services running after the supervisor's context was cancelled)
	ctxCF := must(p.FieldOf(pkgSup, "node", "ctxC"), "node.ctxC")
	var collect ssa.Instruction
	eachInstr(kill, func(i ssa.Instruction) {
		if cl, ok := i.(*ssa.Call); ok && facts.CalleeName(&cl.Call) == "append" && len(cl.Call.Args) == 2 {
			if el := singleVararg(cl.Call.Args[1]); el != nil && loadedField(strip(el)) == ctxCF {
				collect = cl
			}
		}
	})
	okEvery, whyEvery := false, "no `cancels = append(cancels, cur.ctxC)` found"
	if collect == nil && formB {
		// work list of nodes: every append inside a loop of the walk happens on every iteration of
		// its innermost loop, and no branch of the walk looks at a node's state
		okEvery, whyEvery = true, ""
		napp := 0
		eachInstr(kill, func(i ssa.Instruction) {
			if iff, ok := i.(*ssa.If); ok {
				for _, pol := range []bool{true, false} {
					if strings.Contains(facts.Atom(iff.Cond, pol), ".state") {
						okEvery, whyEvery = false, "the walk branches on a node's state at "+c.rel(p.Pos(instrPos(iff)))
					}
				}
			}
			cl, ok := i.(*ssa.Call)
			if !ok || facts.CalleeName(&cl.Call) != "append" {
				return
			}
			var inner *facts.Loop
			for _, l := range facts.LoopsOf(kill) {
				l := l
				if l.Body()[cl.Block()] && (inner == nil || inner.Body()[l.Header]) {
					inner = &l
				}
			}
			if inner == nil {
				return
			}
			napp++
			cuts := facts.Cuts{}
			for _, lt := range inner.Latches {
				for k, sc := range lt.Succs {
					if sc == inner.Header {
						cuts[facts.Edge{B: lt.Index, K: k}] = true
					}
				}
			}
			for _, lt := range inner.Latches {
				last := lt.Instrs[len(lt.Instrs)-1]
				if !facts.BeforeFrom(inner.Header, last, cuts, func(j ssa.Instruction) bool { return j == ssa.Instruction(cl) }) {
					okEvery, whyEvery = false, "an iteration of the walk can skip adding a child to the work list at "+c.rel(p.Pos(cl.Pos()))
				}
			}
		})
		if napp == 0 {
			okEvery, whyEvery = false, "no child is ever added to the work list"
		}
	}
	if collect != nil {
		for _, l := range facts.LoopsOf(kill) {
			if !l.Body()[collect.Block()] {
				continue
			}
			okEvery, whyEvery = true, ""
			cuts := facts.Cuts{}
			for _, lt := range l.Latches {
				for k, sc := range lt.Succs {
					if sc == l.Header {
						cuts[facts.Edge{B: lt.Index, K: k}] = true
					}
				}
			}
			for _, lt := range l.Latches {
				last := lt.Instrs[len(lt.Instrs)-1]
				if !facts.BeforeFrom(l.Header, last, cuts, func(i ssa.Instruction) bool { return i == collect }) {
					okEvery, whyEvery = false, "an iteration of the walk can reach the loop's back edge at "+c.rel(p.Pos(instrPos(last)))+" without collecting the dequeued node's cancel function"
				}
			}
			break
		}
	}
	R.Check("C18.kill", "C18.kill/processKill/every-node", c.rel(p.Pos(kill.Pos())), "every node dequeued by processKill has its cancel function collected (no state-dependent skip)", okEvery, whyEvery)
}

func allReturns(fn *ssa.Function) []*ssa.Return {
	var out []*ssa.Return
	eachInstr(fn, func(i ssa.Instruction) {
		if r, ok := i.(*ssa.Return); ok && r.Block().Comment != "recover" {
			out = append(out, r)
		}
	})
	return out
}

func isMapNamed(v ssa.Value, name string) bool {
	if mm, ok := v.(*ssa.MakeMap); ok && mm.Referrers() != nil {
		for _, r := range *mm.Referrers() {
			if d, ok := r.(*ssa.DebugRef); ok {
				_ = d
			}
		}
	}
	return strings.Contains(facts.Term(v), name)
}

// reachesCall: a call to fn is reachable after instr.
func reachesCall(instr ssa.Instruction, fn *ssa.Function) bool {
	found := false
	ok, _ := facts.MustPassAfter(instr, func(i ssa.Instruction) bool {
		if cl, isC := i.(ssa.CallInstruction); isC && cl.Common().StaticCallee() == fn {
			found = true
		}
		return false
	})
	_ = ok
	return found
}

// c18mapGate: every `m[...] = true` on the named local map is dominated by a state test against one of the listed constants.
// c18ready: `ready[n]` may become true only when n itself is DONE/CANCELED/DEAD and `ready` is true
// for every child of n (the recursive definition that makes "ready" a statement about the whole
// subtree: a grandchild still running keeps its ancestors from being reset and started again).
// The value stored is expanded into the disjunction of control paths that make it true; every
// disjunct must (a) carry a state fact of the accepted set and (b) leave a loop over n.children by
// exhaustion, where every completed iteration of that loop has the fact ready[child.dn()].
func c18ready(c *Ctx, fn *ssa.Function, readyMap ssa.Value, states []string, early map[string]bool) {
	readyPfx := "\x00"
	if readyMap != nil {
		readyPfx = facts.Term(readyMap) + "[(*N/supervisor.node).dn("
	}
	p, R := c.Node(), c.R
	loops := facts.LoopsOf(fn)
	n := 0
	eachInstr(fn, func(i ssa.Instruction) {
		mu, ok := i.(*ssa.MapUpdate)
		if !ok || readyMap == nil || mu.Map != readyMap {
			return
		}
		n++
		var bad []string
		disj := facts.DNF(mu.Value, true)
		if len(disj) == 0 {
			bad = append(bad, "stored value can never be true")
		}
		for k, conj := range disj {
			okState, okKids := false, false
			earlyState, notRunning := "", false
			for _, f := range conj {
				a := f.Atom
				for _, st := range states {
					if strings.HasPrefix(a, st+" == ") && strings.HasSuffix(a, ".state") || strings.HasSuffix(a, ".state == "+st) {
						okState = true
						if early[st] {
							earlyState = st
						}
					}
				}
				if strings.HasPrefix(a, "!") && strings.HasSuffix(a, ".running") {
					notRunning = true
				}
				// the state test factored into a predicate method that is true only for those states
				if cl, isCall := f.Cond.(*ssa.Call); isCall && f.Pol {
					if callee := cl.Call.StaticCallee(); callee != nil && c18statePred(callee, states, 0) {
						okState = true
					}
				}
			}
			// (b) some fact of the disjunct is the exhaustion exit of a loop over .children whose
			// iterations all established ready[child]
			for _, f := range conj {
				if f.If == nil {
					continue
				}
				for _, l := range loops {
					if l.Header != f.If {
						continue
					}
					iter := facts.Atoms(l.IterationFacts(nil))
					for _, a := range iter {
						if strings.HasPrefix(a, readyPfx) && strings.Contains(a, ".children") {
							okKids = true
						}
					}
				}
			}
			// (b') … or a flag that starts true before a loop over .children and is cleared by
			// every iteration that finds a child not ready
			for _, f := range conj {
				ph, isPhi := f.Cond.(*ssa.Phi)
				if !isPhi || !f.Pol {
					continue
				}
				if it, ok := facts.AccumulatorFacts(ph, true); ok {
					for _, a := range facts.Atoms(it) {
						if strings.HasPrefix(a, readyPfx) && strings.Contains(a, ".children") {
							okKids = true
						}
					}
				}
			}
			if !okState {
				bad = append(bad, fmt.Sprintf("way %d to true has no DONE/CANCELED/DEAD state fact: %s", k, facts.Join(conj)))
			}
			if earlyState != "" && !notRunning {
				bad = append(bad, fmt.Sprintf("way %d to true accepts state %s, which the runnable sets itself while it is still executing (Signal), without the fact that its goroutine has returned: the subtree is reset and started again while the old instance of this service is still running (two instances at once; its late exit is then booked on the new node)", k, earlyState))
			}
			if !okKids {
				bad = append(bad, fmt.Sprintf("way %d to true does not require ready[child] for every child (only the direct children's own state, or nothing, is consulted): %s", k, facts.Join(conj)))
			}
		}
		R.Check("C18.restart-gate", R.Key("C18.restart-gate", shortFn(fn), "mapupdate:ready"), c.rel(p.Pos(mu.Pos())), "a node is ready only if it is DONE/CANCELED/DEAD and every child is ready (recursively: no descendant is still running)", len(bad) == 0, strings.Join(bad, "; "))
	})
	R.Floor("C18.restart-gate.ready", n, 1)
	// the bottom-up scan keeps going towards the root after EVERY decision, restartable or not: a
	// parent that is reached through one child waits ("push back and retry") until all its
	// children have been decided; if an undecided child's subtree stops propagating because it
	// is not restartable, that wait never ends and the scan — which holds the supervisor's lock —
	// never returns
	np := 0
	eachInstr(fn, func(i ssa.Instruction) {
		mu, ok := i.(*ssa.MapUpdate)
		if !ok || readyMap == nil || mu.Map != readyMap {
			return
		}
		var loop *facts.Loop
		for _, l := range loops {
			l := l
			if l.Body()[mu.Block()] && (loop == nil || loop.Body()[l.Header]) {
				loop = &l
			}
		}
		if loop == nil {
			return
		}
		np++
		skip, _ := edgesWhere(fn, func(a string) bool {
			return strings.HasSuffix(a, ".parent == nil") || strings.HasPrefix(a, "map:") && strings.Contains(a, ".parent)]") && !strings.HasPrefix(a, "!")
		})
		cuts := facts.Cuts{}
		for _, e := range skip {
			cuts[e] = true
		}
		for _, lt := range loop.Latches {
			for k, sc := range lt.Succs {
				if sc == loop.Header && lt != mu.Block() {
					_ = k
				}
			}
		}
		isUp := func(j ssa.Instruction) bool {
			cl, ok := j.(*ssa.Call)
			if !ok {
				return false
			}
			b, isB := cl.Call.Value.(*ssa.Builtin)
			if !isB || b.Name() != "append" || len(cl.Call.Args) != 2 {
				return false
			}
			return strings.Contains(facts.Term(cl.Call.Args[1]), ".parent")
		}
		okAll := true
		for _, lt := range loop.Latches {
			// only latches reachable from the decision
			if !mu.Block().Dominates(lt) && mu.Block() != lt {
				continue
			}
			// a back edge that is itself one of the permitted skips needs no enqueue
			viaSkipOnly := true
			for k, sc := range lt.Succs {
				if sc == loop.Header && !cuts[facts.Edge{B: lt.Index, K: k}] {
					viaSkipOnly = false
				}
			}
			if viaSkipOnly {
				continue
			}
			if !facts.BeforeFrom(mu.Block(), lt.Instrs[len(lt.Instrs)-1], cuts, isUp) {
				okAll = false
			}
		}
		R.Check("C18.restart-gate", R.Key("C18.restart-gate", shortFn(fn), "propagates-upward"), c.rel(p.Pos(mu.Pos())), "after a node's readiness is decided its parent is enqueued unless there is none or it is already decided — whatever the decision was", okAll, "a path from the decision to the next iteration skips the parent for another reason (e.g. because the node is not ready): a parent waiting for this child's decision is retried forever")
	})
	R.Floor("C18.restart-gate.propagation", np, 1)
}

// c18statePred: fn returns a bool that is true only when a value derived from its receiver equals
// one of the given state constants (directly, or through another such predicate).
func c18statePred(fn *ssa.Function, states []string, depth int) bool {
	if fn == nil || len(fn.Blocks) == 0 || depth > 3 || fn.Signature.Results().Len() != 1 {
		return false
	}
	isState := func(a string) bool {
		for _, st := range states {
			if strings.HasPrefix(a, st+" == ") || strings.HasSuffix(a, " == "+st) {
				return true
			}
		}
		return false
	}
	stateEdges, _ := edgesWhere(fn, isState)
	guarded := func(b *ssa.BasicBlock, fs []facts.Fact) bool {
		if len(stateEdges) > 0 && facts.PassesAny(b, nil, stateEdges...) {
			return true
		}
		for _, f := range fs {
			if isState(f.Atom) {
				return true
			}
			if cl, isCall := f.Cond.(*ssa.Call); isCall && f.Pol && c18statePred(cl.Call.StaticCallee(), states, depth+1) {
				return true
			}
		}
		return false
	}
	n := 0
	okAll := true
	eachInstr(fn, func(i ssa.Instruction) {
		r, ok := i.(*ssa.Return)
		if !ok {
			return
		}
		switch v := r.Results[0].(type) {
		case *ssa.Const:
			if v.Value == nil || !constant.BoolVal(v.Value) {
				return
			}
			n++
			if !guarded(r.Block(), acceptFacts(r)) {
				okAll = false
			}
		case *ssa.Call:
			n++
			if !c18statePred(v.Call.StaticCallee(), states, depth+1) && !guarded(r.Block(), acceptFacts(r)) {
				okAll = false
			}
		default:
			for _, w := range facts.DNF(v, true) {
				n++
				if !guarded(r.Block(), append(append([]facts.Fact{}, w...), acceptFacts(r)...)) {
					okAll = false
				}
			}
		}
	})
	return okAll && n > 0
}

func c18mapGate(c *Ctx, fn *ssa.Function, name string, states []string) {
	p, R := c.Node(), c.R
	n := 0
	eachInstr(fn, func(i ssa.Instruction) {
		mu, ok := i.(*ssa.MapUpdate)
		if !ok {
			return
		}
		if facts.Term(mu.Map) != "map:"+name {
			return
		}
		// identify by debug name through source position comment is fragile; use the disjunctive state edges instead
		es, ds := edgesWhere(fn, func(a string) bool {
			for _, s := range states {
				if strings.HasPrefix(a, s+" == ") && strings.HasSuffix(a, ".state") || strings.HasSuffix(a, ".state == "+s) {
					return true
				}
			}
			return false
		})
		if len(es) == 0 {
			return
		}
		if !facts.PassesAny(mu.Block(), nil, es...) {
			return
		}
		n++
		R.Pass("C18.restart-gate", R.Key("C18.restart-gate", shortFn(fn), "mapupdate:"+name), c.rel(p.Pos(mu.Pos())), "restart is wanted only for DEAD or CANCELED nodes", fmt.Sprintf("guard edges %v", ds))
	})
	R.Floor("C18.restart-gate."+name, n, 1)
}

// c18dirtyOnEveryPath: from the instruction after `from`, every path of the processor loop to its
// next blocking select has marked the restart scan dirty. The "clean" flag is the value tested by
// the branch that guards the call of the scan (gc); it lives either in a cell (captured by a
// closure: dirty = a store of false to that cell, directly or inside a called closure) or in a
// register (a phi of the loop: dirty = the phi receives false along the path). Paths are walked
// with the phis evaluated for the edge actually taken, so a flag computed in the request switch
// and tested after it ("if changed { clean = false }") selects only the branch it can select.
func c18dirtyOnEveryPath(from ssa.Instruction, gc *ssa.Function) bool {
	fn := from.Parent()
	// the flag
	var cell ssa.Value
	var reg *ssa.Phi
	eachInstr(fn, func(i ssa.Instruction) {
		cl, ok := i.(*ssa.Call)
		if !ok || cl.Call.StaticCallee() != gc {
			return
		}
		for b := cl.Block(); b != nil; b = b.Idom() {
			d := b.Idom()
			if d == nil {
				break
			}
			iff, ok := d.Instrs[len(d.Instrs)-1].(*ssa.If)
			if !ok {
				continue
			}
			v := iff.Cond
			if u, ok := v.(*ssa.UnOp); ok && u.Op == token.NOT {
				v = u.X
			}
			switch x := v.(type) {
			case *ssa.Phi:
				reg = x
			case *ssa.UnOp:
				if x.Op == token.MUL {
					cell = x.X
				}
			}
			break
		}
	})
	if cell == nil && reg == nil {
		return false
	}
	sameCell := func(addr ssa.Value) bool {
		if addr == cell {
			return true
		}
		if fv, ok := addr.(*ssa.FreeVar); ok {
			if a := cellOfFreeVar(fv, 0); a != nil && ssa.Value(a) == cell {
				return true
			}
		}
		return false
	}
	isDirty := func(i ssa.Instruction) bool {
		if cell == nil {
			return false
		}
		if cl, ok := i.(*ssa.Call); ok {
			if mc, ok := resolveSpill(cl.Call.Value).(*ssa.MakeClosure); ok {
				d := false
				eachInstr(mc.Fn.(*ssa.Function), func(j ssa.Instruction) {
					if st, ok := j.(*ssa.Store); ok && isFalseConst(st.Val) && sameCell(st.Addr) {
						d = true
					}
				})
				return d
			}
		}
		st, ok := i.(*ssa.Store)
		return ok && isFalseConst(st.Val) && sameCell(st.Addr)
	}
	type env map[*ssa.Phi]ssa.Value
	var resolve func(e env, v ssa.Value) ssa.Value
	resolve = func(e env, v ssa.Value) ssa.Value {
		if ph, ok := v.(*ssa.Phi); ok {
			if r, ok := e[ph]; ok {
				return r
			}
		}
		return v
	}
	boolOf := func(e env, v ssa.Value) (val, known bool) {
		neg := false
		for {
			if u, ok := v.(*ssa.UnOp); ok && u.Op == token.NOT {
				neg = !neg
				v = u.X
				continue
			}
			break
		}
		v = resolve(e, v)
		if c, ok := v.(*ssa.Const); ok && c.Value != nil && c.Value.Kind() == constant.Bool {
			return constant.BoolVal(c.Value) != neg, true
		}
		return false, false
	}
	steps := 0
	var walk func(b *ssa.BasicBlock, start int, e env, dirty bool, depth int) bool
	walk = func(b *ssa.BasicBlock, start int, e env, dirty bool, depth int) bool {
		steps++
		if depth > 64 || steps > 20000 {
			return false // not decided
		}
		for k := start; k < len(b.Instrs); k++ {
			ins := b.Instrs[k]
			if isDirty(ins) {
				dirty = true
			}
			if sel, ok := ins.(*ssa.Select); ok && sel.Blocking {
				if reg != nil {
					v, known := boolOf(e, reg)
					return known && !v
				}
				return dirty
			}
			switch ins.(type) {
			case *ssa.Return, *ssa.Panic:
				return true // leaving the processor ends all restarts anyway
			}
		}
		succs := []int{}
		if iff, ok := b.Instrs[len(b.Instrs)-1].(*ssa.If); ok {
			if v, known := boolOf(e, iff.Cond); known {
				if v {
					succs = []int{0}
				} else {
					succs = []int{1}
				}
			}
		}
		if len(succs) == 0 {
			for k := range b.Succs {
				succs = append(succs, k)
			}
		}
		for _, k := range succs {
			nb := b.Succs[k]
			pi := -1
			for q, pr := range nb.Preds {
				if pr == b {
					pi = q
				}
			}
			ne := env{}
			for a, v := range e {
				ne[a] = v
			}
			for _, ins := range nb.Instrs {
				ph, ok := ins.(*ssa.Phi)
				if !ok {
					break
				}
				if pi >= 0 {
					ne[ph] = resolve(e, ph.Edges[pi])
				}
			}
			if !walk(nb, 0, ne, dirty, depth+1) {
				return false
			}
		}
		return true
	}
	return walk(from.Block(), instrIndexOf(from)+1, env{}, false, 0)
}

func instrIndexOf(i ssa.Instruction) int {
	for k, x := range i.Block().Instrs {
		if x == i {
			return k
		}
	}
	return -1
}

// c18rangedMap: the map whose range statement produces v (through next/extract/calls), or nil.
func c18rangedMap(v ssa.Value, depth int) ssa.Value {
	if depth > 6 || v == nil {
		return nil
	}
	switch x := v.(type) {
	case *ssa.Range:
		if _, ok := x.X.Type().Underlying().(*types.Map); ok {
			return x.X
		}
	case *ssa.Next:
		return c18rangedMap(x.Iter, depth+1)
	case *ssa.Extract:
		return c18rangedMap(x.Tuple, depth+1)
	case *ssa.Call:
		for _, a := range x.Call.Args {
			if m := c18rangedMap(a, depth+1); m != nil {
				return m
			}
		}
	}
	return nil
}

func isBoolType(t types.Type) bool {
	b, ok := t.Underlying().(*types.Basic)
	return ok && b.Info()&types.IsBoolean != 0
}

// c18dnNotFresh follows the dn of a schedule request back through captured variables, maps,
// slices (their updates and appends) and ranges to the dn() calls it stems from, and returns a
// description of the first one whose receiver is not the result of a newNode call ("" if all are).
func c18dnNotFresh(p *load.Program, v ssa.Value) string {
	if v == nil {
		return "dn of the schedule request is not set"
	}
	newNode := must(p.Func(pkgSup, "newNode"), "newNode")
	dnFn := must(p.Method(pkgSup, "node", "dn"), "node.dn")
	bad := ""
	n := 0
	seen := map[ssa.Value]bool{}
	// containers: every value put into map/slice c
	cseen := map[ssa.Value]bool{}
	var contents func(c ssa.Value, visit func(ssa.Value))
	contents = func(c ssa.Value, visit func(ssa.Value)) {
		if c == nil || cseen[c] {
			return
		}
		cseen[c] = true
		for _, leaf := range valueLeaves(c) {
			if leaf != c {
				if cseen[leaf] {
					continue
				}
				cseen[leaf] = true
			}
			switch x := leaf.(type) {
			case *ssa.MakeMap:
				if x.Referrers() != nil {
					for _, r := range *x.Referrers() {
						if mu, ok := r.(*ssa.MapUpdate); ok && mu.Map == ssa.Value(x) {
							visit(mu.Value)
						}
					}
				}
				// updates through a captured cell holding the same map
				for _, f := range withAnon(top(x.Parent())) {
					eachInstr(f, func(i ssa.Instruction) {
						if mu, ok := i.(*ssa.MapUpdate); ok && mu.Map != ssa.Value(x) {
							for _, l2 := range valueLeaves(mu.Map) {
								if l2 == ssa.Value(x) {
									visit(mu.Value)
								}
							}
						}
					})
				}
			case *ssa.Call:
				if b, ok := x.Call.Value.(*ssa.Builtin); ok && b.Name() == "append" && len(x.Call.Args) == 2 {
					contents(x.Call.Args[0], visit)
					// the appended elements: stores into the varargs array behind Args[1]
					if sl, ok := x.Call.Args[1].(*ssa.Slice); ok {
						if al, ok := sl.X.(*ssa.Alloc); ok && al.Referrers() != nil {
							for _, r := range *al.Referrers() {
								if ia, ok := r.(*ssa.IndexAddr); ok && ia.Referrers() != nil {
									for _, rr := range *ia.Referrers() {
										if st, ok := rr.(*ssa.Store); ok && st.Addr == ssa.Value(ia) {
											visit(st.Val)
										}
									}
								}
							}
						}
					} else {
						contents(x.Call.Args[1], visit)
					}
				}
			case *ssa.Slice:
				contents(x.X, visit)
			}
		}
	}
	var walk func(x ssa.Value, d int)
	walk = func(x ssa.Value, d int) {
		if x == nil || d > 10 || seen[x] || bad != "" {
			return
		}
		seen[x] = true
		for _, leaf := range valueLeaves(x) {
			switch y := leaf.(type) {
			case *ssa.Call:
				if y.Call.StaticCallee() == dnFn && len(y.Call.Args) == 1 {
					n++
					fresh := false
					for _, rl := range valueLeaves(y.Call.Args[0]) {
						if cl, ok := rl.(*ssa.Call); ok && cl.Call.StaticCallee() == newNode {
							fresh = true
						} else {
							fresh = false
							bad = "a scheduled dn is " + facts.Term(y) + ", whose node " + facts.Term(rl) + " is not one created by this call"
							return
						}
					}
					if !fresh && bad == "" {
						bad = "a scheduled dn is " + facts.Term(y) + ", whose node is not one created by this call"
					}
					continue
				}
				bad = "dn comes from " + facts.Term(y)
			case *ssa.Lookup:
				contents(y.X, func(e ssa.Value) { walk(e, d+1) })
			case *ssa.Extract:
				// value of a range over a map or slice
				if nx, ok := y.Tuple.(*ssa.Next); ok {
					if rg, ok := nx.Iter.(*ssa.Range); ok {
						contents(rg.X, func(e ssa.Value) { walk(e, d+1) })
						continue
					}
				}
				bad = "dn comes from " + facts.Term(y)
			case *ssa.UnOp:
				if y.Op == token.MUL {
					if ia, ok := y.X.(*ssa.IndexAddr); ok {
						contents(ia.X, func(e ssa.Value) { walk(e, d+1) })
						continue
					}
				}
				bad = "dn comes from " + facts.Term(y)
			default:
				bad = "dn comes from " + facts.Term(leaf)
			}
		}
	}
	walk(v, 0)
	if bad == "" && n == 0 {
		bad = "no dn() call found behind the scheduled dn"
	}
	return bad
}
