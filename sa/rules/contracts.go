package rules

import (
	"fmt"
	"math/big"
	"strings"

	"wvsa/internal/cparse"
)

// lin is a linear form c + k*<sym> used for symbolic byte offsets in the contract parsers.
type lin struct {
	C   int64
	K   int64
	Sym string
	End string // non-empty: "size of <x>" (open end)
}

func (l lin) String() string {
	if l.End != "" {
		return "size(" + l.End + ")"
	}
	if l.K == 0 {
		return fmt.Sprint(l.C)
	}
	return fmt.Sprintf("%d+%d*%s", l.C, l.K, l.Sym)
}

func (l lin) add(o lin) (lin, bool) {
	if l.End != "" || o.End != "" {
		return lin{}, false
	}
	if l.K != 0 && o.K != 0 && l.Sym != o.Sym {
		return lin{}, false
	}
	s := l.Sym
	if s == "" {
		s = o.Sym
	}
	return lin{C: l.C + o.C, K: l.K + o.K, Sym: s}, true
}

// fieldRead is one extracted read of a wire field on the contract side.
type fieldRead struct {
	Name  string // contract-side name (vm.timestamp / emitterChainId …)
	Off   lin    // offset relative to Base
	Width int    // -1 = to the end
	Base  string // "wire" (whole message) or "body"
	Conv  string // conversion builtin used
	Line  int
}

func (f fieldRead) String() string {
	w := fmt.Sprint(f.Width)
	if f.Width < 0 {
		w = "rest"
	}
	return fmt.Sprintf("%s@%s+%s[%s] via %s", f.Name, f.Base, f.Off, w, f.Conv)
}

// ---- Solidity parseVM ---------------------------------------------------------------------------

type solVM struct {
	Header    []fieldRead // version, guardianSetIndex, signersLen
	SigLoop   []fieldRead // per-signature reads, offsets relative to the signature start
	SigStride int64
	BodyStart lin
	Body      []fieldRead // offsets relative to BodyStart
	HashOK    bool
	VersionEq int64
	Notes     []string
}

var solWidth = map[string]int{"toUint8": 1, "toUint16": 2, "toUint32": 4, "toUint64": 8, "toUint256": 32, "toBytes32": 32, "toAddress": 20}

// parseSolVM walks Messages.sol parseVM symbolically over `index`.
func parseSolVM(src string) (*solVM, error) {
	f, err := cparse.ParseSolidityFunc(src, "parseVM")
	if err != nil {
		return nil, err
	}
	if len(f.Params) != 1 {
		return nil, fmt.Errorf("parseVM: unexpected parameters %v", f.Params)
	}
	in := f.Params[0]
	vm := &solVM{VersionEq: -1}
	idx := lin{}
	idxName := ""
	countVar := ""
	bodyVar := ""
	bodySeen := false
	// readOf recognises in.toX(idxName) [+ const]
	readOf := func(e cparse.Expr) (string, bool) {
		if b, ok := e.(cparse.Bin); ok && b.Op == "+" {
			if _, isNum := b.Y.(cparse.Num); isNum {
				e = b.X
			}
		}
		c, ok := e.(cparse.Call)
		if !ok || len(c.Args) != 1 {
			return "", false
		}
		m, ok := c.Fn.(cparse.Member)
		if !ok || m.X.String() != in {
			return "", false
		}
		if _, ok := solWidth[m.Name]; !ok {
			return "", false
		}
		if c.Args[0].String() != idxName {
			return "", false
		}
		return m.Name, true
	}
	isRestSlice := func(e cparse.Expr) bool {
		return e.String() == fmt.Sprintf("%s.slice(%s, (%s.length - %s))", in, idxName, in, idxName)
	}
	var walk func(ss []cparse.Stmt, inLoop bool, dst *[]fieldRead) error
	walk = func(ss []cparse.Stmt, inLoop bool, dst *[]fieldRead) error {
		for _, s := range ss {
			switch x := s.(type) {
			case cparse.Let:
				if len(x.Names) != 1 {
					return fmt.Errorf("line %d: unsupported declaration", x.Line)
				}
				name := x.Names[0]
				if n, ok := x.X.(cparse.Num); ok && idxName == "" && n.V.Sign() == 0 {
					idxName = name
					continue
				}
				if conv, ok := readOf(x.X); ok {
					*dst = append(*dst, fieldRead{Name: name, Off: idx, Width: solWidth[conv], Base: "wire", Conv: conv, Line: x.Line})
					if conv == "toUint8" && countVar == "" {
						countVar = name
					}
					continue
				}
				if isRestSlice(x.X) && !inLoop {
					bodyVar, vm.BodyStart, bodySeen = name, idx, true
					continue
				}
				return fmt.Errorf("line %d: unsupported declaration of %s = %s", x.Line, name, x.X)
			case cparse.Assign:
				tgt := x.Target.String()
				if tgt == idxName && x.Op == "+=" {
					n, ok := x.X.(cparse.Num)
					if !ok {
						return fmt.Errorf("line %d: index advanced by a non-constant", x.Line)
					}
					idx.C += n.V.Int64()
					continue
				}
				if x.Op != "=" {
					return fmt.Errorf("line %d: unsupported assignment %s %s", x.Line, tgt, x.Op)
				}
				if conv, ok := readOf(x.X); ok {
					*dst = append(*dst, fieldRead{Name: tgt, Off: idx, Width: solWidth[conv], Base: "wire", Conv: conv, Line: x.Line})
					continue
				}
				if isRestSlice(x.X) {
					*dst = append(*dst, fieldRead{Name: tgt, Off: idx, Width: -1, Base: "wire", Conv: "slice", Line: x.Line})
					continue
				}
				if strings.HasSuffix(tgt, ".hash") {
					vm.HashOK = bodyVar != "" && x.X.String() == "keccak256(abi.encodePacked(keccak256("+bodyVar+")))"
					continue
				}
				if _, ok := x.X.(cparse.Opaque); ok && strings.HasSuffix(tgt, ".signatures") {
					continue // array allocation
				}
				return fmt.Errorf("line %d: unsupported assignment %s = %s", x.Line, tgt, x.X)
			case cparse.ExprStmt:
				if c, ok := x.X.(cparse.Call); ok && c.Fn.String() == "require" && len(c.Args) >= 1 {
					if b, ok := c.Args[0].(cparse.Bin); ok && b.Op == "==" && strings.HasSuffix(b.X.String(), ".version") {
						if n, ok := b.Y.(cparse.Num); ok {
							vm.VersionEq = n.V.Int64()
						}
					}
					continue
				}
				return fmt.Errorf("line %d: unsupported statement %s", x.Line, x.X)
			case cparse.For:
				if inLoop {
					return fmt.Errorf("line %d: nested loop", x.Line)
				}
				if countVar == "" || !strings.HasSuffix(x.Cond.String(), " < "+countVar+")") {
					return fmt.Errorf("line %d: loop is not bounded by the signature count (%s)", x.Line, x.Cond)
				}
				save := idx
				idx = lin{}
				if err := walk(x.Body, true, &vm.SigLoop); err != nil {
					return err
				}
				vm.SigStride = idx.C
				idx = lin{C: save.C, K: vm.SigStride, Sym: "sigs"}
			default:
				return fmt.Errorf("unsupported statement kind %T", s)
			}
		}
		return nil
	}
	if err := walk(f.Body, false, &vm.Header); err != nil {
		return nil, err
	}
	if !bodySeen {
		return nil, fmt.Errorf("parseVM: body slice not found")
	}
	// split header/body by BodyStart
	var hdr []fieldRead
	for _, r := range vm.Header {
		if r.Off.K == vm.BodyStart.K && r.Off.C >= vm.BodyStart.C && r.Off.K != 0 {
			r.Off = lin{C: r.Off.C - vm.BodyStart.C}
			r.Base = "body"
			vm.Body = append(vm.Body, r)
		} else {
			hdr = append(hdr, r)
		}
	}
	vm.Header = hdr
	return vm, nil
}

// ---- Ralph -----------------------------------------------------------------------------------------

// ralphEnv evaluates integer expressions of a Ralph function to linear forms.
type ralphEnv struct {
	vars map[string]lin
}

func (e *ralphEnv) eval(x cparse.Expr) (lin, bool) {
	switch v := x.(type) {
	case cparse.Num:
		if !v.V.IsInt64() {
			return lin{}, false
		}
		return lin{C: v.V.Int64()}, true
	case cparse.Ident:
		if l, ok := e.vars[v.Name]; ok {
			return l, true
		}
		return lin{K: 1, Sym: v.Name}, true
	case cparse.Call:
		if v.Fn.String() == "size!" && len(v.Args) == 1 {
			return lin{End: v.Args[0].String()}, true
		}
	case cparse.Bin:
		a, ok1 := e.eval(v.X)
		b, ok2 := e.eval(v.Y)
		if !ok1 || !ok2 {
			return lin{}, false
		}
		switch v.Op {
		case "+":
			return a.add(b)
		case "*":
			if a.K == 0 && a.End == "" && b.End == "" {
				return lin{C: a.C * b.C, K: a.C * b.K, Sym: b.Sym}, true
			}
			if b.K == 0 && a.End == "" && b.End == "" {
				return lin{C: a.C * b.C, K: b.C * a.K, Sym: a.Sym}, true
			}
		}
	}
	return lin{}, false
}

var ralphFromWidth = map[string]int{"u256From1Byte!": 1, "u256From2Byte!": 2, "u256From4Byte!": 4, "u256From8Byte!": 8, "u256From16Byte!": 16, "u256From32Byte!": 32}
var ralphToWidth = map[string]int{"u256To1Byte!": 1, "u256To2Byte!": 2, "u256To4Byte!": 4, "u256To8Byte!": 8, "u256To16Byte!": 16, "u256To32Byte!": 32}

// sliceOf recognises [conv!(]byteVecSlice!(src, a, b)[)] and returns src, bounds and conv.
func (e *ralphEnv) sliceOf(x cparse.Expr) (src string, from, to lin, conv string, ok bool) {
	c, isCall := x.(cparse.Call)
	if !isCall {
		return
	}
	name := c.Fn.String()
	if _, isConv := ralphFromWidth[name]; isConv && len(c.Args) == 1 {
		conv = name
		c, isCall = c.Args[0].(cparse.Call)
		if !isCall {
			return
		}
		name = c.Fn.String()
	} else if name == "byteVecToAddress!" && len(c.Args) == 1 {
		conv = name
		c, isCall = c.Args[0].(cparse.Call)
		if !isCall {
			return
		}
		name = c.Fn.String()
	}
	if name != "byteVecSlice!" || len(c.Args) != 3 {
		return
	}
	f, ok1 := e.eval(c.Args[1])
	t, ok2 := e.eval(c.Args[2])
	if !ok1 || !ok2 {
		return
	}
	return c.Args[0].String(), f, t, conv, true
}

// ralphSlices lists every byteVecSlice-based read in a statement list (recursively), evaluating
// let-bound integer variables on the way. Reads inside loops are flagged.
type ralphRead struct {
	Name     string
	Src      string
	From, To lin
	Conv     string
	InLoop   bool
	Line     int
}

func (r ralphRead) width() int {
	if r.To.End != "" {
		return -1
	}
	if r.To.K == r.From.K && (r.To.K == 0 || r.To.Sym == r.From.Sym) {
		return int(r.To.C - r.From.C)
	}
	return -2 // variable, length-prefixed
}

func (r ralphRead) String() string {
	return fmt.Sprintf("%s = %s(%s[%s:%s])", r.Name, r.Conv, r.Src, r.From, r.To)
}

func ralphReads(body []cparse.Stmt, env *ralphEnv, inLoop bool, out *[]ralphRead, asserts *[]cparse.Expr) {
	for _, s := range body {
		switch x := s.(type) {
		case cparse.Let:
			if len(x.Names) == 1 && x.X != nil {
				if src, f, t, conv, ok := env.sliceOf(x.X); ok {
					*out = append(*out, ralphRead{x.Names[0], src, f, t, conv, inLoop, x.Line})
					continue
				}
				if l, ok := env.eval(x.X); ok && !inLoop {
					if _, isCall := x.X.(cparse.Call); !isCall {
						env.vars[x.Names[0]] = l
					}
				}
			}
		case cparse.Assign:
			// re-assignment of an integer variable inside straight-line code (offset = offset + k)
			if id, ok := x.Target.(cparse.Ident); ok && !inLoop {
				if l, ok := env.eval(x.X); ok {
					env.vars[id.Name] = l
				} else {
					delete(env.vars, id.Name)
				}
			}
		case cparse.ExprStmt:
			if c, ok := x.X.(cparse.Call); ok && c.Fn.String() == "assert!" && len(c.Args) >= 1 {
				*asserts = append(*asserts, c.Args[0])
				// slices used directly inside asserts
				collectInline(c.Args[0], env, inLoop, x.Line, out)
			}
		case cparse.For:
			sub := &ralphEnv{vars: map[string]lin{}}
			for k, v := range env.vars {
				sub.vars[k] = v
			}
			// loop-carried variables (assigned in the body) are symbolic inside the loop
			for _, bs := range x.Body {
				if as, ok := bs.(cparse.Assign); ok {
					if id, ok := as.Target.(cparse.Ident); ok {
						delete(sub.vars, id.Name)
					}
				}
			}
			ralphReads(x.Body, sub, true, out, asserts)
		case cparse.If:
			ralphReads(x.Then, env, inLoop, out, asserts)
			ralphReads(x.Else, env, inLoop, out, asserts)
		}
	}
}

func collectInline(e cparse.Expr, env *ralphEnv, inLoop bool, line int, out *[]ralphRead) {
	if src, f, t, conv, ok := env.sliceOf(e); ok {
		*out = append(*out, ralphRead{"<inline>", src, f, t, conv, inLoop, line})
		return
	}
	switch v := e.(type) {
	case cparse.Bin:
		collectInline(v.X, env, inLoop, line, out)
		collectInline(v.Y, env, inLoop, line, out)
	case cparse.Call:
		for _, a := range v.Args {
			collectInline(a, env, inLoop, line, out)
		}
	}
}

// hexOfConst renders a Ralph constant (number or #hex) as lowercase hex without leading zeros trimmed for HexLit.
func hexOfConst(e cparse.Expr) (string, bool) {
	switch v := e.(type) {
	case cparse.HexLit:
		return v.Hex, true
	case cparse.Num:
		return new(big.Int).Set(v.V).Text(16), true
	}
	return "", false
}
