package rules

import (
	"fmt"
	"go/token"
	"go/types"
	"strings"

	"golang.org/x/tools/go/packages"
	"golang.org/x/tools/go/ssa"

	"wvsa/internal/facts"
	"wvsa/internal/layout"
	"wvsa/internal/load"
)

// writeEvents returns the ordered write table of a serializer. The syntax-tree extractor
// (internal/layout) understands the bytes.Buffer / binary.Write idiom; when it finds no write in
// the function, the serializer is re-read from its SSA form, which also understands a pre-sized
// byte slice filled with binary.BigEndian.PutUintNN / copy / index stores and a slice grown with
// binary.BigEndian.AppendUintNN / append. The SSA reader produces the same event list (field
// spelled as the syntax-tree extractor would spell it), so the rules downstream do not care which
// idiom the serializer is written in.
func writeEvents(p *load.Program, pk *packages.Package, recvType, name string) []layout.Ev {
	fd := layout.FindFunc(pk, recvType, name)
	if fd == nil {
		return nil
	}
	evs := layout.Extract(pk, fd)
	nw := 0
	for _, e := range evs {
		if e.Kind == "write" || e.Kind == "write-call" {
			nw++
		}
	}
	if nw > 0 {
		return evs
	}
	fn := p.Method(pk.PkgPath, recvType, name)
	if fn == nil {
		return evs
	}
	if alt, err := ssaWriteEvents(fn); err == nil && len(alt) > 0 {
		return alt
	}
	return evs
}

type ssaWrite struct {
	off   int // -1: follows the previous write
	width int // -1: variable
	field string
	pos   token.Pos
}

// ssaWriteEvents reads a straight-line serializer from SSA.
func ssaWriteEvents(fn *ssa.Function) ([]layout.Ev, error) {
	if len(fn.Blocks) != 1 {
		return nil, fmt.Errorf("serializer is not straight-line (%d blocks)", len(fn.Blocks))
	}
	recv := "v"
	if len(fn.Params) > 0 {
		recv = fn.Params[0].Name()
	}
	fieldText := func(v ssa.Value) string {
		t := facts.Term(strip(v))
		switch {
		case t == "narrow:uint32((time.Time).Unix("+recv+".Timestamp))":
			return "uint32(" + recv + ".Timestamp.Unix())"
		}
		t = strings.TrimSuffix(t, "[:]")
		return t
	}
	isBigEndian := func(c *ssa.CallCommon) bool {
		n := facts.CalleeName(c)
		return strings.HasPrefix(n, "(encoding/binary.bigEndian).")
	}
	sizeOfBasic := func(t types.Type) int { return layout.SizeOf(t) }
	var ws []ssaWrite
	seq := 0 // running offset for append-style writers; -1 once a variable-length piece was appended
	for _, ins := range fn.Blocks[0].Instrs {
		switch x := ins.(type) {
		case *ssa.MakeSlice:
			// make([]byte, K, …): the first K bytes are filled positionally, appends start at K
			if k, isK := constInt(x.Len); isK && k > 0 && len(ws) == 0 {
				seq = int(k)
			}
		case *ssa.Slice:
			// make([]byte, K) with a constant capacity compiles to new [C]byte sliced [:K]
			if al, isAl := x.X.(*ssa.Alloc); isAl && al.Comment == "makeslice" && x.Low == nil && x.High != nil && len(ws) == 0 {
				if k, isK := constInt(x.High); isK && k > 0 {
					seq = int(k)
				}
			}
		case *ssa.Call:
			n := facts.CalleeName(&x.Call)
			switch {
			case isBigEndian(&x.Call) && strings.Contains(n, ".PutUint"):
				w := map[string]int{"PutUint16": 2, "PutUint32": 4, "PutUint64": 8}[n[strings.LastIndex(n, ".")+1:]]
				args := x.Call.Args
				dst, val := args[len(args)-2], args[len(args)-1]
				sl, ok := dst.(*ssa.Slice)
				if !ok {
					return nil, fmt.Errorf("PutUint destination is not a slice expression")
				}
				lo := int64(0)
				if sl.Low != nil {
					k, isK := constInt(sl.Low)
					if !isK {
						return nil, fmt.Errorf("PutUint at a non-constant offset")
					}
					lo = k
				}
				ws = append(ws, ssaWrite{int(lo), w, fieldText(val), x.Pos()})
			case isBigEndian(&x.Call) && strings.Contains(n, ".AppendUint"):
				w := map[string]int{"AppendUint16": 2, "AppendUint32": 4, "AppendUint64": 8}[n[strings.LastIndex(n, ".")+1:]]
				args := x.Call.Args
				ws = append(ws, ssaWrite{seq, w, fieldText(args[len(args)-1]), x.Pos()})
				if seq >= 0 {
					seq += w
				}
			case n == "copy":
				dst, ok := x.Call.Args[0].(*ssa.Slice)
				if !ok {
					return nil, fmt.Errorf("copy destination is not a slice expression")
				}
				lo := int64(0)
				if dst.Low != nil {
					k, isK := constInt(dst.Low)
					if !isK {
						return nil, fmt.Errorf("copy at a non-constant offset")
					}
					lo = k
				}
				width := -1
				src := x.Call.Args[1]
				if ssl, ok := src.(*ssa.Slice); ok {
					if pt, ok := ssl.X.Type().Underlying().(*types.Pointer); ok {
						if at, ok := pt.Elem().Underlying().(*types.Array); ok && ssl.Low == nil && ssl.High == nil {
							width = int(at.Len())
						}
					}
					ws = append(ws, ssaWrite{int(lo), width, strings.TrimSuffix(facts.Term(ssl.X), "[:]"), x.Pos()})
				} else {
					ws = append(ws, ssaWrite{int(lo), width, fieldText(src), x.Pos()})
				}
			case n == "append":
				arg := x.Call.Args[1]
				if el := singleVararg(arg); el != nil {
					w := sizeOfBasic(el.Type())
					ws = append(ws, ssaWrite{seq, w, fieldText(el), x.Pos()})
					if seq >= 0 {
						seq += w
					}
					continue
				}
				width := -1
				field := fieldText(arg)
				if ssl, ok := arg.(*ssa.Slice); ok {
					if pt, ok := ssl.X.Type().Underlying().(*types.Pointer); ok {
						if at, ok := pt.Elem().Underlying().(*types.Array); ok && ssl.Low == nil && ssl.High == nil {
							width = int(at.Len())
							field = strings.TrimSuffix(facts.Term(ssl.X), "[:]")
						}
					}
				}
				ws = append(ws, ssaWrite{seq, width, field, x.Pos()})
				if seq >= 0 && width >= 0 {
					seq += width
				} else {
					seq = -1
				}
			}
		case *ssa.Store:
			// b[k] = value
			if ia, ok := x.Addr.(*ssa.IndexAddr); ok {
				if _, isSlice := ia.X.Type().Underlying().(*types.Slice); isSlice {
					k, isK := constInt(ia.Index)
					if !isK {
						return nil, fmt.Errorf("store at a non-constant index")
					}
					ws = append(ws, ssaWrite{int(k), 1, fieldText(x.Val), x.Pos()})
				}
			}
		}
	}
	if len(ws) == 0 {
		return nil, fmt.Errorf("no writes recognised")
	}
	// order by offset (positional writers may be written in any order); sequential writers are
	// already in order. A variable-width piece must be the last one.
	for i := 1; i < len(ws); i++ {
		for j := i; j > 0 && ws[j].off >= 0 && ws[j-1].off > ws[j].off; j-- {
			ws[j], ws[j-1] = ws[j-1], ws[j]
		}
	}
	var out []layout.Ev
	next := 0
	for i, w := range ws {
		if w.off >= 0 && w.off != next {
			return nil, fmt.Errorf("write of %s at offset %d leaves a gap or overlaps (expected %d)", w.field, w.off, next)
		}
		if w.width < 0 && i != len(ws)-1 {
			return nil, fmt.Errorf("variable-width piece %s is not last", w.field)
		}
		order := ""
		if w.width > 1 {
			order = "binary.BigEndian"
		}
		out = append(out, layout.Ev{Kind: "write", Field: w.field, Width: w.width, Order: order, Pos: w.pos, Callee: "ssa"})
		if w.width > 0 {
			next += w.width
		}
	}
	return out, nil
}
