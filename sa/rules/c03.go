package rules

import (
	"fmt"
	"go/constant"
	"go/token"
	"go/types"
	"strings"

	"golang.org/x/tools/go/ssa"

	"wvsa/internal/facts"
)

const pkgP2P = N + "p2p"

func init() {
	register("C03", "Static rules on pkg/processor, pkg/p2p, pkg/common SSA (p2p is type-checked from source although it cannot be compiled here): every write to aggregation state in handleObservation, every SetHeartbeat call and every send on the watcher request channel is a discovered sink; at each sink the must-hold facts (cut-edge reachability, verification-disabled flag specialised to false) must include: Ecrecover succeeded over the right digest, recovered address equals the claimed/positional set key, membership of the claimed address in the applicable guardian set, the >=34-byte floor over prefix+payload, and the value stored/forwarded is keyed by the recovered signer. Domain separation is a table check on the two prefix variables (constant, never reassigned, distinct, prefix-free) and on the digest functions' shape; the heartbeat cap is a disjunctive must-pass fact (fresh inner map OR len < MaxNodesPerGuardian) at the only inner-map insert.", c03)
}

func c03(c *Ctx) {
	a := c.processor()
	p, R := a.p, c.R
	R.Trust("go/types + go/ssa", "crypto.Ecrecover/Keccak256 semantics", "libp2p envelope handling", "protobuf one-of wrappers")
	loopVarRule(c, p, "C03.loopvar", pkgProcessor, pkgP2P)
	R.Assumption("with disableHeartbeatVerify=true (spy mode) heartbeat verification is off by design; rules are evaluated for the guardian configuration (false)")

	gossipEntryHasNoSnapshot(c, a, "C03.obs", "an observation for a message the node has not observed itself is judged against the current guardian set on arrival (an entry created from gossip alone does not pin the set of the first signature: after a set update a rotated-out guardian would still be accepted for it, and new members rejected)")
	// ---- C03.obs: every aggregation-state write in handleObservation -----------------------
	stateFld := map[*types.Var]bool{a.fVaaSigs: true}
	for _, f := range a.vs {
		stateFld[f] = true
	}
	nobs := 0
	for _, f := range withAnon(a.hObs) {
		eachInstr(f, func(i ssa.Instruction) {
			fld := writtenField(i)
			if fld == nil || !stateFld[fld] {
				return
			}
			if fld == a.vs["submitted"] {
				return // publish path, covered by C01/C02 (strictly stronger facts)
			}
			nobs++
			fs := facts.At(i, nil)
			// locate the Ecrecover fact to learn digest/signature/address terms
			var rec *ssa.Call
			for _, ft := range fs {
				x, op, y, ok := cmpOf(ft)
				if !ok || op != token.EQL {
					continue
				}
				for _, v := range []ssa.Value{x, y} {
					if ex, ok := v.(*ssa.Extract); ok && ex.Index == 1 {
						if cl := asCall(ex.Tuple, "geth/crypto.Ecrecover"); cl != nil {
							rec = cl
						}
					}
				}
			}
			construct := "write:" + fld.Name()
			if rec == nil {
				R.Fail("C03.obs", R.Key("C03.obs", shortFn(f), construct), c.rel(p.Pos(instrPos(i))), "aggregation state write in handleObservation", "no successful Ecrecover on every path to this write", facts.Atoms(fs)...)
				return
			}
			recT := facts.Term(rec)
			okDigest := facts.Term(rec.Call.Args[0]) == "m.Hash" && facts.Term(rec.Call.Args[1]) == "m.Signature"
			recAddr := "geth/common.BytesToAddress(geth/crypto.Keccak256([" + recT + "#0[1:]])[12:])"
			claimed := "geth/common.BytesToAddress(m.Addr)"
			reqs := []req{
				{Name: "Ecrecover(m.Hash, m.Signature) ok", Pred: func(at string) bool { return okDigest && at == recT+"#1 == nil" }},
				{Name: "claimed address == recovered address", Pred: func(at string) bool { return at == facts.CmpAtom(recAddr, token.EQL, claimed) }},
				{Name: "applicable guardian set non-nil and claimed address is a member (set = entry snapshot, else current set)", Exact: func(ft facts.Fact) bool {
					ex, ok := ft.Cond.(*ssa.Extract)
					if !ok || !ft.Pol || ex.Index != 1 {
						return false
					}
					ki := asCall(ex.Tuple, "(*N/common.GuardianSet).KeyIndex")
					if ki == nil || facts.Term(ki.Call.Args[1]) != claimed {
						return false
					}
					G := ki.Call.Args[0]
					// G's sources: entry.gs (same digest) or p.gs
					for _, leaf := range phiLeaves(G) {
						_, lf := fieldLoad(leaf)
						if lf == a.fGs {
							continue
						}
						if lf == a.vs["gs"] && strings.HasPrefix(facts.Term(leaf), "p.state.vaaSignatures[encoding/hex.EncodeToString(m.Hash)]") {
							continue
						}
						return false
					}
					// and G != nil is a fact as well
					for _, g := range fs {
						x, op, y, ok := cmpOf(g)
						if ok && op == token.NEQ && ((x == G && isNilConst(y)) || (y == G && isNilConst(x))) {
							return true
						}
					}
					return false
				}},
			}
			c.checkFactsStable(p, a.w, "C03.obs", f, construct, i, fs, reqs)
		})
	}
	R.Floor("C03.obs", nobs, 2)
	// observations enter the processor only through obsvC -> handleObservation (C02.loopback checks Run's forwarding)

	// ---- C03.hb / C03.req -----------------------------------------------------------------
	c03verify(c, "C03.hb", "processSignedHeartbeat", "heartbeatDigest", "Heartbeat", true)
	c03verify(c, "C03.req", "processSignedObservationRequest", "signedObservationRequestDigest", "ObservationRequest", false)
	c03run(c)
	c03domain(c)
	c03cap(c)
}

// c03verify checks the verifier function: at its accepting points the five facts hold.
func c03verify(c *Ctx, rule, fnName, digestFn, payloadField string, isHeartbeat bool) {
	p, R := c.Node(), c.R
	fn := must(p.Func(pkgP2P, fnName), "p2p."+fnName)
	dg := must(p.Func(pkgP2P, digestFn), "p2p."+digestFn)
	base := facts.Cuts{}
	if isHeartbeat {
		base = facts.Specialise(fn, "disableVerify", false)
	}
	// accepting points: for heartbeats the SetHeartbeat call; for requests every return with a nil error
	type accept struct {
		instr ssa.Instruction
		name  string
	}
	var accs []accept
	setHB := must(p.Method(pkgCommon, "GuardianSetState", "SetHeartbeat"), "common.(*GuardianSetState).SetHeartbeat")
	eachInstr(fn, func(i ssa.Instruction) {
		if isHeartbeat {
			if ci, ok := i.(ssa.CallInstruction); ok && ci.Common().StaticCallee() == setHB {
				accs = append(accs, accept{i, "call:SetHeartbeat"})
			}
		}
		if r, ok := i.(*ssa.Return); ok && len(r.Results) == 2 && !definitelyNonNilErr(r.Results[1], r) {
			if facts.Reachable(r.Block(), base) {
				accs = append(accs, accept{i, "return:accept"})
			}
		}
	})
	floor := 1
	if isHeartbeat {
		floor = 2
	}
	R.Floor(rule, len(accs), floor)
	s := fn.Params[0]
	if isHeartbeat {
		s = fn.Params[1]
	}
	sT := facts.Term(s)
	payload := sT + "." + payloadField
	claimed := "geth/common.BytesToAddress(" + sT + ".GuardianAddr)"
	digest := "(geth/common.Hash).Bytes(" + fname(dg) + "(" + payload + "))"
	rec := "geth/crypto.Ecrecover(" + digest + "," + sT + ".Signature)"
	recAddr := "geth/common.BytesToAddress(geth/crypto.Keccak256([" + rec + "#0[1:]])[12:])"
	for _, ac := range accs {
		fs := facts.At(ac.instr, base)
		reqs := []req{
			{Name: "claimed address is a member of the guardian set passed in", Pred: func(at string) bool {
				return at == "(*N/common.GuardianSet).KeyIndex(gs,"+claimed+")#1"
			}},
			{Name: "len(prefix)+len(payload) >= K with K >= 33 (signed bytes can never be a 32-byte digest pre-image)", Exact: func(ft facts.Fact) bool {
				x, op, y, ok := cmpOf(ft)
				if !ok {
					return false
				}
				k, isK := constInt(x)
				if !isK || !(op == token.LEQ && k >= 33 || op == token.LSS && k >= 32) {
					return false
				}
				sum, ok := strip(y).(*ssa.BinOp)
				if !ok || sum.Op != token.ADD {
					return false
				}
				okPrefix, okPayload := false, false
				for _, opnd := range []ssa.Value{sum.X, sum.Y} {
					l := lenOf(opnd)
					if l == nil {
						return false
					}
					l = ft.R(l) // the floor test may live in a helper taking (prefix, payload)
					if u, ok := l.(*ssa.UnOp); ok {
						if g, ok := u.X.(*ssa.Global); ok && g == digestPrefixGlobal(dg) {
							okPrefix = true
						}
					}
					if facts.Term(l) == payload {
						okPayload = true
					}
				}
				return okPrefix && okPayload
			}},
			{Name: "Ecrecover over the prefixed digest of the payload succeeded", Pred: func(at string) bool { return at == rec+"#1 == nil" }},
			{Name: "recovered signer == guardian set key at the claimed address's index", Exact: func(ft facts.Fact) bool {
				x, op, y, ok := cmpOf(ft)
				if !ok || op != token.EQL {
					return false
				}
				for _, pr := range [][2]ssa.Value{{x, y}, {y, x}} {
					if facts.Term(pr[0]) != recAddr {
						continue
					}
					if facts.Term(pr[1]) == claimed {
						return true // KeyIndex ok (required above) implies gs.Keys[idx] == claimed address
					}
					good := true
					n := 0
					for _, leaf := range phiLeaves(pr[1]) {
						if cst, ok := leaf.(*ssa.Const); ok && cst.Value == nil {
							continue // zero address on the not-a-member edge, excluded by the membership fact
						}
						t := facts.Term(leaf)
						if t == "gs.Keys[(*N/common.GuardianSet).KeyIndex(gs,"+claimed+")#0]" {
							n++
							continue
						}
						good = false
					}
					if good && n == 1 {
						return true
					}
				}
				return false
			}},
		}
		c.checkFacts(p, rule, fn, ac.name, ac.instr, fs, reqs)
		R.Sample(map[string]any{"sink": ac.name + " in " + fnName, "facts": facts.Atoms(fs)})
		// what is stored / returned
		if ci, ok := ac.instr.(ssa.CallInstruction); ok && ci.Common().StaticCallee() == setHB {
			args := ci.Common().Args
			R.Check(rule, R.Key(rule, shortFn(fn), "call:SetHeartbeat:key"), c.rel(p.Pos(ac.instr.Pos())), "heartbeat is stored under the recovered signer address and is the decoded signed payload",
				facts.Term(args[1]) == recAddr && unmarshalTargetOf(fn, args[3]) == payload,
				fmt.Sprintf("key=%s value decoded from %s", facts.Term(args[1]), unmarshalTargetOf(fn, args[3])))
		}
		if r, ok := ac.instr.(*ssa.Return); ok && !isHeartbeat {
			R.Check(rule, R.Key(rule, shortFn(fn), "return:accept:value"), c.rel(p.Pos(instrPos(ac.instr))), "the accepted request is decoded from the signed payload bytes",
				unmarshalTargetOf(fn, r.Results[0]) == payload, "returned value decoded from "+unmarshalTargetOf(fn, r.Results[0]))
		}
	}
	// digest function shape: Keccak256Hash(append(prefix, b...))
	okShape := false
	eachInstr(dg, func(i ssa.Instruction) {
		if r, ok := i.(*ssa.Return); ok && len(r.Results) == 1 {
			t := facts.Term(r.Results[0])
			g := digestPrefixGlobal(dg)
			if g != nil && t == "geth/crypto.Keccak256Hash([append(*"+facts.Term(g)+",b)])" {
				okShape = true
			}
			// the hash streams its arguments: Keccak256Hash(prefix, b) hashes the same bytes
			if g != nil && t == "geth/crypto.Keccak256Hash([*"+facts.Term(g)+",b])" {
				okShape = true
			}
		}
	})
	R.Check("C03.domain", "C03.domain/"+digestFn+"/shape", c.rel(p.Pos(dg.Pos())), digestFn+" = Keccak256Hash(append(<prefix variable>, payload...))", okShape, "digest is not the keccak of prefix||payload")
}

// digestPrefixGlobal returns the package-level variable loaded by the digest function.
func digestPrefixGlobal(dg *ssa.Function) *ssa.Global {
	var g *ssa.Global
	n := 0
	eachInstr(dg, func(i ssa.Instruction) {
		if u, ok := i.(*ssa.UnOp); ok && u.Op == token.MUL {
			if gl, ok := u.X.(*ssa.Global); ok {
				g = gl
				n++
			}
		}
	})
	if n != 1 {
		return nil
	}
	return g
}

// unmarshalTargetOf: when v is the address of a local that is the target of proto.Unmarshal(src, &local)
// in fn, returns the term of src.
func unmarshalTargetOf(fn *ssa.Function, v ssa.Value) string {
	res := "<not a proto.Unmarshal target>"
	eachInstr(fn, func(i ssa.Instruction) {
		if cl, ok := i.(*ssa.Call); ok && facts.CalleeName(&cl.Call) == "google.golang.org/protobuf/proto.Unmarshal" {
			if strip(cl.Call.Args[1]) == v {
				res = facts.Term(cl.Call.Args[0])
			}
		}
	})
	return res
}

// definitelyNonNilErr: the error result is a freshly constructed error.
func definitelyNonNilErr(v ssa.Value, at ...ssa.Instruction) bool {
	v = facts.ThreadedValue(v)
	// a variable returned under a dominating `v != nil` test (`if err != nil { return nil, err }`)
	if len(at) == 1 {
		want := facts.CmpAtom(facts.Term(v), token.NEQ, "nil")
		if facts.HasAtom(facts.At(at[0], nil), want) {
			return true
		}
	}
	if cl, ok := strip(v).(*ssa.Call); ok {
		switch facts.CalleeName(&cl.Call) {
		case "fmt.Errorf", "errors.New":
			return true
		}
	}
	return false
}

// c03run: call sites in p2p.Run and all sends on the watcher request channel.
func c03run(c *Ctx) {
	p, R := c.Node(), c.R
	run := must(p.Func(pkgP2P, "Run"), "p2p.Run")
	hb := must(p.Func(pkgP2P, "processSignedHeartbeat"), "p2p.processSignedHeartbeat")
	rq := must(p.Func(pkgP2P, "processSignedObservationRequest"), "p2p.processSignedObservationRequest")
	for _, callee := range []*ssa.Function{hb, rq} {
		sites := callsTo(p, callee)
		for _, s := range sites {
			call := s.Instr.(ssa.CallInstruction).Common()
			gsArg := call.Args[1]
			if callee == hb {
				gsArg = call.Args[2]
			}
			fs := facts.At(s.Instr, nil)
			isGet := asCall(gsArg, "(*N/common.GuardianSetState).Get") != nil
			nonNil := false
			for _, f := range fs {
				x, op, y, ok := cmpOf(f)
				if ok && op == token.NEQ && ((x == gsArg && isNilConst(y)) || (y == gsArg && isNilConst(x))) {
					nonNil = true
				}
			}
			okSite := top(s.Fn) == run && isGet && nonNil
			R.Check("C03.run", R.Key("C03.run", shortFn(s.Fn), "call:"+callee.Name()), c.sitePos(p, s), callee.Name()+" is called from p2p.Run with the current guardian set (gst.Get()), checked non-nil", okSite, "gs="+facts.Term(gsArg))
			if callee == hb {
				dv := call.Args[4]
				isParam := refersTo(s.Fn, dv, run.Params[12])
				R.Check("C03.run", R.Key("C03.run", shortFn(s.Fn), "call:processSignedHeartbeat:flag"), c.sitePos(p, s), "the verification switch is the Run parameter (spy mode only), not a constant true", isParam || isFalseConst(dv), "disableVerify="+facts.Term(dv))
			}
		}
		R.Floor("C03.run."+callee.Name(), len(sites), 1)
	}
	// guardiand passes disableHeartbeatVerify = false
	for _, s := range callsTo(p, run) {
		if strings.Contains(s.Fn.Pkg.Pkg.Path(), "cmd/guardiand") {
			arg := s.Instr.(ssa.CallInstruction).Common().Args[12]
			okFlag := isFalseConst(arg)
			// accepted idiom: a CLI flag whose default is false
			if u, ok := arg.(*ssa.UnOp); ok && !okFlag {
				if u2, ok := u.X.(*ssa.UnOp); ok {
					if g, ok := u2.X.(*ssa.Global); ok {
						for _, f := range p.SrcFuncs(NCmd + "guardiand") {
							eachInstr(f, func(i ssa.Instruction) {
								if st, ok := i.(*ssa.Store); ok && st.Addr == g {
									if cl, ok := st.Val.(*ssa.Call); ok && strings.HasSuffix(facts.CalleeName(&cl.Call), "pflag.FlagSet).Bool") && isFalseConst(cl.Call.Args[2]) {
										okFlag = true
									}
								}
							})
						}
					}
				}
			}
			R.Check("C03.run", R.Key("C03.run", shortFn(s.Fn), "call:p2p.Run:disableHeartbeatVerify"), c.sitePos(p, s), "guardiand starts p2p with heartbeat verification enabled (constant false, or an operator flag defaulting to false)", okFlag, "argument = "+facts.Term(arg))
		}
	}
	// sends on obsvReqC (parameter 1 of Run)
	obsvReqC := run.Params[1]
	n := 0
	for _, f := range withAnon(run) {
		for _, sd := range sendsIn(f) {
			if !refersTo(f, sd.Chan, obsvReqC) {
				continue
			}
			n++
			construct := "send:obsvReqC"
			key := R.Key("C03.req", shortFn(f), construct)
			pos := c.rel(p.Pos(sd.Instr.Pos()))
			// (a) verified inbound request
			if ex, ok := sd.X.(*ssa.Extract); ok && ex.Index == 0 {
				if cl, ok := ex.Tuple.(*ssa.Call); ok && cl.Call.StaticCallee() == rq {
					fs := facts.At(sd.Instr, nil)
					R.Check("C03.req", key, pos, "inbound request forwarded to watchers only if processSignedObservationRequest returned no error",
						facts.HasAtom(fs, facts.Term(cl)+"#1 == nil"), "missing fact err == nil", facts.Atoms(fs)...)
					continue
				}
			}
			// (b) the node's own request read from obsvReqSendC in the same select
			own := false
			if ex, ok := sd.X.(*ssa.Extract); ok {
				if sel, ok := ex.Tuple.(*ssa.Select); ok {
					ri := 0
					for _, st := range sel.States {
						if st.Dir == types.RecvOnly {
							if refersTo(f, st.Chan, run.Params[2]) && ex.Index == 2+ri {
								own = true
							}
							ri++
						}
					}
				}
			}
			R.Check("C03.req", key, pos, "send on the watcher request channel is either a verified inbound request or the node's own outbound request", own, "unverified value forwarded: "+facts.Term(sd.X))
		}
	}
	R.Floor("C03.req.sends", n, 2)
}

// refersTo: v is the parameter itself or the free variable that captures it in a nested closure.
func refersTo(f *ssa.Function, v ssa.Value, param *ssa.Parameter) bool {
	if v == param {
		return true
	}
	if u, ok := v.(*ssa.UnOp); ok && u.Op == token.MUL {
		v = u.X
	}
	fv, ok := v.(*ssa.FreeVar)
	if !ok {
		if al, ok := v.(*ssa.Alloc); ok {
			return facts.SpilledParam(al) == param
		}
		return false
	}
	// resolve the binding in the parent chain
	par := f.Parent()
	if par == nil {
		return false
	}
	var bound ssa.Value
	eachInstr(par, func(i ssa.Instruction) {
		if mc, ok := i.(*ssa.MakeClosure); ok && mc.Fn == f {
			for k, x := range f.FreeVars {
				if x == fv {
					bound = mc.Bindings[k]
				}
			}
		}
	})
	if bound == nil {
		return false
	}
	return refersTo(par, bound, param)
}

func c03domain(c *Ctx) {
	p, R := c.Node(), c.R
	pk := p.Pkg(pkgP2P)
	vals := map[string]string{}
	for _, name := range []string{"heartbeatMessagePrefix", "signedObservationRequestPrefix"} {
		g, _ := pk.Members[name].(*ssa.Global)
		if g == nil {
			R.Fail("C03.domain", "C03.domain/"+name, "", "prefix variable", "undecided: package variable not found")
			continue
		}
		nstores := 0
		for _, f := range p.SrcFuncs("") {
			eachInstr(f, func(i ssa.Instruction) {
				if st, ok := i.(*ssa.Store); ok && st.Addr == g {
					nstores++
					if f.Name() == "init" && f.Pkg == pk {
						if cv, ok := st.Val.(*ssa.Convert); ok {
							if cst, ok := cv.X.(*ssa.Const); ok && cst.Value != nil && cst.Value.Kind() == constant.String {
								vals[name] = constant.StringVal(cst.Value)
							}
						}
					} else {
						R.Fail("C03.domain", R.Key("C03.domain", shortFn(f), "store:"+name), c.rel(p.Pos(st.Pos())), "domain prefix reassigned in "+fname(f), "prefix variables must be initialised once from a constant")
					}
				}
				// element writes through a load of the global
				if st, ok := i.(*ssa.Store); ok {
					if ia, ok := st.Addr.(*ssa.IndexAddr); ok {
						if u, ok := ia.X.(*ssa.UnOp); ok && u.X == g {
							R.Fail("C03.domain", R.Key("C03.domain", shortFn(f), "elemstore:"+name), c.rel(p.Pos(st.Pos())), "domain prefix bytes modified in "+fname(f), "prefix bytes must be constant")
						}
					}
				}
			})
		}
		v, ok := vals[name]
		R.Check("C03.domain", "C03.domain/"+name+"/constant", "", name+" is initialised exactly once from a non-empty constant string", ok && v != "" && nstores == 1, fmt.Sprintf("value=%q stores=%d", v, nstores))
	}
	h, r := vals["heartbeatMessagePrefix"], vals["signedObservationRequestPrefix"]
	R.Check("C03.domain", "C03.domain/prefix-free", "", "the two domain prefixes are distinct and neither is a prefix of the other", h != "" && r != "" && !strings.HasPrefix(h, r) && !strings.HasPrefix(r, h), fmt.Sprintf("%q vs %q", h, r))
	// VAA digest pre-image is 32 bytes: SigningMsg = Keccak256Hash(Keccak256Hash(body).Bytes())
	sm := must(p.Method(pkgVAA, "VAA", "SigningMsg"), "vaa.(*VAA).SigningMsg")
	ok := false
	eachInstr(sm, func(i ssa.Instruction) {
		if rt, ok2 := i.(*ssa.Return); ok2 && len(rt.Results) == 1 {
			if d, inner := keccakChain(rt.Results[0]); d == 2 && facts.Term(inner) == "(*N/vaa.VAA).signingBody(v)" {
				ok = true
			}
		}
	})
	R.Check("C03.domain", "C03.domain/vaa-preimage-32", c.rel(p.Pos(sm.Pos())), "a VAA digest is the keccak of a 32-byte value (so a >=33-byte signed message can never coincide with it)", ok, "SigningMsg shape changed")
	R.Sample(map[string]any{"heartbeat_prefix": h, "request_prefix": r})
}

func c03cap(c *Ctx) {
	p, R := c.Node(), c.R
	lastHB := must(p.FieldOf(pkgCommon, "GuardianSetState", "lastHeartbeats"), "GuardianSetState.lastHeartbeats")
	maxC := p.ByPath[pkgCommon].Types.Scope().Lookup("MaxNodesPerGuardian")
	maxV, _ := constant.Int64Val(must(maxC, "common.MaxNodesPerGuardian").(*types.Const).Val())
	innerT := lastHB.Type().Underlying().(*types.Map).Elem()
	n := 0
	for _, f := range p.SrcFuncs("") {
		eachInstr(f, func(i ssa.Instruction) {
			mu, ok := i.(*ssa.MapUpdate)
			if !ok || !types.Identical(mu.Map.Type(), innerT) {
				return
			}
			// fresh local copies (GetAll/LastHeartbeat) are not the table
			fromTable := false
			for _, leaf := range phiLeaves(mu.Map) {
				if ex, ok := leaf.(*ssa.Extract); ok {
					leaf = ex.Tuple
				}
				if lk, ok := leaf.(*ssa.Lookup); ok && loadedField(lk.X) == lastHB {
					fromTable = true
				}
				if lf := loadedField(leaf); lf == lastHB {
					fromTable = true
				}
			}
			storedInTable := false
			if mm, ok := mu.Map.(*ssa.MakeMap); ok && mm.Referrers() != nil {
				for _, r := range *mm.Referrers() {
					if mu2, ok := r.(*ssa.MapUpdate); ok && mu2.Value == mm && loadedField(mu2.Map) == lastHB {
						storedInTable = true
					}
				}
			}
			if !fromTable && !storedInTable {
				return
			}
			n++
			key := R.Key("C03.cap", shortFn(f), "mapupdate:lastHeartbeats[addr][peer]")
			// disjunctive fact: fresh map edge OR len(v) < Max edge
			var edges []facts.Edge
			var descr []string
			for _, b := range f.Blocks {
				iff, ok := b.Instrs[len(b.Instrs)-1].(*ssa.If)
				if !ok {
					continue
				}
				if ex, ok := iff.Cond.(*ssa.Extract); ok && ex.Index == 1 {
					if lk, ok := ex.Tuple.(*ssa.Lookup); ok && loadedField(lk.X) == lastHB {
						// !ok edge leads to the fresh map: require that on that edge the map is a MakeMap
						edges = append(edges, facts.Edge{B: b.Index, K: 1})
						descr = append(descr, "entry absent (fresh inner map)")
					}
				}
				x, op, y, okc := cmpOf(facts.Fact{Cond: iff.Cond, Pol: true})
				if okc {
					// true edge: x op y
					if k, isK := constInt(y); isK && lenOf(x) != nil && inPhiWeb(mu.Map, stripExtract(lenOf(x))) && (op == token.LSS && k <= maxV || op == token.LEQ && k < maxV) {
						edges = append(edges, facts.Edge{B: b.Index, K: 0})
						descr = append(descr, facts.Atom(iff.Cond, true))
					}
				}
				x, op, y, okc = cmpOf(facts.Fact{Cond: iff.Cond, Pol: false})
				if okc {
					if k, isK := constInt(y); isK && lenOf(x) != nil && inPhiWeb(mu.Map, stripExtract(lenOf(x))) && (op == token.LSS && k <= maxV || op == token.LEQ && k < maxV) {
						edges = append(edges, facts.Edge{B: b.Index, K: 1})
						descr = append(descr, facts.Atom(iff.Cond, false))
					}
				}
			}
			ok2 := len(edges) > 0 && facts.PassesAny(mu.Block(), nil, edges...)
			R.Check("C03.cap", key, c.rel(p.Pos(mu.Pos())), fmt.Sprintf("inner heartbeat map insert happens only into a fresh map or when len < MaxNodesPerGuardian (%d)", maxV), ok2 && f.Name() == "SetHeartbeat",
				fmt.Sprintf("guard edges: %v", descr))
			// check and insert form one critical section: the mutex guarding the table is held at
			// the insert, and no Unlock of it lies between a guard edge and the insert (a window
			// there lets two concurrent calls both pass the cap test and both insert)
			muF := p.FieldOf(pkgCommon, "GuardianSetState", "mu")
			if muF != nil {
				held := lockState(f, muF, false)[mu]
				window := ""
				eachInstr(f, func(j ssa.Instruction) {
					cl, isCall := j.(*ssa.Call)
					if !isCall || cl.Call.StaticCallee() == nil || cl.Call.StaticCallee().Name() != "Unlock" || len(cl.Call.Args) == 0 || fieldOfAddr(cl.Call.Args[0]) != muF {
						return
					}
					// reachable from a guard edge's block, and the insert reachable from it?
					for _, e := range edges {
						gb := f.Blocks[e.B]
						if blockReaches(gb, cl.Block()) && blockReaches(cl.Block(), mu.Block()) {
							window = c.rel(p.Pos(cl.Pos()))
						}
					}
				})
				R.Check("C03.cap", R.Key("C03.cap", shortFn(f), "atomic-check-and-insert"), c.rel(p.Pos(mu.Pos())), "the cap test and the insert happen in one critical section of GuardianSetState.mu", held && window == "",
					fmt.Sprintf("mutex held at the insert: %v; Unlock between the cap test and the insert at %q", held, window))
			}
		})
	}
	R.Floor("C03.cap", n, 1)
	// callers of SetHeartbeat
	setHB := must(p.Method(pkgCommon, "GuardianSetState", "SetHeartbeat"), "SetHeartbeat")
	ns := 0
	for _, s := range callsTo(p, setHB) {
		ns++
		t := fname(top(s.Fn))
		okc := t == "N/p2p.processSignedHeartbeat" || t == "N/p2p.Run"
		R.Check("C03.hb", R.Key("C03.hb", shortFn(s.Fn), "caller:SetHeartbeat"), c.sitePos(p, s), "SetHeartbeat called from "+t, okc, "unlisted writer of the heartbeat table")
		if t == "N/p2p.Run" {
			// own heartbeat: keyed by the node's own guardian address
			arg := facts.Term(s.Instr.(ssa.CallInstruction).Common().Args[1])
			R.Check("C03.hb", R.Key("C03.hb", shortFn(s.Fn), "own-heartbeat-key"), c.sitePos(p, s), "the node's own heartbeat is stored under its own guardian address",
				arg == "geth/crypto.PubkeyToAddress(invoke:N/ecdsasigner.ECDSASigner.PublicKey(guardianSigner))", "key = "+arg)
		}
	}
	R.Floor("C03.hb.callers", ns, 2)
}

func stripExtract(v ssa.Value) ssa.Value {
	if ex, ok := v.(*ssa.Extract); ok {
		return ex
	}
	return v
}

// blockReaches: b is reachable from a (a == b counts).
func blockReaches(a, b *ssa.BasicBlock) bool {
	seen := map[*ssa.BasicBlock]bool{}
	st := []*ssa.BasicBlock{a}
	for len(st) > 0 {
		x := st[len(st)-1]
		st = st[:len(st)-1]
		if x == b {
			return true
		}
		if seen[x] {
			continue
		}
		seen[x] = true
		st = append(st, x.Succs...)
	}
	return false
}

// gossipEntryHasNoSnapshot: the aggregation entry that handleObservation creates for a digest it
// has no entry for carries neither an observed VAA nor a guardian-set snapshot; both are set only
// by the node's own observation (broadcastSignature). The guardian set an observation is verified
// against is therefore "snapshot of the own observation, else the current set".
func gossipEntryHasNoSnapshot(c *Ctx, a *procAnchors, rule, claim string) {
	p, R := a.p, c.R
	vsT := must(p.Named(pkgProcessor, "vaaState"), "processor.vaaState")
	n := 0
	for _, s := range allocsOf(p, vsT) {
		if s.Fn != a.hObs {
			continue
		}
		n++
		vals, _ := allocStores(s.Instr.(*ssa.Alloc))
		var set []string
		for _, f := range []string{"gs", "ourVAA", "ourMsg"} {
			if v := vals[f]; v != nil && !isNilConst(v) {
				set = append(set, f+" = "+facts.Term(v))
			}
		}
		R.Check(rule, R.Key(rule, shortFn(s.Fn), "gossip-entry-unpinned"), c.sitePos(p, s), claim, len(set) == 0, "the entry created from gossip sets "+strings.Join(set, ", "))
	}
	R.Floor(rule+".gossip-entry", n, 1)
}
