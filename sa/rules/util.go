package rules

import (
	"fmt"
	"go/token"
	"go/types"
	"sort"
	"strings"

	"golang.org/x/tools/go/ssa"

	"wvsa/internal/facts"
	"wvsa/internal/load"
)

// top returns the outermost enclosing function (closures are attributed to their declaring function).
func top(f *ssa.Function) *ssa.Function {
	for f.Parent() != nil {
		f = f.Parent()
	}
	return f
}

func fname(f *ssa.Function) string { return facts.FuncName(f) }

// shortFn is the name used in obligation keys: "(*T).M" / "F" / "F$1".
func shortFn(f *ssa.Function) string {
	s := f.RelString(f.Pkg.Pkg)
	return s
}

func eachInstr(f *ssa.Function, fn func(ssa.Instruction)) {
	for _, b := range f.Blocks {
		for _, i := range b.Instrs {
			fn(i)
		}
	}
}

// withAnon returns f and all nested anonymous functions.
func withAnon(f *ssa.Function) []*ssa.Function {
	out := []*ssa.Function{f}
	seen := map[*ssa.Function]bool{f: true}
	for i := 0; i < len(out); i++ {
		for _, a := range out[i].AnonFuncs {
			if !seen[a] {
				seen[a] = true
				out = append(out, a)
			}
		}
		// a method value of the same package used as a function literal (`db.Update(entry.put)`)
		// is part of the function's own code, like a literal would be
		eachInstr(out[i], func(ins ssa.Instruction) {
			if mc, ok := ins.(*ssa.MakeClosure); ok {
				if m := boundMethod(mc); m != nil && m.Pkg == f.Pkg && len(m.Blocks) > 0 && !seen[m] {
					seen[m] = true
					out = append(out, m)
				}
			}
		})
	}
	return out
}

// boundMethod: mc is a method value (`x.m`): the method it is bound to, or nil.
func boundMethod(mc *ssa.MakeClosure) *ssa.Function {
	w, ok := mc.Fn.(*ssa.Function)
	if !ok || !strings.HasPrefix(w.Synthetic, "bound method wrapper") || len(mc.Bindings) != 1 {
		return nil
	}
	var m *ssa.Function
	eachInstr(w, func(i ssa.Instruction) {
		if cl, ok := i.(ssa.CallInstruction); ok {
			if cal := cl.Common().StaticCallee(); cal != nil {
				m = cal
			}
		}
	})
	return m
}

var boundSitesCache = map[*ssa.Package]map[*ssa.Function][]*ssa.MakeClosure{}

// boundSites lists the method values of m created in m's own package.
func boundSites(m *ssa.Function) []*ssa.MakeClosure {
	if m == nil || m.Pkg == nil {
		return nil
	}
	tab, ok := boundSitesCache[m.Pkg]
	if !ok {
		tab = map[*ssa.Function][]*ssa.MakeClosure{}
		var scan func(f *ssa.Function)
		scan = func(f *ssa.Function) {
			eachInstr(f, func(i ssa.Instruction) {
				if mc, ok := i.(*ssa.MakeClosure); ok {
					if bm := boundMethod(mc); bm != nil {
						tab[bm] = append(tab[bm], mc)
					}
				}
			})
			for _, a := range f.AnonFuncs {
				scan(a)
			}
		}
		for _, mem := range m.Pkg.Members {
			switch x := mem.(type) {
			case *ssa.Function:
				scan(x)
			case *ssa.Type:
				for _, t := range []types.Type{x.Type(), types.NewPointer(x.Type())} {
					ms := m.Prog.MethodSets.MethodSet(t)
					for k := 0; k < ms.Len(); k++ {
						if fn := m.Prog.MethodValue(ms.At(k)); fn != nil && fn.Pkg == m.Pkg {
							scan(fn)
						}
					}
				}
			}
		}
		boundSitesCache[m.Pkg] = tab
	}
	return tab[m]
}

// receiverField: v loads a field of the receiver of a method that is used (exactly once) as a
// method value on a local struct whose field was set exactly once: the value stored there.
func receiverField(v ssa.Value) ssa.Value {
	var base ssa.Value
	var fld *types.Var
	switch x := v.(type) {
	case *ssa.UnOp:
		if x.Op != token.MUL {
			return nil
		}
		fa, ok := x.X.(*ssa.FieldAddr)
		if !ok {
			return nil
		}
		base, fld = fa.X, fieldOfAddr(fa)
	case *ssa.Field:
		// value receiver
		base, fld = x.X, fieldOfAddr(x)
	default:
		return nil
	}
	if al, isAl := base.(*ssa.Alloc); isAl {
		// a value receiver whose fields are addressed is spilled into a local first
		if pv := facts.SpilledParam(al); pv != nil {
			base = pv
		}
	}
	prm, ok := base.(*ssa.Parameter)
	if !ok || fld == nil || prm.Parent() == nil || len(prm.Parent().Params) == 0 || prm.Parent().Params[0] != prm || prm.Parent().Signature.Recv() == nil {
		return nil
	}
	sites := boundSites(prm.Parent())
	if len(sites) != 1 {
		return nil
	}
	bind := sites[0].Bindings[0]
	if ld, isLd := bind.(*ssa.UnOp); isLd && ld.Op == token.MUL {
		// a struct value copied into the method value: the local it was loaded from
		bind = ld.X
	}
	al, ok := bind.(*ssa.Alloc)
	if !ok {
		return nil
	}
	vals, cnt := allocStores(al)
	name := fld.Name()
	if cnt[name] != 1 {
		return nil
	}
	return vals[name]
}

// fieldOfAddr returns the struct field selected by a FieldAddr/Field value, or nil.
func fieldOfAddr(v ssa.Value) *types.Var {
	switch x := v.(type) {
	case *ssa.FieldAddr:
		t := x.X.Type().Underlying()
		if p, ok := t.(*types.Pointer); ok {
			if st, ok := p.Elem().Underlying().(*types.Struct); ok {
				return st.Field(x.Field)
			}
		}
	case *ssa.Field:
		if st, ok := x.X.Type().Underlying().(*types.Struct); ok {
			return st.Field(x.Field)
		}
	}
	return nil
}

// loadedField returns the field when v is a load (*FieldAddr) or Field of that field.
func loadedField(v ssa.Value) *types.Var {
	switch x := v.(type) {
	case *ssa.UnOp:
		if x.Op == token.MUL {
			return fieldOfAddr(x.X)
		}
	case *ssa.Field:
		return fieldOfAddr(x)
	}
	return nil
}

type site struct {
	Fn    *ssa.Function
	Instr ssa.Instruction
}

func (c *Ctx) sitePos(p *load.Program, s site) string { return c.rel(p.Pos(s.Instr.Pos())) }

// callsTo lists every call/go/defer site in root functions whose static callee is `callee`.
func callsTo(p *load.Program, callee *ssa.Function) []site {
	var out []site
	for _, f := range p.SrcFuncs("") {
		eachInstr(f, func(i ssa.Instruction) {
			if ci, ok := i.(ssa.CallInstruction); ok {
				if ci.Common().StaticCallee() == callee {
					out = append(out, site{f, i})
				}
			}
		})
	}
	return out
}

// callsNamed lists call sites whose canonical callee name equals name (works for externals).
func callsNamed(p *load.Program, prefix string, name string) []site {
	var out []site
	for _, f := range p.SrcFuncs(prefix) {
		eachInstr(f, func(i ssa.Instruction) {
			if ci, ok := i.(ssa.CallInstruction); ok {
				if facts.CalleeName(ci.Common()) == name {
					out = append(out, site{f, i})
				}
			}
		})
	}
	return out
}

// funcRefs lists non-call references to fn (method values, function passed as value).
func funcRefs(p *load.Program, fn *ssa.Function) []site {
	var out []site
	for _, f := range p.SrcFuncs("") {
		eachInstr(f, func(i ssa.Instruction) {
			var ops []*ssa.Value
			ops = i.Operands(ops)
			isCallee := func(v *ssa.Value) bool {
				if ci, ok := i.(ssa.CallInstruction); ok {
					return &ci.Common().Value == v
				}
				return false
			}
			for _, o := range ops {
				if o == nil || *o == nil {
					continue
				}
				if g, ok := (*o).(*ssa.Function); ok && g == fn && !isCallee(o) {
					out = append(out, site{f, i})
				}
				if mc, ok := (*o).(*ssa.MakeClosure); ok {
					_ = mc
				}
			}
			if mc, ok := i.(*ssa.MakeClosure); ok {
				if g, ok := mc.Fn.(*ssa.Function); ok && g.Synthetic != "" && strings.Contains(g.Synthetic, "bound method") {
					if g.Object() == fn.Object() && fn.Object() != nil {
						out = append(out, site{f, i})
					}
				}
			}
		})
	}
	return out
}

// storesToField lists Store instructions (and composite-literal initialisations, which are
// stores to a FieldAddr of a fresh Alloc) writing the given field anywhere in root packages.
func storesToField(p *load.Program, fld *types.Var) []site {
	var out []site
	for _, f := range p.SrcFuncs("") {
		eachInstr(f, func(i ssa.Instruction) {
			if st, ok := i.(*ssa.Store); ok {
				if fieldOfAddr(st.Addr) == fld {
					out = append(out, site{f, i})
				}
			}
		})
	}
	return out
}

// isFreshAlloc reports whether the struct base of a FieldAddr is a new allocation in this function
// (composite literal under construction).
func isFreshAlloc(addr ssa.Value) bool {
	if fa, ok := addr.(*ssa.FieldAddr); ok {
		_, ok := fa.X.(*ssa.Alloc)
		return ok
	}
	return false
}

// fieldReads lists instructions that read the field (load of FieldAddr, or Field).
func fieldAccesses(p *load.Program, fld *types.Var) []site {
	var out []site
	for _, f := range p.SrcFuncs("") {
		eachInstr(f, func(i ssa.Instruction) {
			if v, ok := i.(ssa.Value); ok {
				if fieldOfAddr(v) == fld {
					out = append(out, site{f, i})
				}
			}
		})
	}
	return out
}

// mapUpdatesOnField lists MapUpdate instructions whose map operand is a load of the field.
func mapUpdatesOnField(p *load.Program, fld *types.Var) []site {
	var out []site
	for _, f := range p.SrcFuncs("") {
		eachInstr(f, func(i ssa.Instruction) {
			if mu, ok := i.(*ssa.MapUpdate); ok && loadedField(mu.Map) == fld {
				out = append(out, site{f, i})
			}
		})
	}
	return out
}

// chanOps: a send on a channel, either a Send instruction or a send state of a Select.
type chanSend struct {
	Fn       *ssa.Function
	Instr    ssa.Instruction // *ssa.Send or *ssa.Select
	Chan     ssa.Value
	X        ssa.Value
	InSelect bool
	Blocking bool // bare send, or select without default
	State    int  // index of the state within the select
	NStates  int
}

func sendsIn(f *ssa.Function) []chanSend {
	var out []chanSend
	eachInstr(f, func(i ssa.Instruction) {
		switch x := i.(type) {
		case *ssa.Send:
			out = append(out, chanSend{Fn: f, Instr: x, Chan: x.Chan, X: x.X, Blocking: true, NStates: 1})
		case *ssa.Select:
			for k, st := range x.States {
				if st.Dir == types.SendOnly {
					out = append(out, chanSend{Fn: f, Instr: x, Chan: st.Chan, X: st.Send, InSelect: true, Blocking: x.Blocking, State: k, NStates: len(x.States)})
				}
			}
		}
	})
	return out
}

// allSends lists sends in root functions whose path has the prefix.
func allSends(p *load.Program, prefix string) []chanSend {
	var out []chanSend
	for _, f := range p.SrcFuncs(prefix) {
		out = append(out, sendsIn(f)...)
	}
	return out
}

// selectCaseBlock returns the block executed when state k of the select was chosen, found
// through the "select#0 == k" comparison chain, and the edge that enters it.
func selectCaseEdge(sel *ssa.Select, k int) (facts.Edge, bool) {
	fn := sel.Parent()
	for _, b := range fn.Blocks {
		if len(b.Instrs) == 0 {
			continue
		}
		iff, ok := b.Instrs[len(b.Instrs)-1].(*ssa.If)
		if !ok {
			continue
		}
		bo, ok := iff.Cond.(*ssa.BinOp)
		if !ok || bo.Op != token.EQL {
			continue
		}
		ex, ok := bo.X.(*ssa.Extract)
		if !ok || ex.Tuple != sel || ex.Index != 0 {
			continue
		}
		if cst, ok := bo.Y.(*ssa.Const); ok && cst.Value != nil && cst.Value.ExactString() == fmt.Sprint(k) {
			return facts.Edge{B: b.Index, K: 0}, true
		}
	}
	return facts.Edge{}, false
}

// reachableFuncs returns the functions of root packages reachable from the given roots through
// static calls, closures created, method values and `go`/`defer`, plus — conservatively — every
// root-package method that implements an interface method invoked dynamically.
func reachableFuncs(p *load.Program, roots ...*ssa.Function) map[*ssa.Function]bool {
	seen := map[*ssa.Function]bool{}
	var visit func(f *ssa.Function)
	srcByName := map[string][]*ssa.Function{}
	for _, f := range p.SrcFuncs("") {
		if f.Signature.Recv() != nil {
			srcByName[f.Name()] = append(srcByName[f.Name()], f)
		}
	}
	visit = func(f *ssa.Function) {
		if f == nil || seen[f] {
			return
		}
		seen[f] = true
		if len(f.Blocks) == 0 {
			return
		}
		eachInstr(f, func(i ssa.Instruction) {
			var ops []*ssa.Value
			for _, o := range i.Operands(ops) {
				if o == nil || *o == nil {
					continue
				}
				switch g := (*o).(type) {
				case *ssa.Function:
					visit(g)
				case *ssa.MakeClosure:
					visit(g.Fn.(*ssa.Function))
				}
			}
			if mc, ok := i.(*ssa.MakeClosure); ok {
				visit(mc.Fn.(*ssa.Function))
			}
			if ci, ok := i.(ssa.CallInstruction); ok && ci.Common().IsInvoke() {
				m := ci.Common().Method
				for _, g := range srcByName[m.Name()] {
					recv := g.Signature.Recv().Type()
					if iface, ok := ci.Common().Value.Type().Underlying().(*types.Interface); ok {
						if types.Implements(recv, iface) {
							visit(g)
						}
					}
				}
			}
		})
	}
	for _, r := range roots {
		visit(r)
	}
	return seen
}

func sortedFuncNames(m map[*ssa.Function]bool) []string {
	var out []string
	for f := range m {
		out = append(out, fname(f))
	}
	sort.Strings(out)
	return out
}

// contains is a tiny helper for atom predicates.
func contains(sub ...string) func(string) bool {
	return func(a string) bool {
		for _, s := range sub {
			if !strings.Contains(a, s) {
				return false
			}
		}
		return true
	}
}

// requireFacts checks that each named requirement is satisfied by some fact; returns the
// missing requirement names.
type req struct {
	Name string
	Pred func(atom string) bool
	// Exact matches the fact structurally by SSA value identity; such a fact is about immutable
	// registers and needs no memory-stability argument.
	Exact func(f facts.Fact) bool
}

func missing(fs []facts.Fact, reqs []req) []string {
	var miss []string
	for _, r := range reqs {
		ok := false
		for _, f := range fs {
			if (r.Pred != nil && r.Pred(f.Atom)) || (r.Exact != nil && r.Exact(f)) {
				ok = true
			}
		}
		if !ok {
			miss = append(miss, r.Name)
		}
	}
	return miss
}

// checkFacts records one obligation per requirement at the sink.
func (c *Ctx) checkFacts(p *load.Program, rule string, fn *ssa.Function, construct string, at ssa.Instruction, fs []facts.Fact, reqs []req) {
	key := c.R.Key(rule, shortFn(fn), construct)
	miss := missing(fs, reqs)
	pos := c.rel(p.Pos(at.Pos()))
	var names []string
	for _, r := range reqs {
		names = append(names, r.Name)
	}
	desc := fmt.Sprintf("%s in %s requires {%s}", construct, shortFn(fn), strings.Join(names, "; "))
	if len(miss) > 0 {
		c.R.Fail(rule, key, pos, desc, "missing must-hold fact(s) on some path to the sink: "+strings.Join(miss, "; "), facts.Atoms(fs)...)
		return
	}
	c.R.Pass(rule, key, pos, desc, "all required facts hold on every path", facts.Atoms(fs)...)
}

// instrPos returns a usable position for instructions that carry none (e.g. MapUpdate has one; If doesn't).
func instrPos(i ssa.Instruction) token.Pos {
	if i.Pos().IsValid() {
		return i.Pos()
	}
	// fall back to nearest instruction with a position in the block
	for _, x := range i.Block().Instrs {
		if x.Pos().IsValid() {
			return x.Pos()
		}
	}
	return token.NoPos
}

// ---- memory stability of facts -----------------------------------------------------------

// memFields collects the struct fields whose memory a value's expression reads (loads through
// FieldAddr, Field of loaded structs, map lookups on maps loaded from a field).
func memFields(v ssa.Value, out map[*types.Var]bool, seen map[ssa.Value]bool) {
	if v == nil || seen[v] {
		return
	}
	seen[v] = true
	switch x := v.(type) {
	case *ssa.UnOp:
		if x.Op == token.MUL {
			if f := fieldOfAddr(x.X); f != nil {
				out[f] = true
			}
		}
	}
	if ins, ok := v.(ssa.Instruction); ok {
		if _, isCall := v.(*ssa.Call); isCall {
			// arguments of a call are part of the expression, its internals are not
		}
		var ops []*ssa.Value
		for _, o := range ins.Operands(ops) {
			if o != nil && *o != nil {
				memFields(*o, out, seen)
			}
		}
	}
}

// writerIndex maps a field to the functions that contain a direct write to it: a Store through
// a FieldAddr of the field (not into a fresh allocation), a MapUpdate or delete on a map loaded
// from the field.
type writerIndex struct {
	p       *load.Program
	writers map[*types.Var]map[*ssa.Function]bool
	reach   map[*ssa.Function]map[*ssa.Function]bool
}

func newWriterIndex(p *load.Program) *writerIndex {
	w := &writerIndex{p: p, writers: map[*types.Var]map[*ssa.Function]bool{}, reach: map[*ssa.Function]map[*ssa.Function]bool{}}
	for _, f := range p.SrcFuncs("") {
		eachInstr(f, func(i ssa.Instruction) {
			if fld := writtenField(i); fld != nil {
				if w.writers[fld] == nil {
					w.writers[fld] = map[*ssa.Function]bool{}
				}
				w.writers[fld][f] = true
			}
		})
	}
	return w
}

// writtenField returns the field an instruction writes (see writerIndex), or nil.
func writtenField(i ssa.Instruction) *types.Var {
	switch x := i.(type) {
	case *ssa.Store:
		if fld := fieldOfAddr(x.Addr); fld != nil && !isFreshAlloc(x.Addr) {
			return fld
		}
	case *ssa.MapUpdate:
		return loadedField(x.Map)
	case *ssa.Call:
		if b, ok := x.Call.Value.(*ssa.Builtin); ok && b.Name() == "delete" && len(x.Call.Args) > 0 {
			return loadedField(x.Call.Args[0])
		}
	}
	return nil
}

// mayWrite reports whether executing instruction i can write field fld: directly, or through a
// call into a repository function from which a writer of fld is reachable.
func (w *writerIndex) mayWrite(i ssa.Instruction, fld *types.Var) bool {
	if writtenField(i) == fld {
		return true
	}
	ci, ok := i.(ssa.CallInstruction)
	if !ok || len(w.writers[fld]) == 0 {
		return false
	}
	var targets []*ssa.Function
	if f := ci.Common().StaticCallee(); f != nil {
		targets = append(targets, f)
	} else if ci.Common().IsInvoke() {
		// any repository method of that name
		for _, g := range w.p.SrcFuncs("") {
			if g.Signature.Recv() != nil && g.Name() == ci.Common().Method.Name() {
				targets = append(targets, g)
			}
		}
	} else {
		// dynamic call of a function value: closures created in this function
		for _, a := range ci.Parent().AnonFuncs {
			targets = append(targets, a)
		}
		if mc, ok := ci.Common().Value.(*ssa.MakeClosure); ok {
			targets = []*ssa.Function{mc.Fn.(*ssa.Function)}
		}
	}
	for _, t := range targets {
		r := w.reach[t]
		if r == nil {
			r = reachableFuncs(w.p, t)
			w.reach[t] = r
		}
		for wf := range w.writers[fld] {
			if r[wf] {
				return true
			}
		}
	}
	return false
}

// unstable returns a description of the first instruction between the fact's branch and the
// sink that may overwrite memory the fact's condition read; "" when the fact is stable.
func (w *writerIndex) unstable(f facts.Fact, sink ssa.Instruction) string {
	flds := map[*types.Var]bool{}
	memFields(f.Cond, flds, map[ssa.Value]bool{})
	if len(flds) == 0 || f.If == nil {
		return ""
	}
	fn := sink.Parent()
	if f.If.Parent() != fn {
		return ""
	}
	// blocks on some path If -> sink
	fwd := map[*ssa.BasicBlock]bool{}
	st := append([]*ssa.BasicBlock{}, f.If.Succs...)
	for len(st) > 0 {
		b := st[len(st)-1]
		st = st[:len(st)-1]
		if fwd[b] {
			continue
		}
		fwd[b] = true
		if b == sink.Block() {
			continue
		}
		st = append(st, b.Succs...)
	}
	bwd := map[*ssa.BasicBlock]bool{}
	st = []*ssa.BasicBlock{sink.Block()}
	for len(st) > 0 {
		b := st[len(st)-1]
		st = st[:len(st)-1]
		if bwd[b] {
			continue
		}
		bwd[b] = true
		if b == f.If {
			continue
		}
		st = append(st, b.Preds...)
	}
	for _, b := range fn.Blocks {
		if !(fwd[b] && bwd[b]) {
			continue
		}
		for _, i := range b.Instrs {
			if i == sink {
				break
			}
			for fld := range flds {
				if w.mayWrite(i, fld) {
					return fmt.Sprintf("field %s may be written by %q at %s between the test and the sink", fld.Name(), i.String(), w.p.Pos(instrPos(i)))
				}
			}
		}
	}
	return ""
}

// checkFactsStable is checkFacts plus the requirement that every matched fact over memory is
// not invalidated between its branch and the sink.
func (c *Ctx) checkFactsStable(p *load.Program, w *writerIndex, rule string, fn *ssa.Function, construct string, at ssa.Instruction, fs []facts.Fact, reqs []req) {
	key := c.R.Key(rule, shortFn(fn), construct)
	pos := c.rel(p.Pos(instrPos(at)))
	var names, miss []string
	for _, r := range reqs {
		names = append(names, r.Name)
		found, reason := false, ""
		for _, f := range fs {
			if r.Exact != nil && r.Exact(f) {
				found = true
				break
			}
			if r.Pred != nil && r.Pred(f.Atom) {
				if u := w.unstable(f, at); u != "" {
					reason = u
					continue
				}
				found = true
				break
			}
		}
		if !found {
			if reason != "" {
				miss = append(miss, r.Name+" ("+reason+")")
			} else {
				miss = append(miss, r.Name)
			}
		}
	}
	desc := fmt.Sprintf("%s in %s requires {%s}", construct, shortFn(fn), strings.Join(names, "; "))
	if len(miss) > 0 {
		c.R.Fail(rule, key, pos, desc, "missing must-hold fact(s) on some path to the sink: "+strings.Join(miss, "; "), facts.Atoms(fs)...)
		return
	}
	c.R.Pass(rule, key, pos, desc, "all required facts hold on every path and are not invalidated before the sink", facts.Atoms(fs)...)
}

// resolveThroughReturns follows a call to a static callee that has a single return statement with
// a single result to that result (which must not depend on the callee's parameters), up to depth.
func resolveThroughReturns(v ssa.Value, depth int) ssa.Value {
	for ; depth > 0; depth-- {
		// a local captured by a closure is spilled: a load of it with a single store is that value
		if u, ok := v.(*ssa.UnOp); ok && u.Op == token.MUL {
			if al, ok := u.X.(*ssa.Alloc); ok && al.Referrers() != nil {
				var stores []*ssa.Store
				for _, r := range *al.Referrers() {
					if st, ok := r.(*ssa.Store); ok && st.Addr == al {
						stores = append(stores, st)
					}
				}
				if len(stores) == 1 {
					v = stores[0].Val
				}
			}
		}
		cl, ok := v.(*ssa.Call)
		if !ok {
			return v
		}
		callee := cl.Call.StaticCallee()
		if callee == nil || len(callee.Blocks) == 0 || len(callee.Params) != 0 || len(callee.FreeVars) != 0 {
			return v
		}
		var rets []*ssa.Return
		eachInstr(callee, func(i ssa.Instruction) {
			if r, ok := i.(*ssa.Return); ok {
				rets = append(rets, r)
			}
		})
		if len(rets) != 1 || len(rets[0].Results) != 1 {
			return v
		}
		v = rets[0].Results[0]
	}
	return v
}
