package rules

import (
	"fmt"
	"go/ast"
	"go/constant"
	"go/token"
	"go/types"
	"strings"

	"golang.org/x/tools/go/ssa"

	"wvsa/internal/facts"
	"wvsa/internal/layout"
	"wvsa/internal/load"
)

func init() {
	register("C05", "Structural necessary conditions of the round trip, decided from source: (mirror) the ordered read table of vaa.Unmarshal equals the ordered write table of (*VAA).Marshal + serializeBody — same widths, byte order, loop structure and destination/source fields, with locals resolved to the VAA field they are stored into; (consume-all) the final variable-length read must be sized by the remaining input, a constant-sized buffer silently truncates accepted input; (short-read) every fixed-array Read has its byte count compared with the array length; (errors) on every path to the accepting return each read's error was tested nil, every error return yields a nil VAA, no panic instruction is reachable, data[0] is dominated by the length floor, and input-sized allocations are type-bounded. Value-level equality follows from mirror + consume-all + fixed widths; it is argued, not measured.", c05)
}

// vaaCodecTables extracts the normalised field sequences of Marshal and Unmarshal in package pkgPath
// of program p. Each element: "<field>:<width>[:loop]".
type codecItem struct {
	Field string
	Width int
	Loop  bool
	Order string
	Pos   token.Pos
	Ev    layout.Ev
}

func (ci codecItem) String() string {
	w := fmt.Sprint(ci.Width)
	if ci.Width < 0 {
		w = "rest"
	}
	l := ""
	if ci.Loop {
		l = " (per signature)"
	}
	return fmt.Sprintf("%s[%s]%s", ci.Field, w, l)
}

func c05(c *Ctx) {
	p, R := c.Node(), c.R
	R.Trust("go/types + go/ast + go/ssa", "encoding/binary, bytes.Reader and bytes.Buffer semantics (a Read into a buffer of the remaining length returns all remaining bytes)")
	loopVarRule(c, p, "C05.loopvar", pkgVAA)
	R.Assumption("value-level equality of the round trip is argued from mirror + consume-all + fixed widths, not measured")
	c05codec(c, p, pkgVAA, "C05")
}

// c05codec runs the C05 rules on the vaa package at pkgPath of program p.
func c05codec(c *Ctx, p *load.Program, pkgPath, prefix string) {
	R := c.R
	pk := must(p.ByPath[pkgPath], "package "+pkgPath)
	mfd := must(layout.FindFunc(pk, "VAA", "Marshal"), "vaa.(*VAA).Marshal")
	bfd := must(layout.FindFunc(pk, "VAA", "serializeBody"), "vaa.(*VAA).serializeBody")
	ufd := must(layout.FindFunc(pk, "", "Unmarshal"), "vaa.Unmarshal")
	recvOf := func(fd *ast.FuncDecl) string {
		if fd.Recv != nil && len(fd.Recv.List[0].Names) == 1 {
			return fd.Recv.List[0].Names[0].Name
		}
		return "v"
	}
	// ---- writer sequence
	var wseq []codecItem
	undec := ""
	norm := func(recv, f string) string {
		f = strings.ReplaceAll(f, recv+".", "")
		switch f {
		case "uint32(Timestamp.Unix())":
			return "Timestamp"
		case "uint8(len(Signatures))", "uint8(numSignatures)":
			return "len(Signatures)"
		case "sig.Index", "sig.Signature":
			return f
		case "Signatures[i].Index":
			return "sig.Index"
		case "Signatures[i].Signature":
			return "sig.Signature"
		}
		return f
	}
	for _, e := range layout.Extract(pk, mfd) {
		if e.Cond || e.Kind == "unknown" {
			undec = "conditional or unrecognised write in Marshal: " + e.String()
		}
		if e.Kind == "write-call" {
			if !strings.HasSuffix(e.Field, ".serializeBody") {
				undec = "Marshal appends the result of " + e.Field + ", not serializeBody"
			}
			for _, b := range writeEvents(p, pk, "VAA", "serializeBody") {
				if b.Cond || b.Kind != "write" || b.Loop > 0 {
					undec = "conditional, looped or unrecognised write in serializeBody: " + b.String()
				}
				wseq = append(wseq, codecItem{norm(recvOf(bfd), b.Field), b.Width, false, b.Order, b.Pos, b})
			}
			continue
		}
		if e.Loop > 0 && e.LoopX != "range "+recvOf(mfd)+".Signatures" && e.LoopX != "i < len("+recvOf(mfd)+".Signatures)" {
			undec = "Marshal loop does not range over the VAA's Signatures: " + e.LoopX
		}
		wseq = append(wseq, codecItem{norm(recvOf(mfd), e.Field), e.Width, e.Loop > 0, e.Order, e.Pos, e})
	}
	// ---- reader sequence: resolve locals to the VAA field they end up in
	uevs := layout.Extract(pk, ufd)
	vname, dataName := unmarshalNames(ufd)
	localTo := localDestinations(pk, ufd, vname)
	var rseq []codecItem
	// version byte read by index
	verPos, verOK := versionByte(pk, ufd, vname, dataName)
	if verOK {
		rseq = append(rseq, codecItem{"Version", 1, false, "", verPos, layout.Ev{}})
	}
	for _, e := range uevs {
		if e.Cond || e.Kind != "read" {
			undec = "conditional or unrecognised read in Unmarshal: " + e.String()
		}
		f := e.Field
		if strings.HasPrefix(f, vname+".") {
			f = strings.TrimPrefix(f, vname+".")
		} else if d, ok := localTo[f]; ok {
			f = d
		} else {
			undec = "cannot tell which VAA field the value read into `" + f + "` is stored in"
		}
		rseq = append(rseq, codecItem{f, e.Width, e.Loop > 0, e.Order, e.Pos, e})
	}
	pos := c.rel(p.Pos(ufd.Pos()))
	if undec != "" {
		R.Fail(prefix+".mirror", prefix+".mirror/undecided", pos, "Marshal/Unmarshal tables", "undecided: "+undec)
	}
	var ws, rs []string
	for _, x := range wseq {
		ws = append(ws, x.String())
	}
	for _, x := range rseq {
		rs = append(rs, x.String())
	}
	R.Sample(map[string]any{prefix + "_marshal_table": ws, prefix + "_unmarshal_table": rs})
	R.Floor(prefix+".mirror.fields", len(wseq), 13)
	if len(wseq) != len(rseq) {
		R.Fail(prefix+".mirror", prefix+".mirror/length", pos, "Marshal and Unmarshal tables have the same number of fields", fmt.Sprintf("writer %d fields %v; reader %d fields %v", len(wseq), ws, len(rseq), rs))
	} else {
		for i := range wseq {
			w, r := wseq[i], rseq[i]
			good := w.Field == r.Field && w.Width == r.Width && w.Loop == r.Loop
			if w.Order != "" && r.Order != "" && w.Order != r.Order {
				good = false
			}
			if w.Width > 1 && w.Order != "" && w.Order != "binary.BigEndian" {
				good = false
			}
			R.Check(prefix+".mirror", prefix+".mirror/"+w.Field, c.rel(p.Pos(r.Pos)), fmt.Sprintf("field #%d: written as %s, read as %s", i, w, r), good, fmt.Sprintf("writer order=%q reader order=%q", w.Order, r.Order))
		}
	}
	// reader input: bytes.NewReader(data[1:]) and loop bound = the count byte
	rdOK := false
	ast.Inspect(ufd.Body, func(n ast.Node) bool {
		if ce, ok := n.(*ast.CallExpr); ok && types.ExprString(ce.Fun) == "bytes.NewReader" && len(ce.Args) == 1 {
			rdOK = types.ExprString(ce.Args[0]) == dataName+"[1:]"
		}
		return true
	})
	R.Check(prefix+".mirror", prefix+".mirror/reader-start", pos, "the sequential reader starts right after the version byte (data[1:])", rdOK, "reader is not bytes.NewReader(data[1:])")
	for _, e := range uevs {
		if e.Loop > 0 {
			cnt := ""
			for l, d := range localTo {
				if d == "len(Signatures)" {
					cnt = l
				}
			}
			good := cnt != "" && (e.LoopX == "i < int("+cnt+")" || e.LoopX == "i < "+cnt)
			if !good && cnt != "" && strings.HasPrefix(e.LoopX, "range ") {
				// a range over the destination slice, which was made with exactly <count> elements
				dst := strings.TrimPrefix(e.LoopX, "range ")
				ast.Inspect(ufd.Body, func(n ast.Node) bool {
					as, ok := n.(*ast.AssignStmt)
					if !ok || len(as.Lhs) != 1 || len(as.Rhs) != 1 || types.ExprString(as.Lhs[0]) != dst {
						return true
					}
					if mk, ok := as.Rhs[0].(*ast.CallExpr); ok && types.ExprString(mk.Fun) == "make" && len(mk.Args) == 2 {
						sz := types.ExprString(mk.Args[1])
						if sz == "int("+cnt+")" || sz == cnt {
							good = true
						}
					}
					return true
				})
			}
			R.Check(prefix+".mirror", R.Key(prefix+".mirror", "Unmarshal", "loop-bound"), c.rel(p.Pos(e.Pos)), "the signature loop runs exactly <count byte> times", good, "loop condition: "+e.LoopX)
		}
	}

	// ---- consume-all
	if len(uevs) > 0 {
		last := uevs[len(uevs)-1]
		good := last.Width < 0 && last.BufSize == "remaining" && last.Loop == 0
		why := ""
		if !good {
			why = fmt.Sprintf("the final payload read uses a buffer sized %q: input longer than that is accepted but silently truncated (decode(encode(v)) != v and accepted bytes do not re-encode to themselves)", last.BufSize)
		}
		R.Check(prefix+".consume-all", prefix+".consume-all/Unmarshal/payload-read", c.rel(p.Pos(last.Pos)), "the final variable-length read takes all remaining input", good, why)
	}
	// ---- short-read: fixed-array reads compare the count
	nfix := 0
	ast.Inspect(ufd.Body, func(n ast.Node) bool {
		ifs, ok := n.(*ast.IfStmt)
		if !ok || ifs.Init == nil {
			return true
		}
		as, ok := ifs.Init.(*ast.AssignStmt)
		if !ok || len(as.Rhs) != 1 || len(as.Lhs) != 2 {
			return true
		}
		ce, ok := as.Rhs[0].(*ast.CallExpr)
		if !ok {
			return true
		}
		if types.ExprString(ce.Fun) == "io.ReadFull" && len(ce.Args) == 2 {
			// io.ReadFull returns an error unless the whole buffer was filled: testing that error
			// is the short-count test
			if sl, ok := ce.Args[1].(*ast.SliceExpr); ok {
				if arr, ok := pk.TypesInfo.TypeOf(sl.X).Underlying().(*types.Array); ok {
					nfix++
					cond := types.ExprString(ifs.Cond)
					R.Check(prefix+".short-read", R.Key(prefix+".short-read", "Unmarshal", "read:"+types.ExprString(sl.X)), c.rel(p.Pos(ce.Pos())),
						fmt.Sprintf("io.ReadFull into %s [%d bytes] rejects a short count", types.ExprString(sl.X), arr.Len()), strings.Contains(cond, types.ExprString(as.Lhs[1])+" != nil"), "condition: "+cond)
				}
			}
			return true
		}
		if !strings.HasSuffix(types.ExprString(ce.Fun), ".Read") || len(ce.Args) != 1 {
			return true
		}
		sl, ok := ce.Args[0].(*ast.SliceExpr)
		if !ok {
			return true
		}
		arr, ok := pk.TypesInfo.TypeOf(sl.X).Underlying().(*types.Array)
		if !ok {
			return true
		}
		nfix++
		nName := types.ExprString(as.Lhs[0])
		cond := types.ExprString(ifs.Cond)
		// `… || n != <array length>` with the length as a literal or a named constant
		okCnt := false
		if be, isBin := ifs.Cond.(*ast.BinaryExpr); isBin && be.Op == token.LOR {
			for _, side := range []ast.Expr{be.X, be.Y} {
				if ne, isNe := side.(*ast.BinaryExpr); isNe && ne.Op == token.NEQ && types.ExprString(ne.X) == nName {
					if tv, has := pk.TypesInfo.Types[ne.Y]; has && tv.Value != nil {
						if kv, exact := constant.Int64Val(tv.Value); exact && kv == arr.Len() {
							okCnt = true
						}
					}
				}
			}
		}
		R.Check(prefix+".short-read", R.Key(prefix+".short-read", "Unmarshal", "read:"+types.ExprString(sl.X)), c.rel(p.Pos(ce.Pos())),
			fmt.Sprintf("Read into %s [%d bytes] rejects a short count", types.ExprString(sl.X), arr.Len()), okCnt, "condition: "+cond)
		return true
	})
	R.Floor(prefix+".short-read", nfix, 2)
	c05errors(c, p, pkgPath, prefix)
}

func unmarshalNames(fd *ast.FuncDecl) (vname, dataName string) {
	dataName = "data"
	if len(fd.Type.Params.List) == 1 && len(fd.Type.Params.List[0].Names) == 1 {
		dataName = fd.Type.Params.List[0].Names[0].Name
	}
	vname = "v"
	ast.Inspect(fd.Body, func(n ast.Node) bool {
		if as, ok := n.(*ast.AssignStmt); ok && len(as.Lhs) == 1 && len(as.Rhs) == 1 {
			if types.ExprString(as.Rhs[0]) == "&VAA{}" {
				vname = types.ExprString(as.Lhs[0])
			}
		}
		return true
	})
	return
}

// versionByte finds `v.Version = data[0]`.
func versionByte(pk interface{}, fd *ast.FuncDecl, vname, dataName string) (token.Pos, bool) {
	var pos token.Pos
	ok := false
	ast.Inspect(fd.Body, func(n ast.Node) bool {
		if as, isAs := n.(*ast.AssignStmt); isAs && len(as.Lhs) == 1 && len(as.Rhs) == 1 {
			if types.ExprString(as.Lhs[0]) == vname+".Version" && types.ExprString(as.Rhs[0]) == dataName+"[0]" {
				pos, ok = as.Pos(), true
			}
		}
		return true
	})
	return pos, ok
}

// localDestinations maps a local variable that receives read bytes to the VAA field it is stored into.
func localDestinations(pk interface{}, fd *ast.FuncDecl, vname string) map[string]string {
	out := map[string]string{}
	// names that stand for the VAA's signature list: v.Signatures and every local that is
	// (transitively) assigned to it — `sigs := make(…); …; v.Signatures = sigs`, possibly through
	// the result variable of an inlined helper
	sigAlias := map[string]bool{vname + ".Signatures": true}
	for round := 0; round < 4; round++ {
		ast.Inspect(fd.Body, func(n ast.Node) bool {
			as, ok := n.(*ast.AssignStmt)
			if !ok || len(as.Lhs) != len(as.Rhs) {
				return true
			}
			for k := range as.Lhs {
				if id, isID := as.Rhs[k].(*ast.Ident); isID && sigAlias[types.ExprString(as.Lhs[k])] {
					sigAlias[id.Name] = true
				}
			}
			return true
		})
	}
	isSigElem := func(lhs string) bool {
		for a := range sigAlias {
			if strings.HasPrefix(lhs, a+"[") {
				return true
			}
		}
		return false
	}
	ast.Inspect(fd.Body, func(n ast.Node) bool {
		as, ok := n.(*ast.AssignStmt)
		if !ok || len(as.Lhs) != 1 || len(as.Rhs) != 1 {
			return true
		}
		lhs, rhs := types.ExprString(as.Lhs[0]), types.ExprString(as.Rhs[0])
		switch {
		case sigAlias[lhs] && strings.HasPrefix(rhs, "make([]*Signature, "):
			out[strings.TrimSuffix(strings.TrimPrefix(rhs, "make([]*Signature, "), ")")] = "len(Signatures)"
		case isSigElem(lhs):
			if ue, ok := as.Rhs[0].(*ast.UnaryExpr); ok {
				if cl, ok := ue.X.(*ast.CompositeLit); ok {
					for _, el := range cl.Elts {
						if kv, ok := el.(*ast.KeyValueExpr); ok {
							out[types.ExprString(kv.Value)] = "sig." + types.ExprString(kv.Key)
						}
					}
				}
			}
		case lhs == vname+".Timestamp":
			if strings.HasPrefix(rhs, "time.Unix(int64(") && strings.HasSuffix(rhs, "), 0)") {
				out[strings.TrimSuffix(strings.TrimPrefix(rhs, "time.Unix(int64("), "), 0)")] = "Timestamp"
			}
		case strings.HasPrefix(lhs, vname+"."):
			f := strings.TrimPrefix(lhs, vname+".")
			if id, ok := as.Rhs[0].(*ast.Ident); ok {
				out[id.Name] = f
			}
			if sl, ok := as.Rhs[0].(*ast.SliceExpr); ok && sl.Low == nil {
				if id, ok := sl.X.(*ast.Ident); ok {
					out[id.Name] = f
				}
			}
		}
		return true
	})
	return out
}

// c05errors: error discipline on SSA.
func c05errors(c *Ctx, p *load.Program, pkgPath, prefix string) {
	R := c.R
	c05marshalTotal(c, p, pkgPath, prefix)
	um := must(p.Func(pkgPath, "Unmarshal"), "vaa.Unmarshal")
	var accept []*ssa.Return
	eachInstr(um, func(i ssa.Instruction) {
		r, ok := i.(*ssa.Return)
		if !ok || len(r.Results) != 2 {
			return
		}
		if isNilConst(r.Results[1]) {
			accept = append(accept, r)
			return
		}
		// error return: the VAA result must be nil
		R.Check(prefix+".errors", R.Key(prefix+".errors", "Unmarshal", "return:error"), c.rel(p.Pos(instrPos(r))), "an error return yields a nil VAA (no partially filled value escapes)", isNilConst(r.Results[0]), "returns "+facts.Term(r.Results[0])+" together with an error")
	})
	if len(accept) != 1 {
		R.Fail(prefix+".errors", prefix+".errors/Unmarshal/accepting-returns", c.rel(p.Pos(um.Pos())), "exactly one accepting return", fmt.Sprintf("undecided: %d accepting returns", len(accept)))
		return
	}
	acc := accept[0]
	// an input that ends right after the fixed-width body fields (empty payload) is rejected: on
	// the accepted path either the last read went through (*bytes.Reader).Read without error (which
	// reports io.EOF at the end of the input, even for an empty buffer), or the remaining length /
	// the number of payload bytes read was tested to be non-zero. io.ReadFull into a zero-length
	// buffer succeeds, so its nil error alone does not exclude the empty payload.
	{
		fs := facts.At(acc, nil)
		nonEmpty := false
		for _, f := range fs {
			a := f.Atom
			if strings.HasPrefix(a, "(*bytes.Reader).Read(") && strings.HasSuffix(a, "#1 == nil") && strings.Contains(a, "(*bytes.Reader).Len(") {
				nonEmpty = true
			}
			x, op, y, ok := cmpOf(f)
			if !ok || (op != token.NEQ && op != token.LSS) {
				continue
			}
			for _, pr := range [][2]ssa.Value{{x, y}, {y, x}} {
				if k, isK := constInt(pr[0]); !isK || k != 0 {
					continue
				}
				if op == token.LSS && pr[0] != x {
					continue // only 0 < e
				}
				t := facts.Term(pr[1])
				if strings.HasPrefix(t, "(*bytes.Reader).Len(") || strings.HasPrefix(t, "(*bytes.Reader).Read(") && strings.HasSuffix(t, "#0") || strings.HasPrefix(t, "len(") && strings.Contains(t, "(*bytes.Reader).Len(") {
					nonEmpty = true
				}
			}
		}
		R.Check(prefix+".errors", prefix+".errors/Unmarshal/empty-payload-rejected", c.rel(p.Pos(instrPos(acc))), "an input that ends right after the fixed-width body fields is rejected (the payload is never empty)", nonEmpty,
			"no fact on the accepted path excludes an empty payload: an input truncated exactly at the payload boundary is accepted (io.ReadFull into a zero-length buffer returns nil)")
	}
	// every field of the result is assigned on every accepted path, whatever value was decoded:
	// a store that is skipped for some decoded values (say, "0 means unset") makes the decoded VAA
	// differ from the encoded one for exactly those values
	if vt := p.Named(pkgPath, "VAA"); vt != nil {
		st := vt.Underlying().(*types.Struct)
		nf := 0
		for k := 0; k < st.NumFields(); k++ {
			fld := st.Field(k)
			nf++
			defined := facts.Before(acc, func(i ssa.Instruction) bool {
				isFieldAddr := func(v ssa.Value) bool {
					for {
						switch x := v.(type) {
						case *ssa.Slice:
							v = x.X
							continue
						case *ssa.IndexAddr:
							v = x.X
							continue
						case *ssa.MakeInterface:
							v = x.X
							continue
						case *ssa.ChangeType:
							v = x.X
							continue
						}
						break
					}
					fa, ok := v.(*ssa.FieldAddr)
					return ok && fieldOfAddr(fa) == fld
				}
				switch x := i.(type) {
				case *ssa.Store:
					return isFieldAddr(x.Addr)
				case *ssa.Call:
					for _, a := range x.Call.Args {
						if isFieldAddr(a) {
							return true
						}
					}
				}
				return false
			})
			R.Check(prefix+".mirror", R.Key(prefix+".mirror", "Unmarshal", "assigned:"+fld.Name()), c.rel(p.Pos(instrPos(acc))), "field "+fld.Name()+" of the decoded VAA is assigned on every accepted path, independently of the decoded value", defined,
				"some accepted path skips the assignment of "+fld.Name()+" (it keeps its zero value for some inputs, so decode(encode(v)) differs from v and re-encodes to different bytes)")
		}
		R.Floor(prefix+".mirror.assigned", nf, 11)
	}
	// nothing re-arranges the decoded value afterwards: the result and its fields are not handed to
	// any function (sorting the signatures "into canonical order", normalising a field …) — what
	// Unmarshal returns is what the bytes say, so that it re-encodes to the same bytes
	if vAlloc := c05resultAlloc(um); vAlloc != nil {
		npost := 0
		eachInstr(um, func(i ssa.Instruction) {
			ci, ok := i.(ssa.CallInstruction)
			if !ok {
				return
			}
			name := facts.CalleeName(ci.Common())
			if name == "encoding/binary.Read" || name == "io.ReadFull" || name == "io.ReadAtLeast" || name == "(*bytes.Reader).Read" || strings.HasPrefix(name, "fmt.") || name == "len" || name == "cap" {
				return
			}
			for _, a := range ci.Common().Args {
				v := strip(a)
				// (the variable may live in a cell when a closure captures it)
				isV := func(x ssa.Value) bool {
					if x == ssa.Value(vAlloc) || resolveSpill(x) == ssa.Value(vAlloc) {
						return true
					}
					if cell, ok := x.(*ssa.Alloc); ok && cell.Referrers() != nil {
						for _, r := range *cell.Referrers() {
							if st, ok := r.(*ssa.Store); ok && st.Addr == ssa.Value(cell) && st.Val == ssa.Value(vAlloc) {
								return true
							}
						}
					}
					return false
				}
				touches := isV(v)
				if u, isLd := v.(*ssa.UnOp); isLd {
					if fa, isFa := u.X.(*ssa.FieldAddr); isFa && isV(fa.X) {
						touches = true
					}
				}
				if mc, isMC := v.(*ssa.MakeClosure); isMC {
					for _, b := range mc.Bindings {
						if isV(b) {
							touches = true
						}
					}
				}
				if touches {
					npost++
					R.Check(prefix+".mirror", R.Key(prefix+".mirror", "Unmarshal", "post-processing:"+name), c.rel(p.Pos(instrPos(i))), "the decoded VAA is not re-arranged after decoding", false,
						"the decoded value (or one of its fields) is passed to "+name+": if that changes it (sorting, normalising), accepted bytes no longer re-encode to themselves")
				}
			}
		})
		R.Count("unmarshal_post_processing_calls", npost)
	} else {
		R.Fail(prefix+".mirror", prefix+".mirror/Unmarshal/result", c.rel(p.Pos(um.Pos())), "the VAA returned by Unmarshal", "undecided: the accepted return does not yield a locally built VAA")
	}
	fs := facts.At(acc, nil)
	loops := facts.LoopsOf(um)
	n := 0
	eachInstr(um, func(i ssa.Instruction) {
		cl, ok := i.(*ssa.Call)
		if !ok {
			return
		}
		name := facts.CalleeName(&cl.Call)
		var want string
		switch name {
		case "encoding/binary.Read":
			want = facts.Term(cl) + " == nil"
		case "(*bytes.Reader).ReadByte", "(*bytes.Reader).Read", "io.ReadFull", "io.ReadAll":
			want = facts.Term(cl) + "#1 == nil"
		default:
			return
		}
		n++
		use := fs
		where := "at the accepting return"
		for _, l := range loops {
			if l.Body()[cl.Block()] {
				use = l.IterationFacts(nil)
				where = "in every completed loop iteration"
			}
		}
		R.Check(prefix+".errors", R.Key(prefix+".errors", "Unmarshal", "call:"+name), c.rel(p.Pos(cl.Pos())), "the error of "+name+" is tested and is nil "+where, facts.HasAtom(use, want), "missing fact "+want, facts.Atoms(use)...)
	})
	R.Floor(prefix+".errors.reads", n, 11)
	// no panic instruction in Unmarshal or repository callees
	np := 0
	for f := range reachableFuncs(p, um) {
		if f.Pkg == nil || !p.IsRoot(f.Pkg.Pkg.Path()) {
			continue
		}
		eachInstr(f, func(i ssa.Instruction) {
			if _, ok := i.(*ssa.Panic); ok {
				np++
				R.Fail(prefix+".errors", R.Key(prefix+".errors", shortFn(f), "panic"), c.rel(p.Pos(i.Pos())), "explicit panic reachable from Unmarshal", "decoder must return errors, not panic")
			}
		})
	}
	R.Pass(prefix+".errors", prefix+".errors/Unmarshal/no-panic", "", fmt.Sprintf("no explicit panic instruction in Unmarshal or its repository callees (%d found)", np), "scan of reachable repository functions")
	// constant index data[k] dominated by len(data) >= K > k
	eachInstr(um, func(i ssa.Instruction) {
		ia, ok := i.(*ssa.IndexAddr)
		if !ok || ia.X != um.Params[0] {
			return
		}
		k, isK := constInt(ia.Index)
		good := false
		for _, f := range facts.At(ia, nil) {
			x, op, y, ok := cmpOf(f)
			if !ok {
				continue
			}
			if kk, isC := constInt(x); isC && lenOf(y) == um.Params[0] && isK && (op == token.LEQ && kk > k || op == token.LSS && kk >= k) {
				good = true
			}
		}
		R.Check(prefix+".errors", R.Key(prefix+".errors", "Unmarshal", "index:data"), c.rel(p.Pos(ia.Pos())), fmt.Sprintf("data[%d] is dominated by a length floor", k), good, "no dominating len(data) >= K")
	})
	// input-sized allocations are bounded
	eachInstr(um, func(i ssa.Instruction) {
		ms, ok := i.(*ssa.MakeSlice)
		if !ok {
			return
		}
		good, how := false, facts.Term(ms.Len)
		if _, isC := constInt(ms.Len); isC {
			good = true
		}
		if b, ok := strip(ms.Len).Type().Underlying().(*types.Basic); ok && (b.Kind() == types.Uint8 || b.Kind() == types.Uint16) {
			good = true
		}
		if cl := asCall(ms.Len, "(*bytes.Reader).Len"); cl != nil {
			good = true // bounded by the input length
		}
		R.Check(prefix+".errors", R.Key(prefix+".errors", "Unmarshal", "makeslice"), c.rel(p.Pos(ms.Pos())), "allocation size is constant, type-bounded (<=65535) or bounded by the input length", good, "size = "+how)
	})
}

// c05resultAlloc: the VAA that Unmarshal fills in and returns.
func c05resultAlloc(um *ssa.Function) *ssa.Alloc {
	var out *ssa.Alloc
	eachInstr(um, func(i ssa.Instruction) {
		if r, ok := i.(*ssa.Return); ok && len(r.Results) == 2 {
			if al, ok := resolveSpill(r.Results[0]).(*ssa.Alloc); ok {
				out = al
			}
		}
	})
	return out
}

// c05marshalTotal: Marshal fails only for a VAA the format cannot hold (more than 255 signatures).
func c05marshalTotal(c *Ctx, p *load.Program, pkgPath, prefix string) {
	R := c.R
	mf := must(p.Method(pkgPath, "VAA", "Marshal"), "vaa.(*VAA).Marshal")
	n := 0
	eachInstr(mf, func(i ssa.Instruction) {
		r, ok := i.(*ssa.Return)
		if !ok || len(r.Results) != 2 || r.Block().Comment == "recover" {
			return
		}
		n++
		if isNilConst(r.Results[1]) {
			return
		}
		fs := facts.Atoms(acceptFacts(r))
		okRej := false
		for _, at := range fs {
			if at == "255 < len(v.Signatures)" || at == "256 <= len(v.Signatures)" {
				okRej = true
			}
		}
		R.Check(prefix+".mirror", R.Key(prefix+".mirror", "Marshal", "error-return"), c.rel(p.Pos(instrPos(r))), "Marshal refuses a VAA only when it has more than 255 signatures (the count is one byte)", okRej,
			"an encodable VAA is refused under facts "+strings.Join(fs, "; "))
	})
	R.Floor(prefix+".mirror.marshal-returns", n, 1)
}
