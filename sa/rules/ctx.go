// Package rules holds one file per property: anchors, rule instances and idiom tables.
package rules

import (
	"fmt"
	"os"
	"path/filepath"
	"sort"
	"strings"

	"wvsa/internal/facts"
	"wvsa/internal/load"
	"wvsa/internal/report"
)

const (
	NodeMod     = "github.com/alephium/wormhole-fork/node"
	ExplorerMod = "github.com/alephium/wormhole-fork/explorer-backend"
	N           = NodeMod + "/pkg/"
	NCmd        = NodeMod + "/cmd/"
)

// Ctx is the per-run context shared by all rules of one property.
type Ctx struct {
	Repo    string
	Verif   string
	Tier    string
	Overlay map[string][]byte // absolute path -> content (self-test only)
	R       *report.Rep

	node, explorer  *load.Program
	nodeErr, expErr error
}

// Node loads module /repo/node (all packages as roots, hybrid mode) once.
func (c *Ctx) Node() *load.Program {
	if c.node == nil && c.nodeErr == nil {
		c.node, c.nodeErr = load.Load(load.Options{
			Dir: filepath.Join(c.Repo, "node"), Patterns: []string{"./pkg/...", "./cmd/..."},
			Overlay: c.Overlay, MinRoots: 31, Reviewed: reviewedFunc(),
		})
		if c.nodeErr == nil {
			noteInline(c, c.node)
			c.R.Count("node.root_packages", len(c.node.Roots))
			c.R.Count("node.packages_visited", c.node.Visited)
			c.R.Note("node load: %d roots, %d packages visited, error packages %v, %.1fs", len(c.node.Roots), c.node.Visited, c.node.ErrPkgs, c.node.LoadTime.Seconds())
		}
	}
	if c.nodeErr != nil {
		panic(Undecided{fmt.Sprintf("cannot load node module: %v", c.nodeErr)})
	}
	return c.node
}

// Explorer loads module /repo/explorer-backend plus the pinned node packages it links.
func (c *Ctx) Explorer() *load.Program {
	if c.explorer == nil && c.expErr == nil {
		c.explorer, c.expErr = load.Load(load.Options{
			Dir:      filepath.Join(c.Repo, "explorer-backend"),
			Patterns: []string{"./...", NodeMod + "/pkg/vaa", NodeMod + "/pkg/processor"},
			Overlay:  c.Overlay, MinRoots: 12, Reviewed: reviewedFunc(),
		})
		if c.expErr == nil {
			noteInline(c, c.explorer)
			c.R.Count("explorer.root_packages", len(c.explorer.Roots))
			c.R.Count("explorer.packages_visited", c.explorer.Visited)
			c.R.Note("explorer load: %d roots, %d packages visited, error packages %v, %.1fs", len(c.explorer.Roots), c.explorer.Visited, c.explorer.ErrPkgs, c.explorer.LoadTime.Seconds())
		}
	}
	if c.expErr != nil {
		panic(Undecided{fmt.Sprintf("cannot load explorer module: %v", c.expErr)})
	}
	return c.explorer
}

// ReadFile reads a repository file (overlay-aware), path relative to the repository root.
func (c *Ctx) ReadFile(rel string) string {
	abs := filepath.Join(c.Repo, rel)
	if b, ok := c.Overlay[abs]; ok {
		return string(b)
	}
	b, err := os.ReadFile(abs)
	if err != nil {
		panic(Undecided{fmt.Sprintf("cannot read %s: %v", rel, err)})
	}
	c.R.Count("contract_files_parsed", 1)
	return string(b)
}

// Undecided is panicked by helpers when an anchor cannot be resolved or a shape is outside
// the idiom table; the driver turns it into a failed obligation.
type Undecided struct{ Why string }

func (u Undecided) Error() string { return "undecided: " + u.Why }

func must[T comparable](v T, what string) T {
	var zero T
	if v == zero {
		panic(Undecided{"anchor not found: " + what})
	}
	return v
}

// Rule is a property's rule set.
type Rule func(c *Ctx)

var Registry = map[string]Rule{}

var Explain = map[string]string{}

func register(id string, explain string, r Rule) {
	Registry[id] = r
	Explain[id] = explain
}

func IDs() []string {
	var out []string
	for k := range Registry {
		out = append(out, k)
	}
	sort.Strings(out)
	return out
}

// rel makes positions relative to the repository root for stable, readable reports.
func (c *Ctx) rel(pos string) string {
	return strings.TrimPrefix(pos, strings.TrimSuffix(c.Repo, "/")+"/")
}

// reviewedFunc: membership in the reviewed tree's function list (nil when no list is available,
// which switches helper normalisation off).
func reviewedFunc() func(string) bool {
	if len(facts.PinnedFuncs) == 0 {
		return nil
	}
	return func(name string) bool { return facts.PinnedFuncs[name] }
}

func noteInline(c *Ctx, p *load.Program) {
	if len(p.InlinedSites) > 0 {
		c.R.Note("helper normalisation: %d call site(s) of functions absent from the reviewed tree were inlined before analysis: %s", len(p.InlinedSites), strings.Join(p.InlinedSites, "; "))
		c.R.Count("inlined_call_sites", len(p.InlinedSites))
	}
	if len(p.InlineSkipped) > 0 {
		c.R.Note("helper normalisation left %d call site(s) alone: %s", len(p.InlineSkipped), strings.Join(p.InlineSkipped, "; "))
	}
	if p.InlineNote != "" {
		c.R.Note("%s", p.InlineNote)
	}
}
