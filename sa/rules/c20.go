package rules

import (
	"fmt"
	"go/token"
	"go/types"
	"sort"
	"strings"
	"wvsa/internal/load"

	"golang.org/x/tools/go/ssa"

	"wvsa/internal/facts"
)

const pkgSpy = NCmd + "spy"

func init() {
	register("C20", "Static rules on cmd/spy SSA (type-checked from source): (match) every send on subscription.ch is a discovered sink and must lie on paths that pass either `len(sub.filters) == 0` or both `fi.chainId == v.EmitterChain` and `fi.emitterAddr == v.EmitterAddress` for an element fi of that subscriber's filters, with v decoded from the published bytes, and the message sent carries exactly those bytes; subscribers are enumerated by ranging over the whole map with no early exit other than an undecodable VAA; (no-block-under-lock) lock-state data flow over spyServer.subsMu: no channel operation that is not a select-with-default and no gRPC Send may execute while the mutex is held; (lockset) every access to spyServer.subs holds subsMu and removal of a subscription is deferred. The independence clause under scheduling (a stalled subscriber must not affect others) is decided only through the no-block-under-lock necessary condition.", c20)
}

func c20(c *Ctx) {
	p, R := c.Node(), c.R
	R.Trust("go/types + go/ssa", "sync.Mutex and channel semantics", "gRPC stream Send may block on a slow client")
	loopVarRule(c, p, "C20.loopvar", pkgSpy)
	R.Assumption("actual interleavings are not explored; blocking-under-lock is the structural necessary condition for independence")
	pub := must(p.Method(pkgSpy, "spyServer", "Publish"), "spy.(*spyServer).Publish")
	subF := must(p.FieldOf(pkgSpy, "spyServer", "subs"), "spyServer.subs")
	mu := must(p.FieldOf(pkgSpy, "spyServer", "subsMu"), "spyServer.subsMu")
	chF := must(p.FieldOf(pkgSpy, "subscription", "ch"), "subscription.ch")

	// ---- match
	n := 0
	for _, sd := range allSends(p, pkgSpy) {
		if loadedField(sd.Chan) != chF {
			continue
		}
		n++
		key := R.Key("C20.match", shortFn(sd.Fn), "send:sub.ch")
		pos := c.rel(p.Pos(sd.Instr.Pos()))
		if sd.Fn != pub {
			R.Fail("C20.match", key, pos, "delivery outside Publish", "messages may only be delivered by Publish")
			continue
		}
		sub := strings.TrimSuffix(facts.Term(sd.Chan), ".ch")
		fs := facts.At(sd.Instr, nil)
		noFilter := facts.HasAtom(fs, "0 == len("+sub+".filters)") || facts.HasAtom(fs, "len("+sub+".filters) <= 0")
		match := false
		var chainOK, addrOK bool
		// the filter under test: an element of this subscriber's filters (possibly copied into a local)
		fiOK := map[string]bool{}
		eachInstr(pub, func(i ssa.Instruction) {
			if st, ok := i.(*ssa.Store); ok {
				if al, ok := st.Addr.(*ssa.Alloc); ok && facts.Term(st.Val) == sub+".filters[(phi:rangeindex + 1)]" {
					fiOK["local:"+al.Comment] = true
				}
			}
		})
		for _, f := range fs {
			a := f.Atom
			for fi := range fiOK {
				if strings.HasPrefix(a, fi+".chainId == ") && strings.HasSuffix(a, ".EmitterChain") {
					chainOK = true
				}
				if strings.HasPrefix(a, fi+".emitterAddr == ") && strings.HasSuffix(a, ".EmitterAddress") {
					addrOK = true
				}
			}
			if strings.Contains(a, ".chainId == ") && strings.Contains(a, ".EmitterChain") && strings.HasPrefix(a, sub+".filters[") {
				chainOK = true
			}
			if strings.Contains(a, ".emitterAddr == ") && strings.Contains(a, ".EmitterAddress") && strings.HasPrefix(a, sub+".filters[") {
				addrOK = true
			}
			if strings.Contains(a, ".EmitterChain == "+sub+".filters[") {
				chainOK = true
			}
			if strings.Contains(a, ".EmitterAddress == "+sub+".filters[") {
				addrOK = true
			}
			// the 32-byte arrays compared as slices
			if strings.HasPrefix(a, "bytes.Equal(") && strings.Contains(a, sub+".filters[") && strings.Contains(a, ".emitterAddr[:]") && strings.Contains(a, ".EmitterAddress[:]") {
				addrOK = true
			}
		}
		// the filter compared as a whole with a filter value built from the decoded VAA's emitter
		// (`sub.filters[i] == emitter`, emitter = filter{v.EmitterChain, v.EmitterAddress})
		wholeFromDecoded := false
		for _, f := range fs {
			x, op, y, isCmp := cmpOf(f)
			if !isCmp || op != token.EQL {
				continue
			}
			for _, pr := range [][2]ssa.Value{{x, y}, {y, x}} {
				if !strings.HasPrefix(facts.Term(pr[0]), sub+".filters[") {
					continue
				}
				ld, isLd := strip(pr[1]).(*ssa.UnOp)
				if !isLd || ld.Op != token.MUL {
					continue
				}
				em, isAl := ld.X.(*ssa.Alloc)
				if !isAl || em.Referrers() == nil {
					continue
				}
				// every store into the compared value sets chainId/emitterAddr from one decoded VAA
				okAll, nst := true, 0
				var src ssa.Value
				for _, r := range *em.Referrers() {
					fa, isFA := r.(*ssa.FieldAddr)
					if !isFA || fa.Referrers() == nil {
						if st, isSt := r.(*ssa.Store); isSt && st.Addr == ssa.Value(em) {
							okAll = false // whole-struct assignment from somewhere else
						}
						continue
					}
					for _, rr := range *fa.Referrers() {
						st, isSt := rr.(*ssa.Store)
						if !isSt || st.Addr != ssa.Value(fa) {
							continue
						}
						nst++
						base, fld := fieldLoad(st.Val)
						wantF := map[string]string{"chainId": "EmitterChain", "emitterAddr": "EmitterAddress"}[fieldOfAddr(fa).Name()]
						if fld == nil || fld.Name() != wantF {
							okAll = false
							continue
						}
						if src == nil {
							src = base
						} else if facts.Term(src) != facts.Term(base) {
							okAll = false
						}
					}
				}
				if okAll && nst >= 2 && src != nil {
					good, nl := true, 0
					for _, leaf := range valueLeaves(src) {
						if isNilConst(leaf) {
							continue
						}
						nl++
						if facts.Term(leaf) != "N/vaa.Unmarshal(vaaBytes)#0" {
							good = false
						}
					}
					if good && nl > 0 {
						chainOK, addrOK, wholeFromDecoded = true, true, true
					}
				}
			}
		}
		match = chainOK && addrOK
		// v comes from Unmarshal of the published bytes
		vOK := true
		if match && !wholeFromDecoded {
			vOK = false
			for _, f := range fs {
				if f.Atom == "N/vaa.Unmarshal(vaaBytes)#1 == nil" {
					vOK = true
				}
			}
			// the VAA whose emitter is compared: every leaf of that value is nil (not decoded yet)
			// or the result of Unmarshal(vaaBytes) — whatever the variable is called
			for _, f := range fs {
				x, _, y, isCmp := cmpOf(f)
				if !isCmp {
					continue
				}
				for _, side := range []ssa.Value{x, y} {
					ld, ok := strip(side).(*ssa.UnOp)
					if !ok {
						continue
					}
					fa, ok := ld.X.(*ssa.FieldAddr)
					if !ok || fieldOfAddr(fa).Name() != "EmitterChain" {
						continue
					}
					good, nl := true, 0
					for _, leaf := range valueLeaves(fa.X) {
						if isNilConst(leaf) {
							continue
						}
						nl++
						if facts.Term(leaf) != "N/vaa.Unmarshal(vaaBytes)#0" {
							good = false
						}
					}
					if good && nl > 0 {
						vOK = true
					}
				}
			}
			// v may have been decoded in an earlier iteration (cached); then the phi's leaves are nil or that call
			eachInstr(pub, func(i ssa.Instruction) {
				if ph, ok := i.(*ssa.Phi); ok && facts.LocalName(ph.Parent(), ph.Comment) == "v" {
					good := true
					for _, leaf := range phiLeaves(ph) {
						if isNilConst(leaf) {
							continue
						}
						if facts.Term(leaf) != "N/vaa.Unmarshal(vaaBytes)#0" {
							good = false
						}
					}
					if good {
						vOK = true
					}
				}
			})
		}
		// message content
		msgOK := false
		if al, ok := resolveSpill(sd.X).(*ssa.Alloc); ok {
			vals, _ := allocStores(al)
			msgOK = termOrNil(vals["vaaBytes"]) == "vaaBytes"
		} else {
			msgOK = strings.Contains(facts.Term(sd.X), "vaaBytes")
			if u, ok := sd.X.(*ssa.UnOp); ok {
				if al, ok := u.X.(*ssa.Alloc); ok {
					vals, _ := allocStores(al)
					msgOK = termOrNil(vals["vaaBytes"]) == "vaaBytes"
				}
			}
		}
		R.Check("C20.match", key, pos, "a VAA is delivered to a subscriber only if it has no filters or one of its filters equals the VAA's (emitter chain, emitter address), and the bytes delivered are the published bytes",
			(noFilter || match) && vOK && msgOK, fmt.Sprintf("no-filter fact=%v chain-eq=%v addr-eq=%v decoded-from-published-bytes=%v message-bytes-ok=%v", noFilter, chainOK, addrOK, vOK, msgOK), facts.Atoms(fs)...)
		R.Sample(map[string]any{"sink": "send " + facts.Term(sd.Chan), "facts": facts.Atoms(fs)})
	}
	R.Floor("C20.match", n, 2)
	// completeness: Publish ranges over s.subs; the only return inside the loop is the decode error
	rangesSubs := false
	eachInstr(pub, func(i ssa.Instruction) {
		if rg, ok := i.(*ssa.Range); ok && loadedField(rg.X) == subF {
			rangesSubs = true
		}
	})
	R.Check("C20.match", "C20.match/Publish/enumerates-all", c.rel(p.Pos(pub.Pos())), "Publish ranges over the whole subscription map", rangesSubs, "no range over s.subs")
	for _, r := range acceptingReturns(pub) {
		fs := facts.Atoms(acceptFacts(r))
		ok := false
		for _, a := range fs {
			if a == "!next(range(s.subs))#0" {
				ok = true
			}
		}
		R.Check("C20.match", R.Key("C20.match", shortFn(pub), "normal-return"), c.rel(p.Pos(instrPos(r))), "Publish returns normally only after the range over all subscriptions is exhausted", ok, "a nil return is reachable from inside the delivery loop: "+strings.Join(fs, ";"))
	}
	for _, r := range nonAcceptingReturns(pub) {
		fs := facts.Atoms(acceptFacts(r))
		ok := false
		for _, a := range fs {
			if a == "N/vaa.Unmarshal(vaaBytes)#1 != nil" {
				ok = true
			}
		}
		if !ok && len(r.Results) > 0 {
			// the decode error handed back by a local (memoising) helper: the returned error is, on
			// every way, nil or the error of Unmarshal(vaaBytes), and it is non-nil here
			for _, f := range acceptFacts(r) {
				x, op, y, isCmp := cmpOf(f)
				if !isCmp || op != token.NEQ || !isNilConst(y) {
					continue
				}
				good, nl := true, 0
				for _, leaf := range valueLeaves(x) {
					if isNilConst(leaf) {
						continue
					}
					nl++
					if facts.Term(leaf) != "N/vaa.Unmarshal(vaaBytes)#1" {
						good = false
					}
				}
				if good && nl > 0 {
					ok = true
				}
			}
		}
		R.Check("C20.match", R.Key("C20.match", shortFn(pub), "early-return"), c.rel(p.Pos(instrPos(r))), "the only early exit from the delivery loop is an undecodable VAA", ok, strings.Join(fs, ";"))
	}

	// ---- no-block-under-lock
	nb := 0
	for _, f := range p.SrcFuncs(pkgSpy) {
		held := lockState(f, mu, false)
		for _, op := range blockingOps(f, func(name string) bool {
			return strings.HasSuffix(name, "Server.Send") || strings.HasSuffix(name, "ServerStream.SendMsg") || strings.Contains(name, "SubscribeSignedVAAServer.Send")
		}) {
			if !held[op.Instr] && !heldAt(p, f, op.Instr, mu, false, 0) {
				continue
			}
			nb++
			construct := "blocking:" + op.Desc
			if sd, ok := op.Instr.(*ssa.Send); ok && loadedField(sd.Chan) == chF {
				construct = "blocking-send:subscription.ch"
			}
			R.Fail("C20.no-block-under-lock", R.Key("C20.no-block-under-lock", shortFn(f), construct), c.rel(p.Pos(op.Instr.Pos())), "no blocking operation while spyServer.subsMu is held",
				op.Desc+" can block while subsMu is held (deferred unlock): a subscriber that stops reading its one-slot channel blocks every other delivery and every subscribe/unsubscribe")
		}
	}
	R.Count("blocking_ops_under_subsMu", nb)
	R.Pass("C20.no-block-under-lock", "C20.no-block-under-lock/scan", "", fmt.Sprintf("lock-state scan of %d functions in cmd/spy (%d blocking operations under subsMu)", len(p.SrcFuncs(pkgSpy)), nb), "scan completed")

	// ---- a mutex taken without a deferred unlock is released on every exit of the function that
	// took it (an early return inside the critical section leaves it held for good: every later
	// Publish, registration and removal blocks)
	nlk := 0
	for _, f := range p.SrcFuncs(pkgSpy) {
		locks, deferred := false, false
		eachInstr(f, func(i ssa.Instruction) {
			switch x := i.(type) {
			case *ssa.Call:
				if x.Call.StaticCallee() != nil && len(x.Call.Args) > 0 && fieldOfAddr(x.Call.Args[0]) == mu {
					if n := x.Call.StaticCallee().Name(); n == "Lock" || n == "RLock" {
						locks = true
					}
				}
			case *ssa.Defer:
				if x.Call.StaticCallee() != nil && len(x.Call.Args) > 0 && fieldOfAddr(x.Call.Args[0]) == mu {
					deferred = true
				}
			}
		})
		if !locks {
			continue
		}
		nlk++
		if deferred {
			continue
		}
		held := lockState(f, mu, true)
		eachInstr(f, func(i ssa.Instruction) {
			r, ok := i.(*ssa.Return)
			if !ok {
				return
			}
			R.Check("C20.lockset", R.Key("C20.lockset", shortFn(f), "released-on-exit"), c.rel(p.Pos(instrPos(r))), "subsMu is not held when the function returns", !held[r], "a return inside the critical section leaves subsMu locked: every later Publish, subscribe and unsubscribe blocks forever")
		})
	}
	R.Floor("C20.lockset.lockers", nlk, 2)

	// ---- lock order: the mutexes of cmd/spy are always taken in one order (two paths taking two
	// of them in opposite orders deadlock Publish and every registration/removal for good)
	c20lockOrder(c, p)

	// ---- lockset
	na := 0
	for _, s := range fieldAccesses(p, subF) {
		if isFreshAlloc(s.Instr.(ssa.Value)) {
			continue
		}
		na++
		held := heldAt(p, s.Fn, s.Instr, mu, false, 0)
		R.Check("C20.lockset", R.Key("C20.lockset", shortFn(s.Fn), "access:subs"), c.sitePos(p, s), "access to spyServer.subs holds subsMu", held, "subsMu not held on every path")
	}
	R.Floor("C20.lockset", na, 3)
	// ---- fresh key: a new subscription never takes the key of a live one
	nk := 0
	for _, s := range mapUpdatesOnField(p, subF) {
		nk++
		mu := s.Instr.(*ssa.MapUpdate)
		v := resolveThroughReturns(mu.Key, 3)
		t := facts.Term(v)
		ok := strings.HasPrefix(t, "(github.com/google/uuid.UUID).String(github.com/google/uuid.New()") || strings.HasPrefix(t, "github.com/google/uuid.NewString()")
		R.Check("C20.fresh-key", R.Key("C20.fresh-key", shortFn(s.Fn), "mapupdate:subs"), c.sitePos(p, s), "a subscription is registered under a freshly generated UUID, so it can never replace (and silence) a live subscription", ok,
			"subscription key = "+t+": a key derived from mutable state (such as the current number of subscriptions) repeats after a removal and overwrites a live subscriber, which then receives nothing")
	}
	R.Floor("C20.fresh-key", nk, 1)
	// delivery cannot be dropped: a send to a matching subscriber is not a select with a default
	for _, sd := range sendsIn(pub) {
		if loadedField(sd.Chan) != chF {
			continue
		}
		R.Check("C20.match", R.Key("C20.match", shortFn(pub), "delivery-not-droppable"), c.rel(p.Pos(sd.Instr.Pos())), "a VAA for a matching subscriber is delivered, not dropped when the subscriber's one-slot queue is momentarily full", !(sd.InSelect && !sd.Blocking),
			"the send is a select with a default: a second VAA published while the subscriber is still writing the first one to its stream is silently lost")
	}
	// registration and removal are paired: after the subscription is put into the map, every path
	// reaches the deferred removal (an early return in between leaks the subscription, whose
	// never-drained channel then blocks every later Publish)
	subFn0 := must(p.Method(pkgSpy, "spyServer", "SubscribeSignedVAA"), "SubscribeSignedVAA")
	for _, s := range mapUpdatesOnField(p, subF) {
		if s.Fn != subFn0 {
			continue
		}
		okPair, wit := facts.MustPassAfter(s.Instr, func(i ssa.Instruction) bool {
			d, ok := i.(*ssa.Defer)
			if !ok {
				return false
			}
			found := false
			var scan func(f *ssa.Function)
			scan = func(f *ssa.Function) {
				eachInstr(f, func(j ssa.Instruction) {
					if cl, ok := j.(*ssa.Call); ok && facts.CalleeName(&cl.Call) == "delete" && loadedField(cl.Call.Args[0]) == subF {
						found = true
					}
				})
			}
			if mc, ok := d.Call.Value.(*ssa.MakeClosure); ok {
				scan(mc.Fn.(*ssa.Function))
			} else if callee := d.Call.StaticCallee(); callee != nil {
				scan(callee)
			}
			return found
		})
		why := ""
		if !okPair && wit != nil {
			why = "return at " + c.rel(p.Pos(instrPos(wit))) + " is reachable after registration and before the removal is deferred"
		}
		R.Check("C20.lockset", R.Key("C20.lockset", shortFn(subFn0), "removal-deferred-right-after-registration"), c.sitePos(p, s), "every path from the registration of a subscription reaches the deferred removal", okPair, why)
	}
	// removal is deferred in SubscribeSignedVAA
	subFn := must(p.Method(pkgSpy, "spyServer", "SubscribeSignedVAA"), "SubscribeSignedVAA")
	okDefer := false
	eachInstr(subFn, func(i ssa.Instruction) {
		if d, ok := i.(*ssa.Defer); ok {
			if mc, ok := d.Call.Value.(*ssa.MakeClosure); ok {
				eachInstr(mc.Fn.(*ssa.Function), func(j ssa.Instruction) {
					if cl, ok := j.(*ssa.Call); ok && facts.CalleeName(&cl.Call) == "delete" && loadedField(cl.Call.Args[0]) == subF {
						okDefer = true
					}
				})
			}
		}
	})
	R.Check("C20.lockset", "C20.lockset/deferred-removal", c.rel(p.Pos(subFn.Pos())), "a subscription is removed by a deferred function when its stream handler returns", okDefer, "no deferred delete(s.subs, id)")
}

// c20lockOrder builds the acquisition-order graph over the mutex fields declared in cmd/spy: an
// edge A -> B for every Lock/RLock of B at a point where A is held (by the function itself, or by
// every caller of an unexported helper), and requires the graph to be acyclic.
func c20lockOrder(c *Ctx, p *load.Program) {
	R := c.R
	var mus []*types.Var
	if pk := p.ByPath[pkgSpy]; pk != nil {
		sc := pk.Types.Scope()
		for _, n := range sc.Names() {
			tn, ok := sc.Lookup(n).(*types.TypeName)
			if !ok {
				continue
			}
			st, ok := tn.Type().Underlying().(*types.Struct)
			if !ok {
				continue
			}
			for k := 0; k < st.NumFields(); k++ {
				ts := st.Field(k).Type().String()
				if ts == "sync.Mutex" || ts == "sync.RWMutex" {
					mus = append(mus, st.Field(k))
				}
			}
		}
	}
	type edge struct{ a, b *types.Var }
	at := map[edge]string{}
	nsites := 0
	for _, f := range p.SrcFuncs(pkgSpy) {
		eachInstr(f, func(i ssa.Instruction) {
			cl, ok := i.(*ssa.Call)
			if !ok || cl.Call.StaticCallee() == nil || len(cl.Call.Args) == 0 {
				return
			}
			full := cl.Call.StaticCallee().String()
			if full != "(*sync.Mutex).Lock" && full != "(*sync.RWMutex).Lock" && full != "(*sync.RWMutex).RLock" {
				return
			}
			b := fieldOfAddr(cl.Call.Args[0])
			if b == nil {
				return
			}
			nsites++
			for _, a := range mus {
				if a != b && heldAt(p, f, cl, a, true, 0) {
					if _, seen := at[edge{a, b}]; !seen {
						at[edge{a, b}] = c.rel(p.Pos(cl.Pos()))
					}
				}
			}
		})
	}
	R.Floor("C20.lock-order.acquisitions", nsites, 3)
	// cycle search (the graph has a handful of nodes)
	var cyc []string
	var dfs func(start, cur *types.Var, path []string, seen map[*types.Var]bool)
	dfs = func(start, cur *types.Var, path []string, seen map[*types.Var]bool) {
		for e, where := range at {
			if e.a != cur {
				continue
			}
			step := fmt.Sprintf("%s held while taking %s at %s", e.a.Name(), e.b.Name(), where)
			if e.b == start {
				if cyc == nil {
					cyc = append(append([]string{}, path...), step)
				}
				continue
			}
			if !seen[e.b] {
				seen[e.b] = true
				dfs(start, e.b, append(path, step), seen)
			}
		}
	}
	for _, m := range mus {
		dfs(m, m, nil, map[*types.Var]bool{m: true})
	}
	sort.Strings(cyc)
	R.Check("C20.lock-order", "C20.lock-order/acyclic", "", fmt.Sprintf("the %d mutexes of cmd/spy are acquired in one global order (%d ordered pairs found)", len(mus), len(at)), cyc == nil, "opposite acquisition orders: "+strings.Join(cyc, "; ")+" — a disconnect racing a Publish leaves each waiting for the other's mutex forever")
}
