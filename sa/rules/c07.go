package rules

import (
	"fmt"
	"go/token"
	"go/types"
	"math/big"
	"sort"
	"strings"

	"golang.org/x/tools/go/ssa"

	"wvsa/internal/cparse"
	"wvsa/internal/facts"
	"wvsa/internal/load"
)

func init() {
	register("C07", "Finite-domain folding of three extracted formulas, exhaustive over n = 0..255 (the wire format's one-byte guardian count): the return expression of Go processor.CalculateQuorum (SSA of a pure, call-free, loop-free int function — checked), the return expression of Solidity Messages.quorum and the Ralph `let quorumSize = …` in governance.ral are extracted from today's sources and folded with each language's integer semantics; for every n all equal floor(2n/3)+1, and for n>=1: 3q>2n and q<=n. This is constant propagation over an extracted expression tree, not execution of repository code. Plus use-site rules: every quorum comparison in the node and the explorer calls CalculateQuorum(len(<keys>)), Solidity verifyVM compares signatures.length < quorum(keys.length) and rejects empty sets, Ralph asserts quorumSize <= signatureSize and guardianSize != 0. Also run on the pinned module-cache copy of the node the explorer links. (use-explorer-set) position i of the explorer's guardian-set list holds the set with index i (rule shared with C19), so the n the explorer feeds the threshold is the size of the set the VAA names.", c07)
}

// foldSSA evaluates a pure integer SSA expression tree over parameter value n.
// wrapInt reduces r to the value range of Go integer type t (two's complement wrap-around), so
// that narrowing conversions and narrow arithmetic inside the formula are evaluated exactly.
func wrapInt(t types.Type, r int64) int64 {
	b, ok := t.Underlying().(*types.Basic)
	if !ok {
		return r
	}
	switch b.Kind() {
	case types.Uint8:
		return int64(uint8(r))
	case types.Uint16:
		return int64(uint16(r))
	case types.Uint32:
		return int64(uint32(r))
	case types.Int8:
		return int64(int8(r))
	case types.Int16:
		return int64(int16(r))
	case types.Int32:
		return int64(int32(r))
	}
	return r
}

func foldSSA(v ssa.Value, param *ssa.Parameter, n int64) (int64, error) {
	r, err := foldSSA0(v, param, n)
	if err != nil {
		return 0, err
	}
	return wrapInt(v.Type(), r), nil
}

func foldSSA0(v ssa.Value, param *ssa.Parameter, n int64) (int64, error) {
	switch x := v.(type) {
	case *ssa.Convert:
		return foldSSA(x.X, param, n)
	case *ssa.ChangeType:
		return foldSSA(x.X, param, n)
	case *ssa.Parameter:
		if x == param {
			return n, nil
		}
	case *ssa.Const:
		if k, ok := constInt(x); ok {
			return k, nil
		}
	case *ssa.BinOp:
		a, err := foldSSA(x.X, param, n)
		if err != nil {
			return 0, err
		}
		b, err := foldSSA(x.Y, param, n)
		if err != nil {
			return 0, err
		}
		switch x.Op {
		case token.ADD:
			return a + b, nil
		case token.SUB:
			return a - b, nil
		case token.MUL:
			return a * b, nil
		case token.QUO:
			if b == 0 {
				return 0, fmt.Errorf("division by zero")
			}
			return a / b, nil // Go truncates toward zero
		case token.REM:
			if b == 0 {
				return 0, fmt.Errorf("division by zero")
			}
			return a % b, nil
		case token.SHL:
			return a << uint(b), nil
		case token.SHR:
			return a >> uint(b), nil
		}
	}
	return 0, fmt.Errorf("expression outside the pure integer subset: %s", facts.Term(v))
}

// foldExpr evaluates a contract expression with unsigned 256-bit semantics (truncating division,
// underflow/overflow is an error = revert).
func foldExpr(e cparse.Expr, sym string, n int64) (*big.Int, error) {
	switch x := e.(type) {
	case cparse.Num:
		return new(big.Int).Set(x.V), nil
	case cparse.Ident:
		if x.Name == sym {
			return big.NewInt(n), nil
		}
	case cparse.Bin:
		a, err := foldExpr(x.X, sym, n)
		if err != nil {
			return nil, err
		}
		b, err := foldExpr(x.Y, sym, n)
		if err != nil {
			return nil, err
		}
		r := new(big.Int)
		switch x.Op {
		case "+":
			r.Add(a, b)
		case "-":
			r.Sub(a, b)
			if r.Sign() < 0 {
				return nil, fmt.Errorf("unsigned underflow")
			}
		case "*":
			r.Mul(a, b)
		case "/":
			if b.Sign() == 0 {
				return nil, fmt.Errorf("division by zero")
			}
			r.Quo(a, b)
		case "%":
			if b.Sign() == 0 {
				return nil, fmt.Errorf("division by zero")
			}
			r.Rem(a, b)
		default:
			return nil, fmt.Errorf("operator %s outside the subset", x.Op)
		}
		if r.BitLen() > 256 {
			return nil, fmt.Errorf("overflow")
		}
		return r, nil
	}
	return nil, fmt.Errorf("expression outside the subset: %s", e)
}

func goQuorumExpr(p *load.Program, pkg string) (ssa.Value, *ssa.Parameter, error) {
	fn := p.Func(pkg, "CalculateQuorum")
	if fn == nil {
		return nil, nil, fmt.Errorf("CalculateQuorum not found in %s", pkg)
	}
	if len(fn.Blocks) != 1 || len(fn.Params) != 1 {
		return nil, nil, fmt.Errorf("CalculateQuorum is not a straight-line one-parameter function")
	}
	var ret *ssa.Return
	for _, i := range fn.Blocks[0].Instrs {
		switch x := i.(type) {
		case *ssa.Return:
			ret = x
		case *ssa.BinOp, *ssa.DebugRef, *ssa.Convert, *ssa.ChangeType:
		default:
			return nil, nil, fmt.Errorf("CalculateQuorum contains a non-arithmetic instruction: %s", i)
		}
	}
	if ret == nil || len(ret.Results) != 1 {
		return nil, nil, fmt.Errorf("no single return")
	}
	return ret.Results[0], fn.Params[0], nil
}

func c07(c *Ctx) {
	p, R := c.Node(), c.R
	R.Trust("go/ssa", "Go int, Solidity uint256 and Ralph U256 arithmetic as documented: truncating division, no overflow at these magnitudes", "hand-written Solidity/Ralph subset parsers")

	type prog struct {
		name string
		eval func(n int64) (int64, error)
		src  string
	}
	var progs []prog
	// Go (repo) and Go (pinned copy used by the explorer)
	for _, g := range []struct {
		tag string
		p   *load.Program
	}{{"go:node/pkg/processor", p}, {"go:explorer-pinned node/pkg/processor", c.Explorer()}} {
		expr, param, err := goQuorumExpr(g.p, pkgProcessor)
		if err != nil {
			R.Fail("C07.fold", "C07.fold/"+g.tag+"/extract", "", "extract CalculateQuorum", "undecided: "+err.Error())
			continue
		}
		e, pr := expr, param
		progs = append(progs, prog{g.tag, func(n int64) (int64, error) { return foldSSA(e, pr, n) }, facts.Term(expr)})
	}
	// Solidity
	solSrc := c.ReadFile("ethereum/contracts/Messages.sol")
	if f, err := cparse.ParseSolidityFunc(solSrc, "quorum"); err != nil {
		R.Fail("C07.fold", "C07.fold/solidity/extract", "ethereum/contracts/Messages.sol", "extract quorum()", "undecided: "+err.Error())
	} else if e, ok := straightLineResult(f.Body); !ok || len(f.Params) != 1 {
		R.Fail("C07.fold", "C07.fold/solidity/extract", "ethereum/contracts/Messages.sol", "extract quorum()", "undecided: quorum() is not a straight-line computation of one result")
	} else {
		sym := f.Params[0]
		progs = append(progs, prog{"solidity:Messages.quorum", func(n int64) (int64, error) {
			v, err := foldExpr(e, sym, n)
			if err != nil {
				return 0, err
			}
			return v.Int64(), nil
		}, e.String()})
	}
	// Ralph
	var ralphFn *cparse.Func
	cs, err := cparse.ParseRalph(c.ReadFile("alephium/contracts/governance.ral"))
	if err == nil && cs["Governance"] != nil {
		ralphFn = cs["Governance"].Funcs["parseAndVerifyVAA"]
	}
	if ralphFn == nil {
		R.Fail("C07.fold", "C07.fold/ralph/extract", "alephium/contracts/governance.ral", "extract quorumSize", fmt.Sprintf("undecided: cannot parse parseAndVerifyVAA: %v", err))
	} else {
		var qe cparse.Expr
		renv := map[string]cparse.Expr{}
		for _, s := range ralphFn.Body {
			if l, ok := s.(cparse.Let); ok && len(l.Names) == 1 {
				if l.Names[0] == "quorumSize" {
					qe = substExpr(l.X, renv)
				} else if l.Names[0] != "guardianSize" {
					// (locals other than the set size itself are folded into the expression)
					renv[l.Names[0]] = substExpr(l.X, renv)
				}
			}
		}
		if qe == nil {
			R.Fail("C07.fold", "C07.fold/ralph/extract", "alephium/contracts/governance.ral", "extract quorumSize", "undecided: `let quorumSize = …` not found")
		} else {
			progs = append(progs, prog{"ralph:Governance.parseAndVerifyVAA.quorumSize", func(n int64) (int64, error) {
				v, err := foldExpr(qe, "guardianSize", n)
				if err != nil {
					return 0, err
				}
				return v.Int64(), nil
			}, qe.String()})
		}
	}
	R.Floor("C07.fold.programs", len(progs), 4)
	points := 0
	for _, pg := range progs {
		bad := ""
		for n := int64(0); n <= 255 && bad == ""; n++ {
			q, err := pg.eval(n)
			points++
			want := 2*n/3 + 1
			switch {
			case err != nil:
				bad = fmt.Sprintf("n=%d: %v", n, err)
			case q != want:
				bad = fmt.Sprintf("n=%d: formula gives %d, floor(2n/3)+1 = %d", n, q, want)
			case n >= 1 && !(3*q > 2*n):
				bad = fmt.Sprintf("n=%d: 3q=%d does not exceed 2n=%d", n, 3*q, 2*n)
			case n >= 1 && q > n:
				bad = fmt.Sprintf("n=%d: q=%d exceeds n", n, q)
			}
		}
		R.Check("C07.fold", "C07.fold/"+pg.name, "", fmt.Sprintf("%s: `%s` equals floor(2n/3)+1, 3q>2n and q<=n for every n in 0..255", pg.name, pg.src), bad == "", "first failing point: "+bad)
		R.Sample(map[string]any{"program": pg.name, "expression": pg.src})
	}
	R.Count("fold_points", points)
	R.Extra["exhaustive"] = true
	R.Extra["programs"] = len(progs)
	R.Extra["evaluations"] = points
	R.Note("exhaustive: %d programs x 256 points", len(progs))

	// ---- C07.use ---------------------------------------------------------------------------
	cq := must(p.Func(pkgProcessor, "CalculateQuorum"), "CalculateQuorum")
	n := 0
	for _, s := range callsTo(p, cq) {
		n++
		arg := s.Instr.(ssa.CallInstruction).Common().Args[0]
		_, f := fieldLoad(lenOf(arg))
		R.Check("C07.use", R.Key("C07.use", shortFn(s.Fn), "call:CalculateQuorum"), c.sitePos(p, s), "quorum is computed from the number of keys of a guardian set", f != nil && f.Name() == "Keys", "argument = "+facts.Term(arg))
		// … and of THE set the function works with: the threshold must be floor(2n/3)+1 for the n
		// of the set whose keys are iterated / indexed for this VAA, not for whichever set is
		// current (they differ in size across a guardian-set update)
		if f != nil && f.Name() == "Keys" && s.Fn.Name() == "handleObservation" {
			// (the publishing decision; handleCleanup's two uses are per-branch and only feed
			// logging/metrics and the settlement count)
			base := ""
			if u, ok := lenOf(arg).(*ssa.UnOp); ok {
				if fa, ok := u.X.(*ssa.FieldAddr); ok {
					base = facts.Term(fa.X)
				}
			}
			others := map[string]bool{}
			eachInstr(s.Fn, func(i ssa.Instruction) {
				if fa, ok := i.(*ssa.FieldAddr); ok && fieldOfAddr(fa) == f {
					if t := facts.Term(fa.X); t != base {
						others[t] = true
					}
				}
			})
			var ol []string
			for t := range others {
				ol = append(ol, t)
			}
			sort.Strings(ol)
			R.Check("C07.use", R.Key("C07.use", shortFn(s.Fn), "same-set"), c.sitePos(p, s), "the set whose size gives the threshold is the set whose keys "+shortFn(s.Fn)+" iterates and indexes", len(ol) == 0,
				"threshold from "+base+".Keys, but the function also works with the keys of "+strings.Join(ol, ", ")+": across a guardian-set update the threshold is computed for a set of another size than the one the VAA names")
		}
	}
	R.Floor("C07.use.node", n, 4)
	// the n that is fed into the threshold is the size of the set the VAA names: the set is
	// snapshotted with the node's own observation on EVERY path through broadcastSignature — also
	// when a peer's observation created the aggregation entry first (otherwise the entry keeps no
	// snapshot, later observations fall back to the then-current set, and after a set update the
	// threshold is computed for another n than the one the contracts will use for that VAA)
	{
		a7 := c.processor()
		isSnap := func(i ssa.Instruction) bool {
			st, ok := i.(*ssa.Store)
			if !ok || fieldOfAddr(st.Addr) != a7.vs["gs"] {
				return false
			}
			_, gf := fieldLoad(st.Val)
			return gf == a7.fGs
		}
		nr := 0
		okAll := true
		eachInstr(a7.bSig, func(i ssa.Instruction) {
			r, ok := i.(*ssa.Return)
			if !ok || r.Block().Comment == "recover" {
				return
			}
			nr++
			if !facts.Before(r, isSnap) {
				okAll = false
			}
		})
		R.Check("C07.use", "C07.use/(*Processor).broadcastSignature/snapshot-always", c.rel(p.Pos(a7.bSig.Pos())), "the guardian set in force is recorded with the node's own observation on every path (whether or not an entry existed)", okAll && nr > 0, "a path through broadcastSignature leaves the entry without the snapshot of p.gs")
	}
	// the inbound path stores a peer's VAA only above the same threshold: the comparison is
	// `CalculateQuorum(len(p.gs.Keys)) <= len(v.Signatures)` — not some other arithmetic on the counts
	a7 := c.processor()
	nin := 0
	for _, s := range callsTo(p, a7.store) {
		if s.Fn != a7.hInbound {
			continue
		}
		nin++
		okQ := false
		fs := facts.Atoms(facts.At(s.Instr, nil))
		for _, at := range fs {
			if strings.HasPrefix(at, "N/processor.CalculateQuorum(len(p.gs.Keys)) <= len(") && strings.HasSuffix(at, ".Signatures)") {
				okQ = true
			}
		}
		R.Check("C07.use", R.Key("C07.use", shortFn(s.Fn), "inbound-threshold"), c.sitePos(p, s), "a VAA received from a peer is stored only under the must-hold fact CalculateQuorum(len(p.gs.Keys)) <= len(v.Signatures)", okQ,
			"the threshold applied to inbound VAAs is not CalculateQuorum of the guardian-set size: "+strings.Join(fs, "; "))
	}
	R.Floor("C07.use.inbound", nin, 1)
	// … and what is counted against the threshold when the node publishes is the list of
	// signatures it puts into the VAA (those of the members of the VAA's set), not another tally
	for _, s := range callsTo(p, a7.store) {
		if s.Fn != a7.hObs {
			continue
		}
		al, ok := s.Instr.(ssa.CallInstruction).Common().Args[1].(*ssa.Alloc)
		if !ok {
			continue
		}
		vals, _ := allocStores(al)
		S := facts.Term(vals["Signatures"])
		okCnt := false
		fs := facts.Atoms(facts.At(s.Instr, nil))
		for _, at := range fs {
			if strings.HasPrefix(at, "N/processor.CalculateQuorum(") && strings.HasSuffix(at, " <= len("+S+")") {
				okCnt = true
			}
		}
		R.Check("C07.use", R.Key("C07.use", shortFn(s.Fn), "counts-published-signatures"), c.sitePos(p, s), "the count compared with the threshold is the length of the signature list the published VAA carries", okCnt,
			"no fact CalculateQuorum(…) <= len("+S+"): the threshold is compared with another count (for instance every signature ever gossiped for the digest, including guardians outside the VAA's set)")
	}
	// no other quorum-like arithmetic: comparisons against len(x.Keys)*2/3 etc. are not searched (out of scope)
	ep := c.Explorer()
	ecq := must(ep.Func(pkgProcessor, "CalculateQuorum"), "pinned CalculateQuorum")
	// the n the explorer feeds the threshold is the size of the set the VAA names only if position i of
	// its guardian-set list holds the set with index i
	c19indexAligned(c, ep, "C07.use-explorer-set")
	n = 0
	for _, s := range callsTo(ep, ecq) {
		if !strings.HasPrefix(s.Fn.Pkg.Pkg.Path(), ExplorerMod) {
			continue
		}
		n++
		arg := s.Instr.(ssa.CallInstruction).Common().Args[0]
		R.Check("C07.use", R.Key("C07.use", shortFn(s.Fn), "call:CalculateQuorum"), c.rel(ep.Pos(s.Instr.Pos())), "explorer computes quorum from the length of the key list it verifies against", lenOf(arg) != nil, "argument = "+facts.Term(arg))
	}
	R.Floor("C07.use.explorer", n, 1)
	// Solidity verifyVM
	if f, err := cparse.ParseSolidityFunc(solSrc, "verifyVM"); err != nil {
		R.Fail("C07.use", "C07.use/solidity/verifyVM", "ethereum/contracts/Messages.sol", "verifyVM", "undecided: "+err.Error())
	} else {
		qOK, emptyOK := false, false
		senv := map[string]cparse.Expr{}
		for _, s := range f.Body {
			// locals that merely name a sub-expression (`uint n = guardianSet.keys.length;`)
			if l, ok := s.(cparse.Let); ok && len(l.Names) == 1 {
				switch x := l.X.(type) {
				case cparse.Member:
					senv[l.Names[0]] = substExpr(l.X, senv)
				case cparse.Call:
					if x.Fn.String() == "quorum" {
						senv[l.Names[0]] = substExpr(l.X, senv)
					}
				}
			}
			if iff, ok := s.(cparse.If); ok && len(iff.Then) == 1 {
				if rt, ok := iff.Then[0].(cparse.Return); ok && len(rt.Xs) == 1 && strings.HasPrefix(rt.Xs[0].String(), "<tuple(false") {
					switch substExpr(iff.Cond, senv).String() {
					case "(vm.signatures.length < quorum(guardianSet.keys.length))":
						qOK = true
					case "(guardianSet.keys.length == 0)":
						emptyOK = true
					}
				}
			}
		}
		R.Check("C07.use", "C07.use/solidity/verifyVM/quorum", "ethereum/contracts/Messages.sol", "verifyVM rejects when vm.signatures.length < quorum(guardianSet.keys.length)", qOK, "comparison not found")
		R.Check("C07.use", "C07.use/solidity/verifyVM/empty-set", "ethereum/contracts/Messages.sol", "verifyVM rejects an empty guardian set", emptyOK, "check not found")
	}
	if ralphFn != nil {
		a1, a2, gs := false, false, false
		for _, s := range ralphFn.Body {
			if es, ok := s.(cparse.ExprStmt); ok {
				if cl, ok := es.X.(cparse.Call); ok && cl.Fn.String() == "assert!" && len(cl.Args) > 0 {
					switch cl.Args[0].String() {
					case "(quorumSize <= signatureSize)", "(signatureSize >= quorumSize)":
						a1 = true
					case "(guardianSize != 0)":
						a2 = true
					}
				}
			}
			if l, ok := s.(cparse.Let); ok && len(l.Names) == 1 && l.Names[0] == "guardianSize" && l.X.String() == "u256From1Byte!(byteVecSlice!(guardians, 0, 1))" {
				gs = true
			}
		}
		R.Check("C07.use", "C07.use/ralph/quorum-assert", "alephium/contracts/governance.ral", "Ralph asserts quorumSize <= signatureSize", a1, "assertion not found")
		R.Check("C07.use", "C07.use/ralph/nonempty-assert", "alephium/contracts/governance.ral", "Ralph asserts guardianSize != 0", a2, "assertion not found")
		R.Check("C07.use", "C07.use/ralph/guardianSize", "alephium/contracts/governance.ral", "guardianSize is the stored set's one-byte key count", gs, "definition not of the expected form")
	}
}

// substExpr replaces identifiers bound in env by their defining expressions.
func substExpr(e cparse.Expr, env map[string]cparse.Expr) cparse.Expr {
	switch x := e.(type) {
	case cparse.Ident:
		if v, ok := env[x.Name]; ok {
			return v
		}
	case cparse.Bin:
		return cparse.Bin{Op: x.Op, X: substExpr(x.X, env), Y: substExpr(x.Y, env)}
	case cparse.Un:
		return cparse.Un{Op: x.Op, X: substExpr(x.X, env)}
	case cparse.Call:
		var as []cparse.Expr
		for _, a := range x.Args {
			as = append(as, substExpr(a, env))
		}
		return cparse.Call{Fn: x.Fn, Args: as}
	case cparse.Member:
		return cparse.Member{X: substExpr(x.X, env), Name: x.Name}
	case cparse.Index:
		return cparse.Index{X: substExpr(x.X, env), I: substExpr(x.I, env)}
	}
	return e
}

// straightLineResult evaluates a function body made only of local definitions, plain assignments
// and at most one final return: the returned expression, or — for a named result — the value
// last assigned, with every local substituted.
func straightLineResult(body []cparse.Stmt) (cparse.Expr, bool) {
	env := map[string]cparse.Expr{}
	var last cparse.Expr
	for k, st := range body {
		switch x := st.(type) {
		case cparse.Let:
			if len(x.Names) != 1 {
				return nil, false
			}
			env[x.Names[0]] = substExpr(x.X, env)
		case cparse.Assign:
			id, ok := x.Target.(cparse.Ident)
			if !ok || x.Op != "=" {
				return nil, false
			}
			v := substExpr(x.X, env)
			env[id.Name] = v
			last = v
		case cparse.Return:
			if len(x.Xs) != 1 || k != len(body)-1 {
				return nil, false
			}
			return substExpr(x.Xs[0], env), true
		default:
			return nil, false
		}
	}
	return last, last != nil
}
