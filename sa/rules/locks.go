package rules

import (
	"go/types"
	"strings"

	"golang.org/x/tools/go/ssa"

	"wvsa/internal/facts"
	"wvsa/internal/load"
)

// lockState computes, for every instruction of fn, whether the mutex stored in field `mu` (of
// any receiver — conservative identification by field object) is held on EVERY path reaching it
// (must-analysis: forward data flow, meet = AND). `defer mu.Unlock()` keeps the lock held until
// the function exits. RLock counts as held when read is true.
func lockState(fn *ssa.Function, mu *types.Var, read bool) map[ssa.Instruction]bool {
	isOn := func(c *ssa.CallCommon, names ...string) bool {
		callee := c.StaticCallee()
		if callee == nil || len(c.Args) == 0 {
			return false
		}
		ok := false
		for _, n := range names {
			if callee.Name() == n {
				ok = true
			}
		}
		if !ok {
			return false
		}
		full := callee.String()
		if !strings.HasPrefix(full, "(*sync.Mutex).") && !strings.HasPrefix(full, "(*sync.RWMutex).") {
			return false
		}
		return fieldOfAddr(c.Args[0]) == mu
	}
	in := map[*ssa.BasicBlock]bool{}
	out := map[*ssa.BasicBlock]bool{}
	for _, b := range fn.Blocks {
		in[b], out[b] = true, true
	}
	if len(fn.Blocks) == 0 {
		return nil
	}
	in[fn.Blocks[0]] = false
	res := map[ssa.Instruction]bool{}
	transfer := func(b *ssa.BasicBlock, held bool, record bool) bool {
		for _, i := range b.Instrs {
			if record {
				res[i] = held
			}
			switch x := i.(type) {
			case *ssa.Call:
				if isOn(&x.Call, "Lock") || (read && isOn(&x.Call, "RLock")) {
					held = true
				} else if isOn(&x.Call, "Unlock", "RUnlock") {
					held = false
				}
			case *ssa.Defer:
				// deferred unlock: runs at function exit, lock stays held
			}
		}
		return held
	}
	for changed := true; changed; {
		changed = false
		for _, b := range fn.Blocks {
			ni := true
			if b == fn.Blocks[0] {
				ni = false
			} else {
				for _, p := range b.Preds {
					if !out[p] {
						ni = false
					}
				}
				if len(b.Preds) == 0 {
					ni = false
				}
			}
			no := transfer(b, ni, false)
			if ni != in[b] || no != out[b] {
				in[b], out[b] = ni, no
				changed = true
			}
		}
	}
	for _, b := range fn.Blocks {
		transfer(b, in[b], true)
	}
	return res
}

// blockingOp describes an operation that can block indefinitely.
type blockingOp struct {
	Instr ssa.Instruction
	Desc  string
}

// blockingOps lists channel sends/receives that are not part of a select with default, blocking
// selects, and calls to the listed blocking APIs.
func blockingOps(fn *ssa.Function, blockingCalls func(name string) bool) []blockingOp {
	var out []blockingOp
	eachInstr(fn, func(i ssa.Instruction) {
		switch x := i.(type) {
		case *ssa.Send:
			out = append(out, blockingOp{i, "send " + facts.Term(x.Chan) + " <- " + facts.Term(x.X)})
		case *ssa.UnOp:
			if x.Op.String() == "<-" {
				out = append(out, blockingOp{i, "receive <-" + facts.Term(x.X)})
			}
		case *ssa.Select:
			if x.Blocking {
				out = append(out, blockingOp{i, "blocking select"})
			}
		case ssa.CallInstruction:
			if n := facts.CalleeName(x.Common()); blockingCalls != nil && blockingCalls(n) {
				out = append(out, blockingOp{i, "call " + n})
			}
		}
	})
	return out
}

// heldAt reports whether mutex field mu is held at instr of fn on every path, either because fn
// itself acquired it, or because fn is an unexported helper that is never used as a value and
// every one of its (synchronous) call sites holds the lock — the "caller must hold mu" idiom.
func heldAt(p *load.Program, fn *ssa.Function, instr ssa.Instruction, mu *types.Var, read bool, depth int) bool {
	if lockState(fn, mu, read)[instr] {
		return true
	}
	if depth >= 3 || fn.Parent() != nil || fn.Object() == nil || fn.Object().Exported() {
		return false
	}
	if len(funcRefs(p, fn)) > 0 {
		return false
	}
	sites := callsTo(p, fn)
	if len(sites) == 0 {
		return false
	}
	for _, s := range sites {
		if _, isCall := s.Instr.(*ssa.Call); !isCall {
			return false // go/defer: the caller's lock does not cover the callee's execution
		}
		if !heldAt(p, s.Fn, s.Instr, mu, read, depth+1) {
			return false
		}
	}
	return true
}
