package rules

import (
	"fmt"
	"go/token"
	"go/types"
	"sort"
	"strings"

	"golang.org/x/tools/go/ssa"

	"wvsa/internal/facts"
)

func init() {
	register("C02", "Static rules on pkg/processor SSA: (ownobs/once) must-hold facts `entry.ourVAA != nil` and `!entry.submitted` at every publish sink, `submitted = true` stored on every path after the first sink and nowhere else; (threshold-exact) the guard is exactly len(assembled) >= CalculateQuorum(len(set)); (no-skip) after a signature is recorded every path evaluates the ourVAA test and, when it holds, the quorum comparison; signatures are recorded by map assignment keyed by address (order/duplication independent); (loopback) broadcastSignature always loops the node's own observation back onto the channel Run feeds to handleObservation; (body-copy) the published VAA copies every vaa.VAA field except Signatures from ourVAA, exhaustively over the struct's fields from go/types, and handleMessage builds ourVAA field-for-field from the chain message; (governance) every path to Sign/broadcastSignature in handleMessage passes `EmitterAddress != governanceEmitter OR EmitterChain != governanceChain`; who-may-call table for the guardian signer. (gs-pin) vaaState.gs of an existing entry is stored only where its ourVAA is stored.", c02)
}

func c02(c *Ctx) {
	a := c.processor()
	p, R := a.p, c.R
	R.Trust("go/types + go/ssa", "the handler loop is single-goroutine (C01.confine, re-checked here)", "Go channel semantics: a value sent on obsvC is received by Run's select")
	loopVarRule(c, p, "C02.loopvar", pkgProcessor)
	R.Assumption("liveness of the loop-back goroutine send is not decided (scheduling)", "behaviour across aggregation lifetimes (entry deleted by cleanup, then re-observed) is not decided")

	conf, _ := a.confined()
	for _, f := range []*ssa.Function{a.hObs, a.hMsg, a.hInj, a.bSig, a.bVAA, a.hCleanup, a.hInbound} {
		R.Check("C02.confine", "C02.confine/"+shortFn(f), "", shortFn(f)+" runs only on the Run goroutine", conf[f], "handler atomicity is the basis of the per-handler argument")
	}

	gossipEntryHasNoSnapshot(c, a, "C02.ownobs", "signatures that arrive before the node's own observation are kept for whichever guardian set is current when they arrive; the set is pinned only by the own observation (an entry pinned by the first gossiped signature loses the signatures of members added by a later set update, and quorum of the set the node signs for is never recognised)")
	// sinks in handleObservation
	var sinks []site
	for _, callee := range []*ssa.Function{a.store, a.bVAA, a.reportQuorum} {
		for _, s := range callsTo(p, callee) {
			if s.Fn == a.hObs {
				sinks = append(sinks, s)
			}
		}
	}
	R.Floor("C02.once", len(sinks), 3)
	entry := "p.state.vaaSignatures[encoding/hex.EncodeToString(m.Hash)]"
	for _, s := range sinks {
		construct := "call:" + s.Instr.(ssa.CallInstruction).Common().StaticCallee().Name()
		fs := facts.At(s.Instr, nil)
		c.checkFactsStable(p, a.w, "C02.ownobs", s.Fn, construct, s.Instr, fs, []req{
			{Name: "entry.ourVAA != nil", Pred: func(at string) bool { return at == entry+".ourVAA != nil" }}})
		c.checkFactsStable(p, a.w, "C02.once", s.Fn, construct, s.Instr, fs, []req{
			{Name: "!entry.submitted", Pred: func(at string) bool { return at == "!"+entry+".submitted" }}})
		// every path from the sink to the handler's return stores submitted = true on that entry
		ok, wit := facts.MustPassAfter(s.Instr, func(i ssa.Instruction) bool {
			st, ok := i.(*ssa.Store)
			if !ok || fieldOfAddr(st.Addr) != a.vs["submitted"] {
				return false
			}
			v, isC := st.Val.(*ssa.Const)
			return isC && v.Value != nil && v.Value.ExactString() == "true" && strings.HasPrefix(facts.Term(st.Addr), entry+".")
		})
		w := ""
		if !ok {
			w = "a return at " + c.rel(p.Pos(instrPos(wit))) + " is reachable after the publish without marking the entry submitted"
		}
		R.Check("C02.once", R.Key("C02.once", shortFn(s.Fn), construct+":then-submitted"), c.sitePos(p, s), "after "+construct+" every path sets entry.submitted = true before returning", ok, w)
	}
	// submitted is stored nowhere else
	nsub := 0
	for _, s := range storesToField(p, a.vs["submitted"]) {
		st := s.Instr.(*ssa.Store)
		if isFreshAlloc(st.Addr) {
			R.Check("C02.once", R.Key("C02.once", shortFn(s.Fn), "literal:submitted"), c.sitePos(p, s), "vaaState literal initialises submitted", isFalseConst(st.Val), "an entry must not be born submitted")
			continue
		}
		nsub++
		fs := facts.At(st, nil)
		isTrue := !isFalseConst(st.Val)
		okk := s.Fn == a.hObs && isTrue && facts.HasAtom(fs, "!"+entry+".submitted")
		R.Check("C02.once", R.Key("C02.once", shortFn(s.Fn), "store:submitted"), c.sitePos(p, s), "store to vaaState.submitted in "+fname(s.Fn), okk,
			"submitted may only be set (to true) in handleObservation on the publish path")
	}
	R.Floor("C02.once.store", nsub, 1)
	// an existing aggregation entry is never replaced (that would forget `submitted` within its lifetime)
	nrep := 0
	for _, s := range mapUpdatesOnField(p, a.fVaaSigs) {
		nrep++
		mu := s.Instr.(*ssa.MapUpdate)
		mapT := facts.Term(mu.Map) + "[" + facts.Term(mu.Key) + "]"
		fs := facts.At(mu, nil)
		ok := false
		for _, f := range fs {
			if f.Atom == mapT+" == nil" && a.w.unstable(f, mu) == "" {
				ok = true
			}
		}
		R.Check("C02.once", R.Key("C02.once", shortFn(s.Fn), "mapupdate:vaaSignatures"), c.sitePos(p, s), "an aggregation entry is created only when none exists for the digest (an existing entry, with its submitted flag, is never replaced)", ok, "no must-hold fact `"+mapT+" == nil` at the map write", facts.Atoms(fs)...)
	}
	R.Floor("C02.once.entry-create", nrep, 2)
	// the set an entry counts against is pinned together with the node's own VAA and never moved:
	// a store to an existing entry's gs happens only in a function that also stores that entry's
	// ourVAA (ourVAA.GuardianSetIndex names the set; membership, indices and the threshold are read
	// from the pinned one — re-pinning later makes the two disagree)
	ngs := 0
	for _, s := range storesToField(p, a.vs["gs"]) {
		if isFreshAlloc(s.Instr.(*ssa.Store).Addr) {
			continue
		}
		ngs++
		with := false
		for _, f := range withAnon(top(s.Fn)) {
			eachInstr(f, func(i ssa.Instruction) {
				if st, ok := i.(*ssa.Store); ok && fieldOfAddr(st.Addr) == a.vs["ourVAA"] {
					with = true
				}
			})
		}
		R.Check("C02.threshold-exact", R.Key("C02.threshold-exact", shortFn(s.Fn), "store:gs-pinned-with-ourVAA"), c.sitePos(p, s), "an entry's guardian set is pinned where its own VAA is stored and not changed afterwards (the set the threshold is taken from is the set ourVAA names)", with, "vaaState.gs of an existing entry is rewritten in "+shortFn(s.Fn)+", which does not store ourVAA")
	}
	R.Floor("C02.threshold-exact.gs-pin", ngs, 1)

	// ---- threshold-exact: reuse C01's structural quorum check (op must be exactly >=) -------
	for _, s := range sinks {
		call := s.Instr.(ssa.CallInstruction).Common()
		construct := "call:" + call.StaticCallee().Name()
		al, _ := call.Args[len(call.Args)-1].(*ssa.Alloc)
		okq, why := false, "undecided: sink argument is not the local literal"
		if al != nil {
			vals, _ := allocStores(al)
			if S := vals["Signatures"]; S != nil {
				if G, w := checkAssemblyLoop(a, S); G != nil {
					why = "no fact of the exact form CalculateQuorum(len(set.Keys)) <= len(assembled list)"
					for _, f := range facts.At(s.Instr, nil) {
						x, op, y, ok := cmpOf(f)
						if ok && op == token.LEQ && lenOf(y) == S {
							if q := asCall(x, fname(a.calcQuorum)); q != nil {
								if kb, kf := fieldLoad(lenOf(q.Call.Args[0])); kf != nil && kb == G {
									okq = true
								}
							}
						}
					}
				} else {
					why = w
				}
			}
		}
		R.Check("C02.threshold-exact", R.Key("C02.threshold-exact", shortFn(s.Fn), construct), c.sitePos(p, s), "publish guard is exactly len(sigs) >= quorum (no waiting beyond quorum, no publish below)", okq, why)
	}
	// the publish branch is taken whenever the guard holds: the only conditions between the quorum If and the first sink
	c02noSkip(c, a, sinks)
	c02loopback(c, a)
	c02bodyCopy(c, a, "C02.body-copy")
	c02governance(c, a)
}

func isFalseConst(v ssa.Value) bool {
	cst, ok := v.(*ssa.Const)
	return ok && cst.Value != nil && cst.Value.ExactString() == "false"
}

// c02noSkip: from the signature MapUpdate every path to a return passes the `ourVAA != nil`
// test; on its true edge every path passes the quorum comparison; and on the edge where quorum
// holds and !submitted, every path reaches the first sink (no extra condition suppresses publish
// other than Marshal failing, which panics).
func c02noSkip(c *Ctx, a *procAnchors, sinks []site) {
	p, R := a.p, c.R
	mus := mapUpdatesOnField(p, a.vs["signatures"])
	if len(mus) != 1 {
		R.Fail("C02.no-skip", "C02.no-skip/mapupdate", "", "signature recording site", fmt.Sprintf("undecided: %d signature map writes", len(mus)))
		return
	}
	mu := mus[0].Instr.(*ssa.MapUpdate)
	// key type is the address: idempotent under duplication, order-independent
	mt := mu.Map.Type().Underlying().(*types.Map)
	R.Check("C02.no-skip", "C02.no-skip/keyed-by-address", c.sitePos(p, mus[0]), "signatures are recorded by map assignment keyed by guardian address (idempotent, order-independent)",
		strings.HasSuffix(mt.Key().String(), "go-ethereum/common.Address"), "map key type "+mt.Key().String())
	// every verified observation is recorded: a return that is not preceded by the recording of
	// the signature must be a rejection (recover failed, address mismatch, no guardian set, not a
	// member). Skipping a verified observation — for instance as a "duplicate" — also skips the
	// quorum evaluation that the node's own looped-back observation is there to trigger.
	nret := 0
	eachInstr(a.hObs, func(i ssa.Instruction) {
		r, ok := i.(*ssa.Return)
		if !ok || r.Block().Comment == "recover" {
			return
		}
		nret++
		if facts.Before(r, func(j ssa.Instruction) bool { return j == ssa.Instruction(mu) }) {
			return
		}
		fs := acceptFacts(r)
		rejected := facts.Has(fs, func(at string) bool {
			switch {
			case strings.HasPrefix(at, "geth/crypto.Ecrecover(m.Hash,m.Signature)") && strings.HasSuffix(at, "#1 != nil"):
				return true
			case strings.Contains(at, " != geth/common.BytesToAddress(m.Addr)") || strings.HasPrefix(at, "geth/common.BytesToAddress(m.Addr) != "):
				return true
			case strings.HasPrefix(at, "!(*N/common.GuardianSet).KeyIndex(") && strings.HasSuffix(at, "#1"):
				return true
			case strings.HasSuffix(at, ".gs} == nil") || at == "p.gs == nil":
				return true
			}
			return false
		})
		R.Check("C02.no-skip", R.Key("C02.no-skip", shortFn(a.hObs), "return-before-recording"), c.rel(p.Pos(instrPos(r))), "a return of handleObservation that does not record the signature is a rejection (bad signature, address mismatch, no guardian set, not a member)", rejected,
			"a verified observation from a guardian-set member is dropped without being recorded and without evaluating quorum (facts: "+facts.Join(fs)+"): when it is the node's own looped-back observation that completes `observed + quorum`, the VAA is never published")
	})
	R.Floor("C02.no-skip.returns", nret, 5)
	entry := "p.state.vaaSignatures[encoding/hex.EncodeToString(m.Hash)]"
	isIf := func(pred func(facts.Fact) bool) func(ssa.Instruction) bool {
		return func(i ssa.Instruction) bool {
			iff, ok := i.(*ssa.If)
			if !ok {
				return false
			}
			return pred(facts.Fact{Cond: iff.Cond, Pol: true, Atom: facts.Atom(iff.Cond, true)})
		}
	}
	var ourIf *ssa.If
	ok1, wit := facts.MustPassAfter(mu, isIf(func(f facts.Fact) bool {
		return f.Atom == entry+".ourVAA != nil" || f.Atom == entry+".ourVAA == nil"
	}))
	w := ""
	if !ok1 {
		w = "return at " + c.rel(p.Pos(instrPos(wit))) + " reachable after recording a signature without testing ourVAA"
	}
	R.Check("C02.no-skip", "C02.no-skip/ourVAA-test-reached", c.sitePos(p, mus[0]), "after a signature is recorded every path evaluates `entry.ourVAA != nil`", ok1, w)
	eachInstr(a.hObs, func(i ssa.Instruction) {
		if iff, ok := i.(*ssa.If); ok {
			at := facts.Atom(iff.Cond, true)
			if at == entry+".ourVAA != nil" || at == entry+".ourVAA == nil" {
				ourIf = iff
			}
		}
	})
	if ourIf == nil || len(sinks) == 0 {
		return
	}
	// the first sink must be reached on every path from the ourVAA-true edge on which quorum holds and !submitted:
	// i.e. cutting {quorum-false edge, submitted-true edge} leaves no path from that edge to a Return that avoids the sink.
	first := sinks[0].Instr
	for _, s := range sinks {
		if s.Instr.Block().Dominates(first.Block()) && s.Instr != first {
			first = s.Instr
		}
	}
	fn := a.hObs
	cuts := facts.Cuts{}
	nq, ns := 0, 0
	for _, b := range fn.Blocks {
		iff, ok := b.Instrs[len(b.Instrs)-1].(*ssa.If)
		if !ok {
			continue
		}
		f := facts.Fact{Cond: iff.Cond, Pol: true}
		if x, op, y, ok := cmpOf(f); ok && (op == token.LEQ || op == token.LSS) {
			if asCall(x, fname(a.calcQuorum)) != nil && lenOf(y) != nil { // quorum <= len : true edge = quorum reached
				cuts[facts.Edge{B: b.Index, K: 1}] = true
				nq++
			} else if asCall(y, fname(a.calcQuorum)) != nil && lenOf(x) != nil { // len < quorum : true edge = not reached
				cuts[facts.Edge{B: b.Index, K: 0}] = true
				nq++
			}
		}
		at := facts.Atom(iff.Cond, true)
		if at == entry+".submitted" {
			cuts[facts.Edge{B: b.Index, K: 0}] = true
			ns++
		} else if at == "!"+entry+".submitted" {
			cuts[facts.Edge{B: b.Index, K: 1}] = true
			ns++
		}
		if iff == ourIf {
			if facts.Atom(iff.Cond, true) == entry+".ourVAA != nil" {
				cuts[facts.Edge{B: b.Index, K: 1}] = true
			} else {
				cuts[facts.Edge{B: b.Index, K: 0}] = true
			}
		}
	}
	// with "ourVAA==nil", "quorum not reached", "already submitted" edges removed, every Return reachable
	// from the MapUpdate must come after the first sink.
	okAll := nq >= 1 && ns >= 1
	why := fmt.Sprintf("quorum tests found=%d, submitted tests found=%d", nq, ns)
	if okAll {
		// forward search from mu under cuts, stopping at the sink's block
		seen := map[*ssa.BasicBlock]bool{}
		st := []*ssa.BasicBlock{mu.Block()}
		for len(st) > 0 && okAll {
			b := st[len(st)-1]
			st = st[:len(st)-1]
			if seen[b] {
				continue
			}
			seen[b] = true
			if b == first.Block() {
				continue
			}
			if _, isRet := b.Instrs[len(b.Instrs)-1].(*ssa.Return); isRet {
				okAll = false
				why = "with ourVAA present, quorum reached and not yet submitted, a return at " + c.rel(p.Pos(instrPos(b.Instrs[len(b.Instrs)-1]))) + " is reachable without publishing"
			}
			for k, s := range b.Succs {
				if !cuts[facts.Edge{B: b.Index, K: k}] {
					st = append(st, s)
				}
			}
		}
	}
	R.Check("C02.no-skip", "C02.no-skip/publish-when-quorum", c.rel(p.Pos(instrPos(first))), "whenever ourVAA is present, quorum is reached and the entry is not yet submitted, the handler publishes before returning (panics aside)", okAll, why)
}

// c02loopback: broadcastSignature always (a) stores ourVAA and (b) starts the loop-back send of
// the node's own SignedObservation on p.obsvC; Run feeds obsvC to handleObservation.
func c02loopback(c *Ctx, a *procAnchors) {
	p, R := a.p, c.R
	obsvC := must(p.FieldOf(pkgProcessor, "Processor", "obsvC"), "Processor.obsvC")
	var goSend *ssa.Go
	var sent ssa.Value
	eachInstr(a.bSig, func(i ssa.Instruction) {
		g, ok := i.(*ssa.Go)
		if !ok {
			return
		}
		mc, ok := g.Call.Value.(*ssa.MakeClosure)
		if !ok {
			return
		}
		cl := mc.Fn.(*ssa.Function)
		for _, sd := range sendsIn(cl) {
			if loadedField(sd.Chan) == obsvC {
				// the sent value is a free variable bound at the MakeClosure
				if fv, ok := sd.X.(*ssa.FreeVar); ok {
					for k, v := range cl.FreeVars {
						if v == fv {
							sent = mc.Bindings[k]
						}
					}
				} else {
					sent = sd.X
				}
				// a local of the closure initialised from a captured variable (`obsv := captured`),
				// or a load of a captured cell: follow it to the value in broadcastSignature
				for d := 0; d < 4; d++ {
					r := resolveSpill(sent)
					if fv, ok := r.(*ssa.FreeVar); ok && fv.Parent() == cl {
						for k, v := range cl.FreeVars {
							if v == fv {
								r = mc.Bindings[k]
							}
						}
					}
					if r == sent {
						break
					}
					sent = r
				}
				goSend = g
			}
		}
	})
	if goSend == nil {
		R.Fail("C02.loopback", "C02.loopback/broadcastSignature/go-send-obsvC", "", "loop-back of own observation", "no goroutine in broadcastSignature sends on p.obsvC")
		return
	}
	pos := c.rel(p.Pos(goSend.Pos()))
	first := a.bSig.Blocks[0].Instrs[0]
	ok, _ := facts.MustPassAfter(first, func(i ssa.Instruction) bool { return i == goSend })
	R.Check("C02.loopback", "C02.loopback/broadcastSignature/always", pos, "every path through broadcastSignature starts the loop-back send", ok, "a return is reachable without the loop-back")
	// order: ourVAA stored before the loop-back is started
	okOrd := facts.Before(goSend, func(i ssa.Instruction) bool {
		st, ok := i.(*ssa.Store)
		return ok && fieldOfAddr(st.Addr) == a.vs["ourVAA"]
	})
	R.Check("C02.loopback", "C02.loopback/broadcastSignature/after-ourVAA", pos, "ourVAA is stored before the loop-back observation is sent", okOrd, "loop-back could be handled before ourVAA exists")
	// content of the looped-back observation
	al, _ := sent.(*ssa.Alloc)
	if al == nil {
		R.Fail("C02.loopback", "C02.loopback/broadcastSignature/content", pos, "looped-back observation", "undecided: sent value is not the local SignedObservation: "+termOrNil(sent))
	} else {
		vals, _ := allocStores(al)
		h, sg, ad := termOrNil(vals["Hash"]), termOrNil(vals["Signature"]), termOrNil(vals["Addr"])
		okc := strings.Contains(h, "(*N/vaa.VAA).SigningMsg(v)") && sg == "signature" &&
			ad == "(geth/common.Address).Bytes(geth/crypto.PubkeyToAddress(invoke:N/ecdsasigner.ECDSASigner.PublicKey(p.guardianSigner)))"
		R.Check("C02.loopback", "C02.loopback/broadcastSignature/content", pos, "looped-back observation = {Hash: v.SigningMsg(), Signature: the signature just made, Addr: own guardian address}", okc,
			fmt.Sprintf("Hash=%s Signature=%s Addr=%s", h, sg, ad))
	}
	// Run: value received from p.obsvC is handed to handleObservation
	okRun := false
	eachInstr(a.Run, func(i ssa.Instruction) {
		call, ok := i.(*ssa.Call)
		if !ok || call.Call.StaticCallee() != a.hObs {
			return
		}
		ex, ok := call.Call.Args[2].(*ssa.Extract)
		if !ok {
			return
		}
		sel, ok := ex.Tuple.(*ssa.Select)
		if !ok {
			return
		}
		// extract index = 2 + position among receive states
		ri := 0
		for _, st := range sel.States {
			if st.Dir == types.RecvOnly {
				if loadedField(st.Chan) == obsvC && ex.Index == 2+ri {
					okRun = true
				}
				ri++
			}
		}
	})
	R.Check("C02.loopback", "C02.loopback/Run/obsvC-to-handleObservation", "", "Run hands every value received on p.obsvC to handleObservation", okRun, "select case on obsvC not found or not forwarded")
}

// c02bodyCopy: exhaustive field tables.
func c02bodyCopy(c *Ctx, a *procAnchors, rule string) {
	p, R := a.p, c.R
	vaaT := must(p.Named(pkgVAA, "VAA"), "vaa.VAA").Underlying().(*types.Struct)
	var fields []string
	for i := 0; i < vaaT.NumFields(); i++ {
		fields = append(fields, vaaT.Field(i).Name())
	}
	R.Count("vaa.VAA.fields", len(fields))
	// (1) published literal in handleObservation
	for _, s := range callsTo(p, a.store) {
		if s.Fn != a.hObs {
			continue
		}
		al, ok := s.Instr.(ssa.CallInstruction).Common().Args[1].(*ssa.Alloc)
		if !ok {
			R.Fail(rule, rule+"/handleObservation", c.sitePos(p, s), "published VAA", "undecided: not a local literal")
			continue
		}
		vals, cnt := allocStores(al)
		var bad []string
		var src ssa.Value
		whole := wholeCopyOf(al)
		for _, f := range fields {
			if f == "Signatures" {
				continue
			}
			v := vals[f]
			if v == nil && whole != nil {
				// `signed := *ourVAA`: the field comes with the whole-struct copy
				if src == nil {
					src = stripPhi(whole)
				} else if facts.Term(src) != facts.Term(whole) {
					bad = append(bad, f+" copied from a different source "+facts.Term(whole))
				}
				continue
			}
			base, fld := fieldLoad(v)
			if v == nil || cnt[f] != 1 || fld == nil || fld.Name() != f {
				bad = append(bad, f+" = "+termOrNil(v))
				continue
			}
			if src == nil {
				src = base
			} else if facts.Term(src) != facts.Term(base) {
				bad = append(bad, f+" copied from a different source "+facts.Term(base))
			}
		}
		_, sf := fieldLoad(src)
		if src != nil && sf != a.vs["ourVAA"] {
			bad = append(bad, "source is not entry.ourVAA: "+facts.Term(src))
		}
		sort.Strings(bad)
		R.Check(rule, rule+"/handleObservation/published-literal", c.sitePos(p, s), fmt.Sprintf("published VAA copies all %d fields of vaa.VAA except Signatures from entry.ourVAA", len(fields)-1), len(bad) == 0, strings.Join(bad, "; "))
	}
	// (2) handleMessage literal
	msgTable := map[string]string{"Timestamp": "k.Timestamp", "Nonce": "k.Nonce", "EmitterChain": "k.EmitterChain", "TargetChain": "k.TargetChain",
		"EmitterAddress": "k.EmitterAddress", "Payload": "k.Payload", "Sequence": "k.Sequence", "ConsistencyLevel": "k.ConsistencyLevel",
		"GuardianSetIndex": "p.gs.Index", "Version": "1", "Signatures": "nil"}
	for _, s := range callsTo(p, a.bSig) {
		if s.Fn != a.hMsg {
			continue
		}
		al, ok := s.Instr.(ssa.CallInstruction).Common().Args[1].(*ssa.Alloc)
		if !ok {
			R.Fail(rule, rule+"/handleMessage", c.sitePos(p, s), "observed VAA", "undecided: not a local literal")
			continue
		}
		vals, cnt := allocStores(al)
		var bad []string
		for _, f := range fields {
			want, ok := msgTable[f]
			if !ok {
				bad = append(bad, "field "+f+" of vaa.VAA is not in the construction table (new field?)")
				continue
			}
			got := "nil"
			if v := vals[f]; v != nil {
				got = facts.Term(v)
			} else if want != "nil" {
				got = "<unset>"
			}
			if got != want || cnt[f] > 1 {
				bad = append(bad, fmt.Sprintf("%s = %s (want %s)", f, got, want))
			}
		}
		// the signed digest and the broadcast VAA are the same literal
		sameV := false
		eachInstr(a.hMsg, func(i ssa.Instruction) {
			if call, ok := i.(*ssa.Call); ok && call.Call.IsInvoke() && call.Call.Method.Name() == "Sign" {
				if strings.Contains(facts.Term(call.Call.Args[0]), "(*N/vaa.VAA).SigningMsg(") {
					if b := asCall(call.Call.Args[0], "(geth/common.Hash).Bytes"); b != nil {
						if sm, ok := resolveSpill(b.Call.Args[0]).(*ssa.Call); ok && sm.Call.Args[0] == al {
							sameV = true
						}
					}
				}
			}
		})
		if !sameV {
			bad = append(bad, "the digest signed is not SigningMsg() of the VAA handed to broadcastSignature")
		}
		R.Check(rule, rule+"/handleMessage/observed-literal", c.sitePos(p, s), "ourVAA is built field-for-field from the chain message (exhaustive over vaa.VAA fields)", len(bad) == 0, strings.Join(bad, "; "))
		R.Sample(map[string]any{"handleMessage_VAA_literal": termMap(vals)})
	}
}

func termMap(m map[string]ssa.Value) map[string]string {
	out := map[string]string{}
	for k, v := range m {
		out[k] = facts.Term(v)
	}
	return out
}

// c02governance: governance-emitter observations never reach the signer.
func c02governance(c *Ctx, a *procAnchors) {
	p, R := a.p, c.R
	govAddr := must(p.FieldOf(pkgProcessor, "Processor", "governanceEmitterAddress"), "Processor.governanceEmitterAddress")
	govChain := must(p.FieldOf(pkgProcessor, "Processor", "governanceChainId"), "Processor.governanceChainId")
	// who may call the guardian signer
	allowed := map[string]bool{"(*N/processor.Processor).handleMessage": true, "(*N/processor.Processor).handleInjection": true, "N/p2p.Run": true}
	n := 0
	for _, f := range p.SrcFuncs("") {
		eachInstr(f, func(i ssa.Instruction) {
			ci, ok := i.(ssa.CallInstruction)
			if !ok || !ci.Common().IsInvoke() || ci.Common().Method.Name() != "Sign" {
				return
			}
			if !strings.HasSuffix(ci.Common().Value.Type().String(), "ecdsasigner.ECDSASigner") {
				return
			}
			n++
			R.Check("C02.governance", R.Key("C02.governance", shortFn(f), "invoke:ECDSASigner.Sign"), c.rel(p.Pos(i.Pos())), "guardian key used in "+fname(f), allowed[fname(top(f))], "unlisted user of the guardian signing key")
		})
	}
	R.Floor("C02.governance.signers", n, 4)
	// sinks in handleMessage: Sign and broadcastSignature
	var sinks []ssa.Instruction
	eachInstr(a.hMsg, func(i ssa.Instruction) {
		if ci, ok := i.(ssa.CallInstruction); ok {
			if ci.Common().IsInvoke() && ci.Common().Method.Name() == "Sign" {
				sinks = append(sinks, i)
			}
			if ci.Common().StaticCallee() == a.bSig {
				sinks = append(sinks, i)
			}
		}
	})
	R.Floor("C02.governance", len(sinks), 2)
	// candidate edges: "EmitterAddress != gov" and "EmitterChain != gov"
	var edges []facts.Edge
	var descr []string
	isMsgField := func(v ssa.Value, name string) bool {
		base, f := fieldLoad(v)
		if f == nil || f.Name() != name {
			return false
		}
		if pr, ok := base.(*ssa.Parameter); ok && pr == a.hMsg.Params[2] {
			return true
		}
		if al, ok := base.(*ssa.Alloc); ok { // the VAA literal, whose field was stored from k.<name>
			vals, cnt := allocStores(al)
			if cnt[name] == 1 {
				b2, f2 := fieldLoad(vals[name])
				if pr, ok := b2.(*ssa.Parameter); ok && pr == a.hMsg.Params[2] && f2 != nil && f2.Name() == name {
					return true
				}
			}
		}
		return false
	}
	for _, b := range a.hMsg.Blocks {
		iff, ok := b.Instrs[len(b.Instrs)-1].(*ssa.If)
		if !ok {
			continue
		}
		x, op, y, ok := cmpOf(facts.Fact{Cond: iff.Cond, Pol: true})
		if !ok || (op != token.EQL && op != token.NEQ) {
			continue
		}
		for _, pair := range [][2]ssa.Value{{x, y}, {y, x}} {
			_, gf := fieldLoad(pair[1])
			if gf == govAddr && isMsgField(pair[0], "EmitterAddress") || gf == govChain && isMsgField(pair[0], "EmitterChain") {
				k := 1 // "==" true edge means equal; the differing edge is the false edge
				if op == token.NEQ {
					k = 0
				}
				edges = append(edges, facts.Edge{B: b.Index, K: k})
				descr = append(descr, facts.Atom(iff.Cond, op == token.NEQ))
			}
		}
	}
	for _, s := range sinks {
		name := "invoke:Sign"
		if s.(ssa.CallInstruction).Common().StaticCallee() == a.bSig {
			name = "call:broadcastSignature"
		}
		ok := len(edges) >= 2 && facts.PassesAny(s.Block(), nil, edges...)
		R.Check("C02.governance", R.Key("C02.governance", shortFn(a.hMsg), name), c.rel(p.Pos(s.Pos())),
			"every path to "+name+" passes `EmitterAddress != governanceEmitterAddress` or `EmitterChain != governanceChainId`", ok,
			fmt.Sprintf("disjunctive edge set found: %v", descr))
	}
}
