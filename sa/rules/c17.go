package rules

import (
	"fmt"
	"go/token"
	"go/types"
	"strings"

	"golang.org/x/tools/go/ssa"

	"wvsa/internal/facts"
	"wvsa/internal/load"
)

func init() {
	register("C17", "Static rules on cmd/guardiand.handleReobservationRequests and common.PostObservationRequest SSA: (route) the only channel sent to is chainObsvReqC[<chain of the request>] obtained by a comma-ok map lookup whose key is the request's chain id converted without loss (a narrowing conversion needs a dominating range check), and on a miss nothing is sent or remembered; (nonblocking) every send in the dispatcher and in PostObservationRequest is a select case with a default, and the dispatcher loop contains no blocking operation other than its top-level select; (remember-on-success) the single cache write has the must-hold fact that the send case was taken, and the send has the must-hold fact that the request was not in the cache; the cache key is (chain, hex(tx hash)) of the request; (window) purge deletes only entries older than 11 min and the ticker period is 7 min (constants read from source). (single-table) exactly one suppression map is made, outside the loop.", c17)
}

func c17(c *Ctx) {
	p, R := c.Node(), c.R
	R.Trust("go/types + go/ssa", "Go select semantics: a select with a default case never blocks", "benbjohnson/clock ticker")
	loopVarRule(c, p, "C17.loopvar", pkgGuardiand, pkgCommon)
	c17allSends(c, p)
	R.Assumption("phase effects between the purge ticker and requests are bounded by the two constants (11..18 min) and not decided further")
	fn := must(p.Func(pkgGuardiand, "handleReobservationRequests"), "guardiand.handleReobservationRequests")
	post := must(p.Func(pkgCommon, "PostObservationRequest"), "common.PostObservationRequest")

	// ---- nonblocking
	for _, f := range []*ssa.Function{fn, post} {
		sends := sendsIn(f)
		for _, sd := range sends {
			R.Check("C17.nonblocking", R.Key("C17.nonblocking", shortFn(f), "send"), c.rel(p.Pos(sd.Instr.Pos())), "send in "+shortFn(f)+" is a select case with a default (never blocks)", sd.InSelect && !sd.Blocking, fmt.Sprintf("inSelect=%v blocking=%v", sd.InSelect, sd.Blocking))
		}
		R.Floor("C17.nonblocking."+shortFn(f), len(sends), 1)
	}
	// blocking operations in the dispatcher: exactly one blocking select (the loop's)
	nb := 0
	for _, op := range blockingOps(fn, nil) {
		nb++
		sel, isSel := op.Instr.(*ssa.Select)
		ok := isSel && len(sel.States) == 3
		R.Check("C17.nonblocking", R.Key("C17.nonblocking", shortFn(fn), "blocking-op"), c.rel(p.Pos(op.Instr.Pos())), "the only blocking operation of the dispatcher is its top-level select over ctx.Done, the ticker and the request queue", ok, op.Desc)
	}
	R.Check("C17.nonblocking", "C17.nonblocking/dispatcher-single-blocking-select", c.rel(p.Pos(fn.Pos())), "exactly one blocking operation in the dispatcher", nb == 1, fmt.Sprintf("%d blocking operations", nb))
	// PostObservationRequest result: nil only when sent
	for _, r := range acceptingReturns(post) {
		fs := facts.Atoms(acceptFacts(r))
		R.Check("C17.nonblocking", "C17.nonblocking/PostObservationRequest/ok-means-sent", c.rel(p.Pos(instrPos(r))), "PostObservationRequest returns nil only when the send case was taken", len(fs) == 1 && fs[0] == "0 == select#0", strings.Join(fs, ";"))
	}

	// ---- route + remember
	var theSend *chanSend
	for _, sd := range sendsIn(fn) {
		sd := sd
		theSend = &sd
	}
	if theSend == nil {
		return
	}
	// the value received from the obsvReqC parameter in the top-level select
	req := "select#?"
	okRecv := false
	eachInstr(fn, func(i ssa.Instruction) {
		if sel, ok := i.(*ssa.Select); ok && sel.Blocking {
			ri := 0
			for _, st := range sel.States {
				if st.Dir == types.RecvOnly {
					if st.Chan == fn.Params[3] {
						okRecv = true
						req = fmt.Sprintf("%s#%d", facts.Term(sel), 2+ri)
					}
					ri++
				}
			}
		}
	})
	// fields of the cache key literal r
	rvals := map[string]string{}
	var keyCell *ssa.Alloc // the local holding the (chain, tx) cache key, whatever it is called
	eachInstr(fn, func(i ssa.Instruction) {
		if al, ok := i.(*ssa.Alloc); ok && c17isKeyCell(al) && al.Referrers() != nil {
			keyCell = al
			for _, r := range *al.Referrers() {
				if fa, ok := r.(*ssa.FieldAddr); ok && fa.Referrers() != nil {
					for _, rr := range *fa.Referrers() {
						if st, ok := rr.(*ssa.Store); ok && st.Addr == fa {
							rvals[fieldOfAddr(fa).Name()] = facts.Term(st.Val)
						}
					}
				}
			}
		}
	})
	R.Check("C17.route", "C17.route/request-source", c.rel(p.Pos(fn.Pos())), "requests are taken from the obsvReqC parameter", okRecv, "select shape changed")
	// channel = chainObsvReqC[key] via comma-ok lookup, key = chain of the request
	chTerm := facts.Term(theSend.Chan)
	okRoute, why := false, "channel = "+chTerm
	var keyVal ssa.Value
	if ex, ok := theSend.Chan.(*ssa.Extract); ok && ex.Index == 0 {
		if lk, ok := ex.Tuple.(*ssa.Lookup); ok && lk.CommaOk && (lk.X == fn.Params[4] || viaStructField(lk.X) == ssa.Value(fn.Params[4])) {
			keyVal = lk.Index
			fs := facts.At(theSend.Instr, nil)
			if facts.HasAtom(fs, facts.Term(lk)+"#1") {
				okRoute = true
			} else {
				why = "send is not dominated by the lookup's ok result"
			}
		}
	}
	R.Check("C17.route", "C17.route/per-chain-channel", c.rel(p.Pos(theSend.Instr.Pos())), "the request is sent only to chainObsvReqC[<its chain>] found by a comma-ok lookup (a miss sends nothing)", okRoute, why)
	R.Check("C17.route", "C17.route/value-forwarded", c.rel(p.Pos(theSend.Instr.Pos())), "the value forwarded is the request itself", facts.Term(theSend.X) == req, "sent value = "+facts.Term(theSend.X))
	if keyVal != nil {
		kt := facts.Term(keyVal)
		if u, ok := keyVal.(*ssa.UnOp); ok {
			if fa, ok := u.X.(*ssa.FieldAddr); ok && keyCell != nil && fa.X == ssa.Value(keyCell) && fieldOfAddr(fa).Name() == "chainId" && rvals["chainId"] != "" {
				kt = rvals["chainId"]
			}
		}
		lossless := !strings.Contains(kt, "narrow:")
		if !lossless {
			// a dominating range check on req.ChainId makes the narrowing lossless
			for _, f := range facts.At(theSend.Instr, nil) {
				x, op, y, ok := cmpOf(f)
				if !ok {
					continue
				}
				if facts.Term(x) == req+".ChainId" && (op == token.LEQ || op == token.LSS) {
					if k, isK := constInt(y); isK && (op == token.LEQ && k <= 65535 || op == token.LSS && k <= 65536) {
						lossless = true
					}
				}
			}
		}
		R.Check("C17.route", "C17.route/chain-id-lossless", c.rel(p.Pos(theSend.Instr.Pos())), "the map key is the chain the request names: the 32-bit wire chain id is not wrapped into 16 bits (chain 65538 must not be routed to chain 2's watcher)", lossless && strings.Contains(kt, req+".ChainId"),
			"map key = "+kt+" with no dominating range check on "+req+".ChainId")
	}
	// cache writes
	nmu := 0
	eachInstr(fn, func(i ssa.Instruction) {
		mu, ok := i.(*ssa.MapUpdate)
		if !ok {
			return
		}
		nmu++
		fs := facts.At(mu, nil)
		// the send case was taken: select#0 == <state index of the send>
		sel := theSend.Instr.(*ssa.Select)
		want := fmt.Sprintf("%d == %s#0", theSend.State, facts.Term(sel))
		keyT := facts.Term(mu.Key)
		okKey := strings.Contains(keyT, "complit")
		if u, ok := mu.Key.(*ssa.UnOp); ok && keyCell != nil && u.X == ssa.Value(keyCell) {
			okKey = true
		}
		R.Check("C17.remember-on-success", R.Key("C17.remember-on-success", shortFn(fn), "mapupdate:cache"), c.rel(p.Pos(mu.Pos())), "the (chain, tx) pair is remembered only when the send to the watcher succeeded, with the current clock time", facts.HasAtom(fs, want) && okKey && strings.HasPrefix(facts.Term(mu.Value), "invoke:github.com/benbjohnson/clock.Clock.Now("), "missing fact "+want+"; key="+keyT+" value="+facts.Term(mu.Value), facts.Atoms(fs)...)
	})
	R.Floor("C17.remember-on-success", nmu, 1)
	// one suppression table for the life of the dispatcher: exactly one map of that type is made,
	// outside the loop — a table replaced while running forgets pairs still inside the window
	var cacheT types.Type
	eachInstr(fn, func(i ssa.Instruction) {
		if mu, ok := i.(*ssa.MapUpdate); ok && cacheT == nil {
			cacheT = mu.Map.Type()
		}
	})
	nmk, mkInLoop := 0, ""
	for _, f := range withAnon(fn) {
		eachInstr(f, func(i ssa.Instruction) {
			mm, ok := i.(*ssa.MakeMap)
			if !ok || cacheT == nil || !types.Identical(mm.Type().Underlying(), cacheT.Underlying()) {
				return
			}
			nmk++
			inLoop := f != fn
			for _, sc := range mm.Block().Succs {
				if blockReaches(sc, mm.Block()) {
					inLoop = true
				}
			}
			if inLoop {
				mkInLoop = c.rel(p.Pos(mm.Pos()))
			}
		})
	}
	R.Check("C17.window", "C17.window/single-table", c.rel(p.Pos(fn.Pos())), "the suppression table is created once, before the dispatcher's loop, and never replaced (entries leave it only through the age-tested purge)", nmk == 1 && mkInLoop == "", fmt.Sprintf("%d tables of the cache's type are made; inside the loop: %s", nmk, mkInLoop))
	// the send requires "not in cache"
	fsS := facts.At(theSend.Instr, nil)
	notCached := facts.Has(fsS, func(a string) bool {
		return strings.HasPrefix(a, "!") && strings.Contains(a, "cache") || strings.HasPrefix(a, "!local:cache[") || strings.HasPrefix(a, "!makemap[")
	})
	if !notCached {
		for _, f := range fsS {
			if ex, ok := f.Cond.(*ssa.Extract); ok && !f.Pol && ex.Index == 1 {
				if lk, ok := ex.Tuple.(*ssa.Lookup); ok && lk.CommaOk {
					if _, isMM := lk.X.(*ssa.MakeMap); isMM {
						notCached = true
					}
				}
			}
		}
	}
	R.Check("C17.remember-on-success", "C17.remember-on-success/send-requires-not-cached", c.rel(p.Pos(theSend.Instr.Pos())), "a request is forwarded only if its (chain, tx) pair is not in the suppression cache", notCached, "no must-hold fact `not in cache` at the send", facts.Atoms(fsS)...)
	// cache key literal: chainId = ChainID(req.ChainId), txHash = hex(req.TxHash)
	okLit := (strings.HasSuffix(rvals["chainId"], req+".ChainId)") || rvals["chainId"] == req+".ChainId") &&
		rvals["txHash"] == "encoding/hex.EncodeToString("+req+".TxHash)"
	R.Check("C17.remember-on-success", "C17.remember-on-success/cache-key", c.rel(p.Pos(fn.Pos())), "the suppression key is (chain id, hex(tx hash)) of the request", okLit, "cache key literal changed")

	// ---- window
	nd := 0
	eachInstr(fn, func(i ssa.Instruction) {
		cl, ok := i.(*ssa.Call)
		if !ok || facts.CalleeName(&cl.Call) != "delete" {
			return
		}
		nd++
		fs := facts.Atoms(facts.At(cl, nil))
		old11 := func(fs []string) bool {
			for _, a := range fs {
				if strings.HasPrefix(a, "660000000000 < (time.Time).Sub(invoke:github.com/benbjohnson/clock.Clock.Now(") {
					return true
				}
			}
			return false
		}
		ok11 := old11(fs)
		if !ok11 && len(cl.Call.Args) == 2 {
			// two-phase purge: the keys to delete were collected into a local slice first; then the
			// age test must hold wherever a key is put on that list
			if ld, isLd := strip(cl.Call.Args[1]).(*ssa.UnOp); isLd && ld.Op == token.MUL {
				if ia, isIA := ld.X.(*ssa.IndexAddr); isIA {
					apps := appendsInto(ia.X)
					ok11 = len(apps) > 0
					for _, ap := range apps {
						afs := facts.Atoms(facts.At(ap, nil))
						if !old11(afs) {
							ok11 = false
							fs = append(fs, "key collected at "+c.rel(p.Pos(ap.Pos()))+" without the age test: "+strings.Join(afs, ";"))
						}
					}
				}
			}
		}
		R.Check("C17.window", R.Key("C17.window", shortFn(fn), "delete:cache"), c.rel(p.Pos(cl.Pos())), "purge removes only entries older than 11 minutes", ok11, strings.Join(fs, ";"))
	})
	R.Floor("C17.window", nd, 1)
	okTick := false
	eachInstr(fn, func(i ssa.Instruction) {
		if cl, ok := i.(*ssa.Call); ok && cl.Call.IsInvoke() && cl.Call.Method.Name() == "Ticker" {
			if k, isK := constInt(cl.Call.Args[0]); isK && k == 420e9 {
				okTick = true
			}
		}
	})
	R.Check("C17.window", "C17.window/ticker", c.rel(p.Pos(fn.Pos())), "purge ticker period is 7 minutes", okTick, "ticker constant changed")
}

// c17isKeyCell: a local of the dispatcher's cache-key struct type (two fields: chain id and tx hash).
func c17isKeyCell(al *ssa.Alloc) bool {
	pt, ok := al.Type().Underlying().(*types.Pointer)
	if !ok {
		return false
	}
	st, ok := pt.Elem().Underlying().(*types.Struct)
	if !ok || st.NumFields() != 2 {
		return false
	}
	names := map[string]bool{st.Field(0).Name(): true, st.Field(1).Name(): true}
	return names["chainId"] && names["txHash"]
}

// c17allSends: requests travel through bounded queues that nobody may wait on — every send of an
// *ObservationRequest anywhere in the node (processor retry, admin RPC, p2p receive path, the
// dispatcher) is a select case with a default. A plain send, or a select that can only also give up
// on context cancellation, stalls its goroutine (the processor's main loop, for the retry path)
// behind a full queue.
func c17allSends(c *Ctx, p *load.Program) {
	R := c.R
	n := 0
	for _, sd := range allSends(p, NodeMod) {
		ct, ok := sd.Chan.Type().Underlying().(*types.Chan)
		if !ok || !strings.HasSuffix(ct.Elem().String(), "gossip/v1.ObservationRequest") {
			continue
		}
		if sd.Fn.Pkg != nil && sd.Fn.Pkg.Pkg.Path() == pkgP2P {
			// the gossip receive loop feeds the dispatcher's input and waits for it by design;
			// the dispatcher itself never blocks (checked above), so that queue always drains
			continue
		}
		n++
		R.Check("C17.nonblocking", R.Key("C17.nonblocking", shortFn(sd.Fn), "send:ObservationRequest"), c.rel(p.Pos(sd.Instr.Pos())), "a re-observation request is handed to a queue without ever waiting for room (select with default)", sd.InSelect && !sd.Blocking,
			fmt.Sprintf("send in %s can block (in a select: %v): a full queue stalls this goroutine", shortFn(sd.Fn), sd.InSelect))
	}
	R.Floor("C17.nonblocking.all-sends", n, 2)
}

// viaStructField: v is a load of a field of a local struct literal that was set exactly once;
// returns the value stored there (the map kept in a small state struct instead of a parameter).
func viaStructField(v ssa.Value) ssa.Value {
	ld, ok := strip(v).(*ssa.UnOp)
	if !ok || ld.Op != token.MUL {
		return nil
	}
	fa, ok := ld.X.(*ssa.FieldAddr)
	if !ok {
		return nil
	}
	base := fa.X
	if al, isAl := resolveSpill(base).(*ssa.Alloc); isAl {
		base = al
	}
	al, ok := base.(*ssa.Alloc)
	if !ok {
		return nil
	}
	vals, cnt := allocStores(al)
	name := fieldOfAddr(fa).Name()
	if cnt[name] != 1 {
		return nil
	}
	return strip(vals[name])
}
