package rules

import (
	"fmt"
	"go/token"
	"go/types"
	"sort"
	"strings"

	"golang.org/x/tools/go/ssa"

	"wvsa/internal/facts"
	"wvsa/internal/layout"
	"wvsa/internal/load"
)

func init() {
	register("C13", "Panic-obligation enumeration and discharge over every function of module node reachable from Processor.Run (static calls, closures, method values, repository implementations of invoked interfaces): (explicit) each panic instruction needs a discharge of kind guarded (a must-hold fact or data-flow fact makes its condition impossible), infallible (proto.Marshal of a locally built message; binary.Write of a fixed-size value into a bytes.Buffer — the argument's static type is checked; an error result that is the constant nil on every return of the callee), environment (signer failure, not a function of the input sequence) or config-gated; a panic whose condition depends on channel input or store content and has no discharge is a violation; (nil) every dereference through the nullable state fields Processor.gs, vaaState.gs, vaaState.ourVAA needs a non-nil proof on every path: a must-hold test on the same value, a phi all of whose edges are proven under their edge facts, or co-assignment (ourMsg and ourVAA are stored together at one site); (bounds) index/slice expressions are discharged by dominating bound facts; (supervision) the processor runs under a supervisor that propagates panics (context).", c13)
}

func c13(c *Ctx) {
	a := c.processor()
	p, R := a.p, c.R
	R.Trust("go/types + go/ssa", "crypto.Ecrecover fails unless the signature is 65 bytes", "proto.Marshal of a well-formed generated message does not fail", "binary.Write of a fixed-size value into a bytes.Buffer does not fail", "senders on the processor's input channels send non-nil values (checked for repository senders of guardian sets)")
	loopVarRule(c, p, "C13.loopvar", pkgProcessor)
	R.Assumption("panics inside third-party libraries, allocation failure and blocking (not a crash) are not decided")

	reach := reachableFuncs(p, a.Run)
	var fns []*ssa.Function
	for f := range reach {
		if f.Pkg != nil && strings.HasPrefix(f.Pkg.Pkg.Path(), NodeMod) && len(f.Blocks) > 0 && p.IsRoot(f.Pkg.Pkg.Path()) {
			fns = append(fns, f)
		}
	}
	// Scope exclusions (one line of reason each):
	//  - pkg/supervisor: reached only through supervisor.Logger(ctx); its panics fire when the context is not a
	//    supervised one, which depends on how the processor was started, not on any input (checked: every call
	//    site in scope passes a ctx parameter).
	//  - pkg/ecdsasigner: signer implementations process the node's own key service responses (environment).
	excluded := map[string]string{N + "supervisor": "context plumbing", N + "ecdsasigner": "signer implementation (environment)"}
	var kept []*ssa.Function
	for _, f := range fns {
		if _, ex := excluded[f.Pkg.Pkg.Path()]; !ex {
			kept = append(kept, f)
		}
	}
	fns = kept
	for _, f := range fns {
		eachInstr(f, func(i ssa.Instruction) {
			if cl, ok := i.(*ssa.Call); ok && facts.CalleeName(&cl.Call) == "N/supervisor.Logger" {
				_, isParam := cl.Call.Args[0].(*ssa.Parameter)
				if !isParam {
					if u, ok := cl.Call.Args[0].(*ssa.UnOp); ok {
						if al, ok := u.X.(*ssa.Alloc); ok && facts.SpilledParam(al) != nil {
							isParam = true
						}
					}
				}
				R.Check("C13.explicit", R.Key("C13.explicit", shortFn(f), "call:supervisor.Logger"), c.rel(p.Pos(cl.Pos())), "supervisor.Logger is called with the handler's supervised context parameter", isParam, "argument = "+facts.Term(cl.Call.Args[0]))
			}
		})
	}
	sort.Slice(fns, func(i, j int) bool { return fname(fns[i]) < fname(fns[j]) })
	R.Count("functions_reachable_from_Processor.Run", len(fns))
	var names []string
	for _, f := range fns {
		names = append(names, fname(f))
	}
	R.Sample(map[string]any{"scope_functions": names})

	marshalNeverErrs := neverErrs(must(p.Method(pkgVAA, "VAA", "Marshal"), "vaa.(*VAA).Marshal"))
	nExplicit, nBounds := 0, 0
	for _, f := range fns {
		for _, ob := range boundsObligations(p, f) {
			key := R.Key("C13."+kindRule(ob.Kind), shortFn(f), ob.Kind+":"+ob.Desc)
			pos := c.rel(p.Pos(instrPos(ob.Instr)))
			if ob.Kind != "panic" {
				nBounds++
				ok, why := ob.OK, ob.Why
				if !ok {
					ok, why = c13boundsException(a, f, ob)
				}
				R.Check("C13.bounds", key, pos, ob.Kind+" "+ob.Desc+" in "+shortFn(f)+" cannot panic", ok, why)
				continue
			}
			nExplicit++
			kind, why := c13dischargePanic(c, a, f, ob.Instr.(*ssa.Panic), marshalNeverErrs)
			R.Check("C13.explicit", key, pos, "explicit "+ob.Desc+" in "+shortFn(f)+" is unreachable for every input sequence or not input-dependent (discharge: "+kind+")", kind != "", why)
		}
	}
	R.Floor("C13.explicit", nExplicit, 10)
	R.Floor("C13.bounds", nBounds, 40)

	c13nil(c, a, fns)

	// ---- supervision (context)
	nsup := 0
	for _, s := range callsNamed(p, pkgGuardiand, "N/supervisor.New") {
		nsup++
		t := facts.Term(s.Instr.(ssa.CallInstruction).Common().Args[len(s.Instr.(ssa.CallInstruction).Common().Args)-1])
		R.Note("supervisor.New in %s with options %s (a processor panic terminates the process when WithPropagatePanic is set)", fname(s.Fn), t)
	}
	R.Count("supervisor.New_sites", nsup)
}

func kindRule(k string) string {
	if k == "panic" {
		return "explicit"
	}
	return "bounds"
}

// neverErrs: every return of fn has the constant nil as its last (error) result.
func neverErrs(fn *ssa.Function) bool {
	ok := true
	n := 0
	eachInstr(fn, func(i ssa.Instruction) {
		if r, isR := i.(*ssa.Return); isR {
			n++
			if len(r.Results) == 0 || !isNilConst(r.Results[len(r.Results)-1]) {
				ok = false
			}
		}
	})
	return ok && n > 0
}

// c13dischargePanic classifies one explicit panic; returns ("", why) when undischarged.
func c13dischargePanic(c *Ctx, a *procAnchors, f *ssa.Function, pn *ssa.Panic, marshalNeverErrs bool) (string, string) {
	p := a.p
	fs := facts.AtRefined(pn, nil)
	// the panic is guarded by `X != nil` for an error X: find its source
	for _, ft := range fs {
		x, op, y, ok := cmpOf(ft)
		if !ok || op != token.NEQ {
			continue
		}
		var ev ssa.Value
		if isNilConst(y) {
			ev = x
		} else if isNilConst(x) {
			ev = y
		}
		if ev == nil {
			continue
		}
		var call *ssa.Call
		if ex, ok := ev.(*ssa.Extract); ok {
			call, _ = ex.Tuple.(*ssa.Call)
		} else if cl, ok := ev.(*ssa.Call); ok {
			call = cl
		}
		if call == nil {
			continue
		}
		name := facts.CalleeName(&call.Call)
		switch {
		case name == "google.golang.org/protobuf/proto.Marshal":
			// infallible when the message is a local literal
			if _, ok := strip(call.Call.Args[0]).(*ssa.Alloc); ok {
				return "infallible", "proto.Marshal of a locally built message"
			}
			return "", "proto.Marshal of a message that is not a local literal: " + facts.Term(call.Call.Args[0])
		case name == "(*N/vaa.VAA).Marshal":
			if marshalNeverErrs {
				return "infallible", "every return of (*VAA).Marshal has a nil error"
			}
			return "", "(*VAA).Marshal can return an error"
		case strings.HasPrefix(name, "invoke:N/ecdsasigner.ECDSASigner.Sign"):
			return "environment", "signing failure of the node's own key (KMS / key material), not a function of the input sequence"
		case name == "encoding/binary.Write":
			// MustWrite: discharged per call site below
			return c13mustWrite(p, f)
		case name == "N/vaa.Unmarshal":
			return "", "vaa.Unmarshal of bytes read from the store can fail: Marshal accepts an empty payload, Unmarshal rejects it (n == 0), so a stored VAA with an empty payload makes this panic reachable when the message is observed again"
		}
	}
	t := facts.Term(pn.X)
	switch {
	case strings.Contains(t, "invalid sig len"):
		// every value stored in vaaState.signatures passed Ecrecover (65 bytes): the single MapUpdate is checked by C01.sigwrite; re-verify here
		mus := mapUpdatesOnField(p, a.vs["signatures"])
		if len(mus) == 1 {
			mu := mus[0].Instr.(*ssa.MapUpdate)
			for _, ft := range facts.At(mu, nil) {
				x, op, y, ok := cmpOf(ft)
				if ok && op == token.EQL {
					for _, pr := range [][2]ssa.Value{{x, y}, {y, x}} {
						if ex, isEx := pr[0].(*ssa.Extract); isEx && ex.Index == 1 && isNilConst(pr[1]) {
							if cl := asCall(ex.Tuple, "geth/crypto.Ecrecover"); cl != nil && facts.Term(cl.Call.Args[1]) == facts.Term(mu.Value) {
								return "guarded", "every value ever stored in vaaState.signatures passed crypto.Ecrecover, which requires 65 bytes; copy() therefore copies 65"
							}
						}
					}
				}
			}
		}
		return "", "cannot show that stored signatures are 65 bytes"
	case strings.Contains(t, "StoreSignedVAA called for unsigned VAA"):
		// every caller passes a VAA with at least one signature
		bad := ""
		for _, s := range callsTo(p, a.store) {
			cfs := facts.At(s.Instr, nil)
			ok := false
			for _, ft := range cfs {
				x, op, y, okc := cmpOf(ft)
				if !okc {
					continue
				}
				// 0 != len(v.Signatures)  or  CalculateQuorum(..) <= len(sigs) (quorum >= 1 for every n, C07)
				if k, isK := constInt(x); isK && k == 0 && (op == token.NEQ || op == token.LSS) && lenOf(y) != nil {
					ok = true
				}
				if op == token.LEQ && asCall(x, fname(a.calcQuorum)) != nil && lenOf(y) != nil {
					ok = true
				}
			}
			if !ok {
				bad = fname(s.Fn)
			}
		}
		if bad == "" {
			return "guarded", "every caller establishes len(Signatures) >= 1 (non-empty test, or >= CalculateQuorum(n) which is >= 1 for every n by C07's table)"
		}
		return "", "caller " + bad + " does not establish a non-empty signature list"
	case strings.Contains(t, "failed to write binary data"):
		return c13mustWrite(p, f)
	}
	// config-gated / other packages
	if f.Pkg.Pkg.Path() == N+"notify/discord" {
		return "config-gated", "Discord notifier is optional operator configuration"
	}
	if fname(f) == "N/supervisor.Logger" {
		return "environment", "supervisor.Logger panics only when called outside a supervised context (programming error, not input)"
	}
	return "", "no discharge found; condition facts: " + facts.Join(fs)
}

// c13mustWrite: MustWrite's panic is infallible when every call site in the scope passes a fixed-size value.
func c13mustWrite(p *load.Program, f *ssa.Function) (string, string) {
	mw := p.Func(pkgVAA, "MustWrite")
	if mw == nil {
		return "", "MustWrite not found"
	}
	for _, s := range callsTo(p, mw) {
		arg := s.Instr.(ssa.CallInstruction).Common().Args[2]
		if layout.BinarySize(strip(arg).Type()) <= 0 {
			return "", "MustWrite called with a value that is not fixed-size at " + p.Pos(s.Instr.Pos())
		}
		// destination must be a *bytes.Buffer
		if !strings.HasSuffix(strip(s.Instr.(ssa.CallInstruction).Common().Args[0]).Type().String(), "bytes.Buffer") {
			return "", "MustWrite destination is not a *bytes.Buffer at " + p.Pos(s.Instr.Pos())
		}
	}
	return "infallible", "binary.Write of fixed-size values into a bytes.Buffer (all MustWrite call sites checked)"
}

// c13boundsException handles the few shapes the generic discharger cannot see.
func c13boundsException(a *procAnchors, f *ssa.Function, ob panicOb) (bool, string) {
	// agg[i] = ok: agg is make([]bool, len(gs.Keys)) indexed by the range index over the same gs.Keys
	if ia, ok := ob.Instr.(*ssa.IndexAddr); ok && f == a.hObs {
		if ms, ok := ia.X.(*ssa.MakeSlice); ok && isRangeIndex(ia.Index) {
			b, ok1 := ia.Index.(*ssa.BinOp)
			if ok1 {
				hdr := b.X.(*ssa.Phi).Block()
				if iff, ok := hdr.Instrs[len(hdr.Instrs)-1].(*ssa.If); ok {
					if bo, ok := iff.Cond.(*ssa.BinOp); ok && facts.Term(bo.Y) == facts.Term(ms.Len) {
						return true, "slice made with the length that bounds the range loop"
					}
				}
			}
		}
	}
	return false, ob.Why
}

// c13nil: dereferences through nullable state.
func c13nil(c *Ctx, a *procAnchors, fns []*ssa.Function) {
	p, R := a.p, c.R
	nullable := map[*types.Var]string{a.fGs: "Processor.gs", a.vs["gs"]: "vaaState.gs", a.vs["ourVAA"]: "vaaState.ourVAA"}
	// co-assignment: ourMsg and ourVAA are stored only in broadcastSignature, in the same block
	coassign := false
	var msgStore, vaaStore *ssa.Store
	for _, s := range storesToField(p, a.vs["ourMsg"]) {
		if !isFreshAlloc(s.Instr.(*ssa.Store).Addr) {
			if msgStore != nil || s.Fn != a.bSig {
				msgStore = nil
				break
			}
			msgStore = s.Instr.(*ssa.Store)
		}
	}
	for _, s := range storesToField(p, a.vs["ourVAA"]) {
		if !isFreshAlloc(s.Instr.(*ssa.Store).Addr) {
			vaaStore = s.Instr.(*ssa.Store)
		}
	}
	if msgStore != nil && vaaStore != nil && msgStore.Block() == vaaStore.Block() {
		coassign = true
	}
	R.Check("C13.nil", "C13.nil/co-assignment", "", "ourMsg and ourVAA are stored together at one site (so ourMsg != nil implies ourVAA != nil)", coassign, "stores are not paired")
	n := 0
	for _, f := range fns {
		if f.Pkg.Pkg.Path() != pkgProcessor {
			continue
		}
		eachInstr(f, func(i ssa.Instruction) {
			// a dereference: FieldAddr whose base pointer derives (through phis) from a load of a nullable field,
			// or a call with such a value as receiver/argument of a method that dereferences it (conservatively: receiver)
			var base ssa.Value
			switch x := i.(type) {
			case *ssa.FieldAddr:
				base = x.X
			case *ssa.Call:
				if x.Call.StaticCallee() != nil && x.Call.StaticCallee().Signature.Recv() != nil && len(x.Call.Args) > 0 {
					base = x.Call.Args[0]
				}
				if callee := x.Call.StaticCallee(); callee != nil && callee == a.vaaIDFromVAA {
					base = x.Call.Args[0]
				}
			}
			if base == nil {
				return
			}
			var srcFld *types.Var
			for _, leaf := range phiLeaves(base) {
				if lf := loadedField(leaf); lf != nil && nullable[lf] != "" {
					srcFld = lf
				}
			}
			if srcFld == nil {
				return
			}
			n++
			fs := facts.AtRefined(i, nil)
			proven, why := nilProof(a, base, i, fs, coassign, 0)
			if !proven && f == a.Run && loadedField(base) == a.fGs {
				// right after `p.gs = <-p.setC`: the received value is a non-nil literal (sender rule below)
				if facts.Before(i, func(x ssa.Instruction) bool {
					st, ok := x.(*ssa.Store)
					if !ok || fieldOfAddr(st.Addr) != a.fGs || x.Block() != i.Block() {
						return false
					}
					ex, ok := st.Val.(*ssa.Extract)
					if !ok {
						return false
					}
					_, isSel := ex.Tuple.(*ssa.Select)
					return isSel
				}) {
					proven, why = true, "loaded right after `p.gs = <-p.setC`; every sender sends a non-nil literal (checked) and the channel is never closed"
				}
			}
			if !proven && loadedField(base) == a.fGs && f == a.hCleanup {
				// invariant: an entry with ourMsg == nil exists only if p.gs != nil
				bt := ""
				for _, ft := range fs {
					if strings.HasSuffix(ft.Atom, ".ourMsg == nil") {
						bt = ft.Atom
					}
				}
				if bt != "" {
					if okI, whyI := c13invariant(a); okI {
						proven, why = true, "entry has ourMsg == nil ("+bt+"); invariant: "+whyI
					} else {
						why = "invariant `entry.ourMsg == nil implies p.gs != nil` not established: " + whyI
					}
				}
			}
			key := R.Key("C13.nil", shortFn(f), "deref:"+facts.Term(base))
			R.Check("C13.nil", key, c.rel(p.Pos(instrPos(i))), "dereference of "+facts.Term(base)+" (nullable "+nullable[srcFld]+") is proven non-nil on every path", proven, why, facts.Atoms(fs)...)
		})
	}
	R.Floor("C13.nil", n, 15)
	// results of failed calls: a pointer returned together with an error may only be dereferenced on paths
	// where that error was tested nil (or the pointer itself non-nil)
	nres := 0
	for _, f := range fns {
		if f.Pkg.Pkg.Path() != pkgProcessor {
			continue
		}
		eachInstr(f, func(i ssa.Instruction) {
			var base ssa.Value
			switch x := i.(type) {
			case *ssa.FieldAddr:
				base = x.X
			case *ssa.Call:
				if cal := x.Call.StaticCallee(); cal != nil && cal.Signature.Recv() != nil && len(x.Call.Args) > 0 {
					if _, isPtr := cal.Signature.Recv().Type().(*types.Pointer); isPtr {
						base = x.Call.Args[0]
					}
				}
			}
			if base == nil {
				return
			}
			for _, leaf := range phiLeaves(base) {
				ex, ok := leaf.(*ssa.Extract)
				if !ok || ex.Index != 0 {
					continue
				}
				cl, ok := ex.Tuple.(*ssa.Call)
				if !ok {
					continue
				}
				res := cl.Call.Signature().Results()
				if res.Len() < 2 || types.TypeString(res.At(res.Len()-1).Type(), nil) != "error" {
					continue
				}
				if _, isPtr := ex.Type().Underlying().(*types.Pointer); !isPtr {
					continue
				}
				nres++
				fs := facts.AtRefined(i, nil)
				ok2 := false
				for _, ft := range fs {
					x, op, y, okc := cmpOf(ft)
					if !okc {
						continue
					}
					for _, pr := range [][2]ssa.Value{{x, y}, {y, x}} {
						if e2, isEx := pr[0].(*ssa.Extract); isEx && e2.Tuple == ex.Tuple && e2.Index == res.Len()-1 && isNilConst(pr[1]) && op == token.EQL {
							ok2 = true
						}
						if pr[0] == base && isNilConst(pr[1]) && op == token.NEQ {
							ok2 = true
						}
					}
				}
				R.Check("C13.nil", R.Key("C13.nil", shortFn(f), "deref-result:"+facts.CalleeName(&cl.Call)), c.rel(p.Pos(instrPos(i))), "the pointer result of "+facts.CalleeName(&cl.Call)+" is dereferenced only where its error was tested nil", ok2,
					"dereference of "+facts.Term(base)+" is reachable on a path where the call's error is not known to be nil (a failed call returns a nil pointer)", facts.Atoms(fs)...)
			}
		})
	}
	R.Floor("C13.nil.results", nres, 3)
	// guardian sets sent on setC are non-nil literals; the channel is never closed
	gsT := must(p.Named(pkgCommon, "GuardianSet"), "common.GuardianSet")
	nsend := 0
	for _, sd := range allSends(p, "") {
		ch, ok := sd.Chan.Type().Underlying().(*types.Chan)
		if !ok {
			continue
		}
		pt, ok := ch.Elem().(*types.Pointer)
		if !ok || !types.Identical(pt.Elem(), gsT) {
			continue
		}
		nsend++
		_, isAlloc := sd.X.(*ssa.Alloc)
		R.Check("C13.nil", R.Key("C13.nil", shortFn(sd.Fn), "send:GuardianSet"), c.rel(p.Pos(sd.Instr.Pos())), "a guardian set sent to the processor is a fresh non-nil literal (p.gs never becomes nil again once set)", isAlloc, "sent value: "+facts.Term(sd.X))
	}
	R.Floor("C13.nil.setC-senders", nsend, 1)
}

// nilProof tries to prove that v is non-nil at instruction `at` given the must-hold facts.
func nilProof(a *procAnchors, v ssa.Value, at ssa.Instruction, fs []facts.Fact, coassign bool, depth int) (bool, string) {
	if depth > 3 {
		return false, "proof too deep"
	}
	// (1) a must-hold test on the same SSA value
	for _, f := range fs {
		x, op, y, ok := cmpOf(f)
		if ok && op == token.NEQ && ((x == v && isNilConst(y)) || (y == v && isNilConst(x))) {
			return true, "tested != nil on every path"
		}
	}
	// (2) same access path tested, memory stable between test and use
	t := facts.Term(v)
	for _, f := range fs {
		if f.Atom == t+" != nil" {
			if u := a.w.unstable(f, at); u == "" {
				return true, "same access path tested != nil and not written in between"
			}
		}
	}
	// (3) co-assignment: v = X.ourVAA and X.ourMsg != nil holds
	if coassign {
		if base, fld := fieldLoad(v); fld == a.vs["ourVAA"] {
			bt := facts.Term(base)
			for _, f := range fs {
				if f.Atom == bt+".ourMsg != nil" {
					return true, "ourMsg != nil on every path and ourMsg/ourVAA are stored together"
				}
			}
		}
	}
	// (4) phi: every edge proven under that edge's facts
	if ph, ok := v.(*ssa.Phi); ok {
		for k, e := range ph.Edges {
			pred := ph.Block().Preds[k]
			ei := 0
			for j, s := range pred.Succs {
				if s == ph.Block() {
					ei = j
				}
			}
			efs := facts.AtEdge(pred, ei, nil)
			okE, _ := nilProof(a, e, pred.Instrs[len(pred.Instrs)-1], efs, coassign, depth+1)
			if !okE {
				return false, fmt.Sprintf("edge value %s of the phi is not proven non-nil under its edge facts {%s}", facts.Term(e), facts.Join(efs))
			}
		}
		return true, "every phi edge proven non-nil under its edge facts"
	}
	if _, ok := v.(*ssa.Alloc); ok {
		return true, "fresh allocation"
	}
	return false, "no must-hold non-nil test of " + t + " on every path"
}

// c13invariant establishes, by induction over handler invocations, that an aggregation entry with
// ourMsg == nil exists only while p.gs != nil:
//
//	(1) vaaState values are allocated only in broadcastSignature (which stores a non-nil ourMsg into
//	    the entry before returning) and in handleObservation under must-hold facts `G != nil` and
//	    `vaaSignatures[h] == nil`, where G = phi{entry.gs (edge requires vaaSignatures[h] != nil) | p.gs}:
//	    the first edge contradicts the second fact, so G is the load of p.gs and p.gs != nil;
//	(2) ourMsg is stored only in broadcastSignature, with the result of a successful proto.Marshal;
//	(3) p.gs is stored only in Run from a receive on setC whose senders send non-nil literals (checked
//	    separately), so it never becomes nil again.
func c13invariant(a *procAnchors) (bool, string) {
	p := a.p
	vsT := p.Named(pkgProcessor, "vaaState")
	if vsT == nil {
		return false, "vaaState type not found"
	}
	for _, s := range allocsOf(p, vsT) {
		switch s.Fn {
		case a.bSig:
			// ourMsg stored on every path after the allocation
			ok, _ := facts.MustPassAfter(s.Instr, func(i ssa.Instruction) bool {
				st, isSt := i.(*ssa.Store)
				return isSt && fieldOfAddr(st.Addr) == a.vs["ourMsg"]
			})
			if !ok {
				return false, "broadcastSignature can return without storing ourMsg into the new entry"
			}
		case a.hObs:
			fs := facts.At(s.Instr, nil)
			entryNil := false
			for _, f := range fs {
				if f.Atom == "p.state.vaaSignatures[encoding/hex.EncodeToString(m.Hash)] == nil" {
					if a.w.unstable(f, s.Instr) == "" {
						entryNil = true
					}
				}
			}
			var G *ssa.Phi
			for _, f := range fs {
				x, op, y, ok := cmpOf(f)
				if ok && op == token.NEQ {
					for _, v := range []ssa.Value{x, y} {
						if ph, isPh := v.(*ssa.Phi); isPh && (isNilConst(x) || isNilConst(y)) {
							G = ph
						}
					}
				}
			}
			if !entryNil || G == nil {
				return false, "allocation in handleObservation lacks the facts `entry == nil` and `gs != nil`"
			}
			for k, e := range G.Edges {
				if loadedField(e) == a.fGs {
					continue
				}
				// the other edge must require the entry to exist
				pred := G.Block().Preds[k]
				ei := 0
				for j, sc := range pred.Succs {
					if sc == G.Block() {
						ei = j
					}
				}
				need := false
				for _, at := range facts.Atoms(facts.AtEdge(pred, ei, nil)) {
					if at == "p.state.vaaSignatures[encoding/hex.EncodeToString(m.Hash)] != nil" {
						need = true
					}
				}
				if !need {
					return false, "the entry-snapshot edge of the guardian-set choice does not require the entry to exist"
				}
			}
			// no write to vaaSignatures between the choice and the allocation other than none: checked by unstable() above
		default:
			return false, "vaaState allocated in unexpected function " + fname(s.Fn)
		}
	}
	for _, s := range storesToField(p, a.vs["ourMsg"]) {
		st := s.Instr.(*ssa.Store)
		if isFreshAlloc(st.Addr) {
			return false, "ourMsg initialised in a literal"
		}
		if s.Fn != a.bSig || !strings.HasPrefix(facts.Term(st.Val), "google.golang.org/protobuf/proto.Marshal(") {
			return false, "ourMsg stored outside broadcastSignature or not from proto.Marshal"
		}
	}
	for _, s := range storesToField(p, a.fGs) {
		if !isFreshAlloc(s.Instr.(*ssa.Store).Addr) && s.Fn != a.Run {
			return false, "p.gs stored outside Run"
		}
	}
	return true, "entries without ourMsg are created only in handleObservation where the applicable set is p.gs and is non-nil; p.gs never returns to nil; ourMsg is never cleared"
}
