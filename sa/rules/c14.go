package rules

import (
	"fmt"
	"go/constant"
	"go/token"
	"go/types"
	"strings"

	"golang.org/x/tools/go/ssa"

	"wvsa/internal/facts"
)

func init() {
	register("C14", "Wall-clock behaviour is NOT decided. Decided necessary conditions in handleCleanup (pkg/processor SSA): (delete-classes) every delete of an aggregation entry is classified by must-hold or disjunctive edge facts as late (unsubmitted, own VAA present, older than the settlement time AND a quorum VAA for its id is in the store), submitted-expired (submitted and >= 1 h), exhausted (retry counter >= the signed budget when ourMsg != nil, >= the unsigned budget when ourMsg == nil) or never-observed (ourMsg == nil, >= 5 min, last retry >= retryTime ago) — hence an entry the node has signed and not submitted is deleted only when stored or exhausted; (retry-effects) on the retry branch every path posts a re-observation request for (ourVAA.EmitterChain, txHash), re-sends ourMsg, increments retryCount and sets lastRetry, under the guards age >= 5 min and since(lastRetry) >= retryTime; constants retryTime == 5 min and settlementTime == 30 s are read from the source; (progress) retryCount and lastRetry are written only on that branch, so the counter the expiry tests is the one the retry increments. Every store to retryCount adds exactly one.", c14)
}

func c14(c *Ctx) {
	a := c.processor()
	p, R := a.p, c.R
	R.Trust("go/types + go/ssa", "time.Since / Duration arithmetic", "cleanup runs on the processor goroutine (C01.confine)")
	loopVarRule(c, p, "C14.loopvar", pkgProcessor)
	R.Assumption("tick timing, stalls between ticks and the real-time meaning of the retry budget are not decided")
	fn := a.hCleanup
	s := "next(range(p.state.vaaSignatures))#2"
	// constants
	scope := p.ByPath[pkgProcessor].Types.Scope()
	rt, _ := constant.Int64Val(must(scope.Lookup("retryTime"), "retryTime").(*types.Const).Val())
	stl, _ := constant.Int64Val(must(scope.Lookup("settlementTime"), "settlementTime").(*types.Const).Val())
	R.Check("C14.retry-effects", "C14.constants", "", "retryTime == 5 min and settlementTime == 30 s", rt == 300e9 && stl == 30e9, fmt.Sprintf("retryTime=%dns settlementTime=%dns", rt, stl))

	// ---- delete classes
	nd := 0
	eachInstr(fn, func(i ssa.Instruction) {
		cl, ok := i.(*ssa.Call)
		if !ok || facts.CalleeName(&cl.Call) != "delete" || loadedField(cl.Call.Args[0]) != a.fVaaSigs {
			return
		}
		nd++
		fs := facts.At(cl, nil)
		has := func(at string) bool { return facts.HasAtom(fs, at) }
		okKey := facts.Term(cl.Call.Args[1]) == "next(range(p.state.vaaSignatures))#1"
		class, why := "", ""
		age := "time.Since(" + s + ".firstObserved)"
		switch {
		case has("!"+s+".submitted") && has(s+".ourVAA != nil") && has(fmt.Sprintf("%d < %s", stl, age)) &&
			has("(*N/db.Database).GetSignedVAABytes(p.db,*N/db.VaaIDFromVAA("+s+".ourVAA))#1 == nil"):
			class = "late (a quorum VAA for this message id is in the store)"
		case has(s+".submitted") && (has("1 <= (time.Duration).Hours("+age+")") || has("3600000000000 <= "+age)):
			class = "submitted-expired (>= 1 h)"
		case has(s+".ourMsg == nil") && has("!"+s+".submitted") && (has("5 <= (time.Duration).Minutes("+age+")") || has("300000000000 <= "+age)) && has(fmt.Sprintf("%d <= time.Since(%s.lastRetry)", rt, s)):
			class = "never-observed (ourMsg == nil, >= 5 min)"
		case has("!" + s + ".submitted"):
			// exhausted: the guard is a disjunction built from boolean phis; expand it and require every
			// disjunct to pair the retry counter test with the matching ourMsg fact
			var descr []string
			okAll, found := true, false
			var classify func(conj []facts.Fact)
			classify = func(conj []facts.Fact) {
				// a limit chosen per entry (`limit := 10; if s.ourMsg != nil { limit = 14400 }`):
				// one disjunct per way the limit gets its value, with the facts of that way
				for _, f := range conj {
					x, op, y, ok := cmpOf(f)
					if !ok || op != token.LEQ || !strings.HasSuffix(facts.Term(y), ".retryCount") {
						continue
					}
					ph, isPhi := x.(*ssa.Phi)
					if !isPhi {
						continue
					}
					allConst := true
					for _, e := range ph.Edges {
						if _, isK := constInt(e); !isK {
							allConst = false
						}
					}
					if !allConst {
						continue
					}
					for k, e := range ph.Edges {
						kv, _ := constInt(e)
						pred := ph.Block().Preds[k]
						ei := 0
						for q, sc := range pred.Succs {
							if sc == ph.Block() {
								ei = q
							}
						}
						sub := []facts.Fact{{Atom: fmt.Sprintf("%d <= %s", kv, facts.Term(y))}}
						for _, g := range conj {
							if g.Cond != f.Cond {
								sub = append(sub, g)
							}
						}
						sub = append(sub, facts.AtEdge(pred, ei, nil)...)
						classify(sub)
					}
					return
				}
				signed, unsigned := false, false
				var K int64 = -1
				for _, x := range conj {
					if x.Atom == s+".ourMsg != nil" {
						signed = true
					}
					if x.Atom == s+".ourMsg == nil" {
						unsigned = true
					}
					var k int64
					if n, _ := fmt.Sscanf(x.Atom, "%d <= "+s+".retryCount", &k); n == 1 && k > K {
						K = k
					}
				}
				switch {
				case signed && !unsigned && K >= 14400:
					descr = append(descr, fmt.Sprintf("signed: retryCount >= %d", K))
				case unsigned && !signed && K >= 1:
					descr = append(descr, fmt.Sprintf("never signed: retryCount >= %d", K))
				default:
					okAll = false
					descr = append(descr, fmt.Sprintf("UNCLASSIFIED disjunct {%s}", facts.Join(conj)))
				}
			}
			for _, f := range fs {
				if _, isPhi := f.Cond.(*ssa.Phi); !isPhi || !f.Pol {
					continue
				}
				djs := facts.DNF(f.Cond, true)
				mentions := false
				for _, conj := range djs {
					for _, x := range conj {
						if strings.Contains(x.Atom, s+".retryCount") {
							mentions = true
						}
					}
				}
				if !mentions {
					continue
				}
				found = true
				for _, conj := range djs {
					classify(conj)
				}
			}
			if !found {
				// the guard written as a short-circuit condition of an if (no boolean phi): every
				// way into the deleting block is one disjunct, with the facts of that edge
				found = true
				blk := cl.Block()
				if len(blk.Preds) <= 1 {
					classify(fs)
				} else {
					for _, pr := range blk.Preds {
						for k, sc := range pr.Succs {
							if sc == blk {
								classify(facts.AtEdge(pr, k, nil))
							}
						}
					}
				}
			}
			if found && okAll {
				class = "exhausted (" + strings.Join(descr, "; ") + ")"
			} else {
				why = fmt.Sprintf("unsubmitted entry deleted without its retry budget being spent: %v (signed budget on the pinned tree: 14400)", descr)
			}
		}
		R.Check("C14.delete-classes", R.Key("C14.delete-classes", shortFn(fn), "delete:vaaSignatures"), c.rel(p.Pos(cl.Pos())),
			"delete of an aggregation entry is one of {late+stored, submitted-expired, exhausted, never-observed} and removes the iterated entry (class: "+class+")", class != "" && okKey, why, facts.Atoms(fs)...)
		R.Sample(map[string]any{"delete_at": c.rel(p.Pos(cl.Pos())), "class": class, "facts": facts.Atoms(fs)})
	})
	R.Floor("C14.delete-classes", nd, 4)
	// deletes elsewhere?
	for _, f := range p.SrcFuncs(pkgProcessor) {
		if f == fn {
			continue
		}
		eachInstr(f, func(i ssa.Instruction) {
			if cl, ok := i.(*ssa.Call); ok && facts.CalleeName(&cl.Call) == "delete" && loadedField(cl.Call.Args[0]) == a.fVaaSigs {
				R.Fail("C14.delete-classes", R.Key("C14.delete-classes", shortFn(f), "delete:vaaSignatures"), c.rel(p.Pos(cl.Pos())), "aggregation entry deleted outside handleCleanup", "entries may only be removed by the classified cleanup branches")
			}
		})
	}

	// ---- retry effects
	var post *ssa.Call
	eachInstr(fn, func(i ssa.Instruction) {
		if cl, ok := i.(*ssa.Call); ok && facts.CalleeName(&cl.Call) == "N/common.PostObservationRequest" {
			post = cl
		}
	})
	if post == nil {
		R.Fail("C14.retry-effects", "C14.retry-effects/post", "", "re-observation request", "no call to PostObservationRequest in handleCleanup")
		return
	}
	fs := facts.At(post, nil)
	age := "time.Since(" + s + ".firstObserved)"
	c.checkFacts(p, "C14.retry-effects", fn, "call:PostObservationRequest", post, fs, []req{
		{Name: "entry not submitted", Pred: func(at string) bool { return at == "!"+s+".submitted" }},
		{Name: "node has signed the message (ourMsg != nil)", Pred: func(at string) bool { return at == s+".ourMsg != nil" }},
		{Name: "age >= 5 min", Pred: func(at string) bool {
			return at == "5 <= (time.Duration).Minutes("+age+")" || at == "300000000000 <= "+age
		}},
		{Name: "since(lastRetry) >= retryTime", Pred: func(at string) bool { return at == fmt.Sprintf("%d <= time.Since(%s.lastRetry)", rt, s) }},
	})
	// request content
	okReq := false
	if al, ok := post.Call.Args[1].(*ssa.Alloc); ok {
		vals, _ := allocStores(al)
		okReq = termOrNil(vals["ChainId"]) == s+".ourVAA.EmitterChain" && termOrNil(vals["TxHash"]) == s+".txHash"
	}
	// the request handed to the queue is a fresh object per entry: the queue's consumer reads it
	// later, so an object allocated outside the loop and rewritten per entry would make earlier
	// queued requests name the last entry's transaction
	if al, ok := post.Call.Args[1].(*ssa.Alloc); ok {
		fresh := true
		for _, l := range facts.LoopsOf(fn) {
			body := l.Body()
			if body[post.Block()] && !body[al.Block()] {
				fresh = false
			}
		}
		R.Check("C14.retry-effects", "C14.retry-effects/request-fresh-per-entry", c.rel(p.Pos(al.Pos())), "the request posted for an entry is allocated in that entry's iteration", fresh, "the request object is allocated outside the loop over entries and shared by every request queued in one tick")
	}
	R.Check("C14.retry-effects", "C14.retry-effects/request-content", c.rel(p.Pos(post.Pos())), "the request names the originating chain and transaction of the entry (ourVAA.EmitterChain, txHash) and is posted on the outbound request queue", okReq && facts.Term(post.Call.Args[0]) == "p.obsvReqSendC", "request = "+facts.Term(post.Call.Args[1]))
	effects := []struct {
		name string
		pred func(ssa.Instruction) bool
	}{
		{"re-send of ourMsg on sendC", func(i ssa.Instruction) bool {
			sd, ok := i.(*ssa.Send)
			return ok && facts.Term(sd.Chan) == "p.sendC" && facts.Term(sd.X) == s+".ourMsg"
		}},
		{"retryCount incremented", func(i ssa.Instruction) bool {
			st, ok := i.(*ssa.Store)
			return ok && fieldOfAddr(st.Addr) == a.vs["retryCount"] && (facts.Term(st.Val) == "("+s+".retryCount + 1)" || facts.Term(st.Val) == "(1 + "+s+".retryCount)")
		}},
		{"lastRetry set to now", func(i ssa.Instruction) bool {
			st, ok := i.(*ssa.Store)
			return ok && fieldOfAddr(st.Addr) == a.vs["lastRetry"] && facts.Term(st.Val) == "time.Now()"
		}},
	}
	for _, e := range effects {
		ok := false
		// same iteration: the effect must be passed before the loop header is reached again or the function returns
		ok = mustPassBeforeLeaving(post, e.pred)
		R.Check("C14.retry-effects", "C14.retry-effects/"+strings.ReplaceAll(e.name, " ", "-"), c.rel(p.Pos(post.Pos())), "on the retry branch every path performs: "+e.name, ok, "a path leaves the retry branch without it")
	}
	// ---- progress: the settle case can be taken only once per entry (otherwise it shadows every later case forever)
	nsettle := 0
	ageAtom := fmt.Sprintf("%d < time.Since(%s.firstObserved)", stl, s)
	inSettle := func(fs []facts.Fact) bool { return facts.HasAtom(fs, "!"+s+".settled") && facts.HasAtom(fs, ageAtom) }
	for _, b := range fn.Blocks {
		iff, ok := b.Instrs[len(b.Instrs)-1].(*ssa.If)
		if !ok || len(b.Succs) != 2 {
			continue
		}
		// the settle case is entered over the edge that completes {!settled, age > settlementTime}:
		// whether the test is one phi-valued switch case, a short-circuit chain of an if, or two
		// nested ifs, exactly the edges whose facts have both atoms while the test's own block has
		// not are entries (tests inside the case inherit both atoms and are not entries)
		if inSettle(facts.At(iff, nil)) {
			continue
		}
		for k := 0; k < 2; k++ {
			if !inSettle(facts.AtEdge(b, k, nil)) {
				continue
			}
			nsettle++
			body := b.Succs[k]
			ok2 := false
			if len(body.Instrs) > 0 {
				isStore := func(i ssa.Instruction) bool {
					st, ok := i.(*ssa.Store)
					return ok && fieldOfAddr(st.Addr) == a.vs["settled"] && !isFalseConst(st.Val) && strings.HasPrefix(facts.Term(st.Addr), s+".")
				}
				ok2 = isStore(body.Instrs[0]) || mustPassBeforeLeaving(body.Instrs[0], isStore)
			}
			R.Check("C14.progress", R.Key("C14.progress", shortFn(fn), "settle-once"), c.rel(p.Pos(instrPos(iff))), "every path through the settle case marks the entry settled (otherwise that case matches on every tick and the retry and expiry cases are never reached for the entry)", ok2, "a path leaves the settle case without storing settled = true")
		}
	}
	R.Floor("C14.progress.settle-case", nsettle, 1)
	// an existing entry (with its retry counter and last-retry time) is never replaced
	for _, st := range mapUpdatesOnField(p, a.fVaaSigs) {
		mu := st.Instr.(*ssa.MapUpdate)
		mapT := facts.Term(mu.Map) + "[" + facts.Term(mu.Key) + "]"
		okC := false
		for _, f := range facts.At(mu, nil) {
			if f.Atom == mapT+" == nil" && a.w.unstable(f, mu) == "" {
				okC = true
			}
		}
		R.Check("C14.progress", R.Key("C14.progress", shortFn(st.Fn), "mapupdate:vaaSignatures"), c.sitePos(p, st), "an aggregation entry is created only when none exists (re-observing a message never resets retryCount / lastRetry / firstObserved)", okC, "the entry for the digest can be replaced by a fresh one, which resets its retry schedule and budget")
	}
	// ---- progress: who writes retryCount / lastRetry
	for _, name := range []string{"retryCount", "lastRetry"} {
		n := 0
		for _, st := range storesToField(p, a.vs[name]) {
			if isFreshAlloc(st.Instr.(*ssa.Store).Addr) {
				continue
			}
			n++
			okS := st.Fn == fn && st.Instr.Block() == post.Block() || facts.Before(st.Instr, func(i ssa.Instruction) bool { return i == post })
			R.Check("C14.progress", R.Key("C14.progress", shortFn(st.Fn), "store:"+name), c.sitePos(p, st), name+" is written only on the retry branch", okS && st.Fn == fn, "written elsewhere")
			if name == "retryCount" {
				vt := facts.Term(st.Instr.(*ssa.Store).Val)
				R.Check("C14.progress", R.Key("C14.progress", shortFn(st.Fn), "retryCount-step-one"), c.sitePos(p, st), "the retry counter advances by exactly one per retry performed (the budget counts retries, so an entry is not expired before that many re-sends)", vt == "("+s+".retryCount + 1)" || vt == "(1 + "+s+".retryCount)", "retryCount is set to "+vt)
			}
		}
		R.Floor("C14.progress."+name, n, 1)
	}
}

// mustPassBeforeLeaving: every path from `from` reaches an instruction satisfying pred before it reaches
// a loop header (next iteration) or a return.
func mustPassBeforeLeaving(from ssa.Instruction, pred func(ssa.Instruction) bool) bool {
	fn := from.Parent()
	headers := map[*ssa.BasicBlock]bool{}
	for _, l := range facts.LoopsOf(fn) {
		headers[l.Header] = true
	}
	type pos struct {
		b *ssa.BasicBlock
		i int
	}
	idx := 0
	for k, x := range from.Block().Instrs {
		if x == from {
			idx = k + 1
		}
	}
	seen := map[*ssa.BasicBlock]bool{}
	st := []pos{{from.Block(), idx}}
	for len(st) > 0 {
		q := st[len(st)-1]
		st = st[:len(st)-1]
		hit := false
		for k := q.i; k < len(q.b.Instrs); k++ {
			if pred(q.b.Instrs[k]) {
				hit = true
				break
			}
			if _, isRet := q.b.Instrs[k].(*ssa.Return); isRet {
				return false
			}
		}
		if hit {
			continue
		}
		for _, s := range q.b.Succs {
			if headers[s] {
				return false
			}
			if !seen[s] {
				seen[s] = true
				st = append(st, pos{s, 0})
			}
		}
	}
	return true
}
