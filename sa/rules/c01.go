package rules

import (
	"fmt"
	"go/token"
	"go/types"
	"sort"
	"strings"

	"golang.org/x/tools/go/ssa"

	"wvsa/internal/facts"
	"wvsa/internal/load"
)

const (
	pkgProcessor = N + "processor"
	pkgDB        = N + "db"
	pkgVAA       = N + "vaa"
	pkgCommon    = N + "common"
	pkgReporter  = N + "reporter"
)

// procAnchors resolves the objects of package processor shared by C01, C02, C13, C14.
type procAnchors struct {
	p                                                     *load.Program
	w                                                     *writerIndex
	Run, hMsg, hInj, hObs, hInbound, hCleanup, bSig, bVAA *ssa.Function
	newProc                                               *ssa.Function
	store, getBytes, vaaIDFromVAA                         *ssa.Function
	reportQuorum                                          *ssa.Function
	calcQuorum                                            *ssa.Function
	fGs, fState, fVaaSigs                                 *types.Var
	vs                                                    map[string]*types.Var // vaaState fields
}

func (c *Ctx) processor() *procAnchors {
	p := c.Node()
	a := &procAnchors{p: p, vs: map[string]*types.Var{}}
	m := func(name string) *ssa.Function {
		return must(p.Method(pkgProcessor, "Processor", name), "processor.(*Processor)."+name)
	}
	a.Run, a.hMsg, a.hInj, a.hObs = m("Run"), m("handleMessage"), m("handleInjection"), m("handleObservation")
	a.hInbound, a.hCleanup, a.bSig, a.bVAA = m("handleInboundSignedVAAWithQuorum"), m("handleCleanup"), m("broadcastSignature"), m("broadcastSignedVAA")
	a.newProc = must(p.Func(pkgProcessor, "NewProcessor"), "processor.NewProcessor")
	a.store = must(p.Method(pkgDB, "Database", "StoreSignedVAA"), "db.(*Database).StoreSignedVAA")
	a.getBytes = must(p.Method(pkgDB, "Database", "GetSignedVAABytes"), "db.(*Database).GetSignedVAABytes")
	a.vaaIDFromVAA = must(p.Func(pkgDB, "VaaIDFromVAA"), "db.VaaIDFromVAA")
	a.reportQuorum = must(p.Method(pkgReporter, "AttestationEventReporter", "ReportVAAQuorum"), "reporter.ReportVAAQuorum")
	a.calcQuorum = must(p.Func(pkgProcessor, "CalculateQuorum"), "processor.CalculateQuorum")
	a.fGs = must(p.FieldOf(pkgProcessor, "Processor", "gs"), "Processor.gs")
	a.fState = must(p.FieldOf(pkgProcessor, "Processor", "state"), "Processor.state")
	a.fVaaSigs = must(p.FieldOf(pkgProcessor, "aggregationState", "vaaSignatures"), "aggregationState.vaaSignatures")
	for _, n := range []string{"firstObserved", "ourVAA", "lastRetry", "signatures", "submitted", "settled", "source", "retryCount", "ourMsg", "txHash", "gs"} {
		a.vs[n] = must(p.FieldOf(pkgProcessor, "vaaState", n), "vaaState."+n)
	}
	a.w = newWriterIndex(p)
	c.R.Count("functions_in_package_processor", len(p.SrcFuncs(pkgProcessor)))
	return a
}

// confined computes the set of functions that run only on the Processor.Run goroutine: Run itself
// and every function all of whose uses are plain calls from confined functions outside `go` closures.
func (a *procAnchors) confined() (map[*ssa.Function]bool, map[*ssa.Function]string) {
	p := a.p
	conf := map[*ssa.Function]bool{a.Run: true}
	why := map[*ssa.Function]string{}
	goTargets := map[*ssa.Function]bool{}
	for _, f := range p.SrcFuncs("") {
		eachInstr(f, func(i ssa.Instruction) {
			if g, ok := i.(*ssa.Go); ok {
				if mc, ok := g.Call.Value.(*ssa.MakeClosure); ok {
					goTargets[mc.Fn.(*ssa.Function)] = true
				}
				if sf := g.Call.StaticCallee(); sf != nil {
					goTargets[sf] = true
				}
			}
		})
	}
	inGo := func(f *ssa.Function) bool {
		for g := f; g != nil; g = g.Parent() {
			if goTargets[g] {
				return true
			}
		}
		return false
	}
	cands := p.SrcFuncs(pkgProcessor)
	for changed := true; changed; {
		changed = false
		for _, f := range cands {
			if conf[f] || f.Parent() != nil {
				continue
			}
			sites := callsTo(p, f)
			refs := funcRefs(p, f)
			if len(sites) == 0 || len(refs) > 0 {
				why[f] = fmt.Sprintf("%d call sites, %d escaping references", len(sites), len(refs))
				continue
			}
			ok := true
			for _, s := range sites {
				if _, isGo := s.Instr.(*ssa.Go); isGo {
					ok = false
					why[f] = "started with `go` at " + p.Pos(s.Instr.Pos())
				}
				if !conf[top(s.Fn)] {
					ok = false
					why[f] = "called from unconfined " + fname(s.Fn)
				}
				if inGo(s.Fn) {
					ok = false
					why[f] = "called inside a goroutine closure " + fname(s.Fn)
				}
			}
			if ok {
				conf[f] = true
				changed = true
			}
		}
	}
	return conf, why
}

func init() {
	register("C01", "Static rules over the type-checked SSA of pkg/processor, pkg/db, pkg/vaa: (confine) all aggregation state is touched only from the Processor.Run goroutine, so each handler is atomic w.r.t. that state and per-handler invariants hold after every event sequence; (sinks) who-may-call tables for StoreSignedVAA / broadcastSignedVAA / ReportVAAQuorum / txn.Set; (sigwrite) must-hold facts at the single signature map write: Ecrecover ok and claimed==recovered address, keyed by the digest; (body) ourVAA and gs snapshot stored together under the VAA's own digest; (assemble) published signature list is rebuilt by one range loop over the snapshot's keys with index = loop index; (quorum, inbound) must-hold guard facts at every store/broadcast sink computed by cut-edge reachability on the CFG, including memory stability between test and sink.", c01)
}

func c01(c *Ctx) {
	a := c.processor()
	p := a.p
	R := c.R
	R.Trust("go/types + go/ssa (x/tools v0.29.0)", "go-ethereum crypto.Ecrecover/Keccak256 semantics", "badger stores what it is given (C12/C16)", "guardian sets learned from chain have distinct keys and at most 255 members")
	loopVarRule(c, p, "C01.loopvar", pkgProcessor)
	R.Assumption("cryptographic soundness of Ecrecover is trusted", "guardian set keys are distinct (sets come from chain)")

	// ---- C01.confine ----------------------------------------------------------------------
	conf, why := a.confined()
	stateFields := []*types.Var{a.fGs, a.fState, a.fVaaSigs}
	var vsNames []string
	for n := range a.vs {
		vsNames = append(vsNames, n)
	}
	sort.Strings(vsNames)
	for _, n := range vsNames {
		stateFields = append(stateFields, a.vs[n])
	}
	nacc := 0
	for _, fld := range stateFields {
		for _, s := range fieldAccesses(p, fld) {
			nacc++
			t := top(s.Fn)
			okc := conf[t]
			reason := "accessor runs only on the Run goroutine"
			if t == a.newProc || isFreshAlloc(s.Instr.(ssa.Value)) {
				okc, reason = true, "initialisation of a fresh allocation"
			}
			// inside a `go` closure?
			for g := s.Fn; g != nil && okc; g = g.Parent() {
				if g.Parent() != nil && isGoTarget(g) {
					okc, reason = false, "accessed inside goroutine closure "+fname(g)
				}
			}
			if !okc && reason == "accessor runs only on the Run goroutine" {
				reason = "accessor " + fname(t) + " is not confined to the Run goroutine: " + why[t]
			}
			if !okc {
				R.Fail("C01.confine", R.Key("C01.confine", shortFn(s.Fn), "access:"+fld.Name()), c.sitePos(p, s),
					"state field "+fld.Name()+" accessed in "+fname(s.Fn), reason)
			}
		}
	}
	R.Pass("C01.confine", "C01.confine/summary", "", fmt.Sprintf("%d accesses to %d state fields examined; confined functions: %s", nacc, len(stateFields), strings.Join(sortedFuncNames(conf), ", ")), "who-may-access table")
	R.Floor("C01.confine", nacc, 60)
	// Run is started exactly once (one method-value reference, no direct calls)
	runRefs := funcRefs(p, a.Run)
	runCalls := callsTo(p, a.Run)
	R.Check("C01.confine", "C01.confine/run-started-once", "", "Processor.Run is referenced exactly once (handed to the supervisor) and never called directly",
		len(runRefs) == 1 && len(runCalls) == 0, fmt.Sprintf("found %d references and %d direct calls", len(runRefs), len(runCalls)))
	// Processor.gs stored only in Run
	for _, s := range storesToField(p, a.fGs) {
		if isFreshAlloc(s.Instr.(*ssa.Store).Addr) {
			continue
		}
		R.Check("C01.confine", R.Key("C01.confine", shortFn(s.Fn), "store:Processor.gs"), c.sitePos(p, s), "store to Processor.gs in "+fname(s.Fn),
			s.Fn == a.Run, "Processor.gs may only be replaced in Run's select loop (from setC)")
	}
	// GuardianSet.Keys is never mutated after construction
	keysFld := must(p.FieldOf(pkgCommon, "GuardianSet", "Keys"), "common.GuardianSet.Keys")
	for _, s := range storesToField(p, keysFld) {
		if !isFreshAlloc(s.Instr.(*ssa.Store).Addr) {
			R.Fail("C01.confine", R.Key("C01.confine", shortFn(s.Fn), "store:GuardianSet.Keys"), c.sitePos(p, s), "GuardianSet.Keys mutated in "+fname(s.Fn), "guardian sets must be immutable once published")
		}
	}

	// ---- C01.sinks ------------------------------------------------------------------------
	allowCallers := func(rule string, callee *ssa.Function, allowed ...*ssa.Function) int {
		sites := callsTo(p, callee)
		for _, s := range sites {
			ok := false
			for _, al := range allowed {
				if s.Fn == al {
					ok = true
				}
			}
			_, isGo := s.Instr.(*ssa.Go)
			R.Check(rule, R.Key(rule, shortFn(s.Fn), "call:"+callee.Name()), c.sitePos(p, s),
				fmt.Sprintf("call of %s from %s", fname(callee), fname(s.Fn)), ok && !isGo, "caller is not in the allowed table (or is a `go` statement)")
		}
		for _, s := range funcRefs(p, callee) {
			R.Fail(rule, R.Key(rule, shortFn(s.Fn), "ref:"+callee.Name()), c.sitePos(p, s), "escaping reference to "+fname(callee), "function value escapes; callers cannot be enumerated")
		}
		return len(sites)
	}
	R.Floor("C01.sinks.store", allowCallers("C01.sinks", a.store, a.hObs, a.hInbound), 2)
	R.Floor("C01.sinks.broadcast", allowCallers("C01.sinks", a.bVAA, a.hObs), 1)
	R.Floor("C01.sinks.report", allowCallers("C01.sinks", a.reportQuorum, a.hObs, a.hInbound), 2)
	// SignedVaaWithQuorum envelopes are built only in broadcastSignedVAA
	nenv := 0
	for _, f := range p.SrcFuncs("") {
		eachInstr(f, func(i ssa.Instruction) {
			if al, ok := i.(*ssa.Alloc); ok {
				if strings.HasSuffix(al.Type().String(), "gossip/v1.GossipMessage_SignedVaaWithQuorum") {
					nenv++
					R.Check("C01.sinks", R.Key("C01.sinks", shortFn(f), "alloc:GossipMessage_SignedVaaWithQuorum"), c.rel(p.Pos(al.Pos())),
						"SignedVaaWithQuorum gossip envelope built in "+fname(f), f == a.bVAA, "quorum envelopes may only be built by broadcastSignedVAA")
				}
			}
		})
	}
	R.Floor("C01.sinks.envelope", nenv, 1)
	// badger writes only inside StoreSignedVAA
	nset := 0
	for _, nm := range []string{"(*badger.Txn).Set", "(*badger.Txn).SetEntry", "(*badger.WriteBatch).Set", "(*badger.WriteBatch).SetEntry"} {
		for _, s := range callsNamed(p, "", nm) {
			nset++
			R.Check("C01.sinks", R.Key("C01.sinks", shortFn(s.Fn), "call:"+nm), c.sitePos(p, s), "badger write "+nm+" in "+fname(s.Fn),
				top(s.Fn) == a.store || inFuncs(withAnon(a.store), s.Fn), "the VAA store may only be written by StoreSignedVAA")
		}
	}
	R.Floor("C01.sinks.badger-write", nset, 1)

	// ---- C01.sigwrite ---------------------------------------------------------------------
	mus := mapUpdatesOnField(p, a.vs["signatures"])
	R.Floor("C01.sigwrite", len(mus), 1)
	for _, s := range mus {
		mu := s.Instr.(*ssa.MapUpdate)
		key := R.Key("C01.sigwrite", shortFn(s.Fn), "mapupdate:vaaState.signatures")
		if s.Fn != a.hObs {
			R.Fail("C01.sigwrite", key, c.sitePos(p, s), "signature recorded in "+fname(s.Fn), "signatures may only be recorded by handleObservation")
			continue
		}
		fs := facts.At(mu, nil)
		// entry key: map loaded from <vaaSignatures>[H].signatures, H = hex(D)
		entry, _ := fieldLoad(mu.Map)
		var D ssa.Value
		if lk, ok := entry.(*ssa.Lookup); ok && loadedField(lk.X) == a.fVaaSigs {
			if h := asCall(lk.Index, "encoding/hex.EncodeToString"); h != nil {
				D = h.Call.Args[0]
			}
		}
		if D == nil {
			R.Fail("C01.sigwrite", key, c.sitePos(p, s), "signature map write", "undecided: entry is not vaaSignatures[hex.EncodeToString(<digest>)]: "+facts.Term(mu.Map))
			continue
		}
		d, k, v := facts.Term(D), facts.Term(mu.Key), facts.Term(mu.Value)
		rec := "geth/crypto.Ecrecover(" + d + "," + v + ")"
		want := []req{
			{Name: "Ecrecover(digest, sig) succeeded for the digest that keys the entry and the signature stored", Pred: func(a string) bool { return a == rec+"#1 == nil" }},
			{Name: "stored address == address recovered from the signature", Pred: func(a string) bool {
				recAddr := "geth/common.BytesToAddress(geth/crypto.Keccak256([" + rec + "#0[1:]])[12:])"
				return a == facts.CmpAtom(recAddr, token.EQL, k)
			}},
		}
		c.checkFactsStable(p, a.w, "C01.sigwrite", s.Fn, "mapupdate:vaaState.signatures", mu, fs, want)
		R.Sample(map[string]any{"sink": "signatures[" + k + "] = " + v, "entry_digest": d, "facts": facts.Atoms(fs)})
	}

	// ---- C01.body -------------------------------------------------------------------------
	c01body(c, a)
	// ---- C01.assemble + C01.quorum ---------------------------------------------------------
	c01assemble(c, a)
	// ---- C01.inbound ----------------------------------------------------------------------
	c01inbound(c, a)
}

func isGoTarget(f *ssa.Function) bool {
	par := f.Parent()
	if par == nil {
		return false
	}
	found := false
	eachInstr(par, func(i ssa.Instruction) {
		if g, ok := i.(*ssa.Go); ok {
			if mc, ok := g.Call.Value.(*ssa.MakeClosure); ok && mc.Fn == f {
				found = true
			}
		}
	})
	return found
}

// c01body: ourVAA and gs are stored at one site each, together, under hex(v.SigningMsg()) of the
// same v, with gs := p.gs; handleMessage's VAA names p.gs.Index read in the same invocation.
func c01body(c *Ctx, a *procAnchors) {
	p, R := a.p, c.R
	signingMsg := must(p.Method(pkgVAA, "VAA", "SigningMsg"), "vaa.(*VAA).SigningMsg")
	n := 0
	var ourVAAStore, gsStore *ssa.Store
	for _, name := range []string{"ourVAA", "gs"} {
		for _, s := range storesToField(p, a.vs[name]) {
			st := s.Instr.(*ssa.Store)
			if isFreshAlloc(st.Addr) {
				// a literal that sets ourVAA/gs directly would bypass broadcastSignature
				R.Fail("C01.body", R.Key("C01.body", shortFn(s.Fn), "literal:vaaState."+name), c.sitePos(p, s), "vaaState."+name+" initialised in a literal in "+fname(s.Fn), "ourVAA/gs may only be stored by broadcastSignature")
				continue
			}
			n++
			key := R.Key("C01.body", shortFn(s.Fn), "store:vaaState."+name)
			if s.Fn != a.bSig {
				R.Fail("C01.body", key, c.sitePos(p, s), "vaaState."+name+" stored in "+fname(s.Fn), "ourVAA/gs may only be stored by broadcastSignature")
				continue
			}
			if name == "ourVAA" {
				ourVAAStore = st
			} else {
				gsStore = st
			}
		}
	}
	R.Floor("C01.body", n, 2)
	if ourVAAStore == nil || gsStore == nil {
		return
	}
	v := a.bSig.Params[1] // receiver p, then v
	entryOf := func(st *ssa.Store) (digestOf ssa.Value) {
		fa := st.Addr.(*ssa.FieldAddr)
		lk, ok := fa.X.(*ssa.Lookup)
		if ph, isPhi := fa.X.(*ssa.Phi); isPhi {
			// the entry hoisted into a local: `e := m[k]; if e == nil { e = &vaaState{…}; m[k] = e }`
			// — every leaf is the lookup m[k] or a fresh entry stored under the same key
			var keyTerm string
			good := true
			for _, leaf := range phiLeaves(ph) {
				switch x := leaf.(type) {
				case *ssa.Lookup:
					if loadedField(x.X) != a.fVaaSigs {
						good = false
					}
					if keyTerm == "" {
						keyTerm = facts.Term(x.Index)
						lk, ok = x, true
					} else if keyTerm != facts.Term(x.Index) {
						good = false
					}
				case *ssa.Alloc:
					stored := false
					if x.Referrers() != nil {
						for _, r := range *x.Referrers() {
							if mu, isMU := r.(*ssa.MapUpdate); isMU && mu.Value == ssa.Value(x) && loadedField(mu.Map) == a.fVaaSigs && (keyTerm == "" || facts.Term(mu.Key) == keyTerm) {
								stored = true
								if keyTerm == "" {
									keyTerm = facts.Term(mu.Key)
								}
							}
						}
					}
					if !stored {
						good = false
					}
				default:
					good = false
				}
			}
			if !good {
				return nil
			}
		}
		if !ok || lk == nil || loadedField(lk.X) != a.fVaaSigs {
			return nil
		}
		h := asCall(lk.Index, "encoding/hex.EncodeToString")
		if h == nil {
			return nil
		}
		b := asCall(h.Call.Args[0], "(geth/common.Hash).Bytes")
		if b == nil {
			return nil
		}
		// the Hash value is spilled to an alloc when its address is taken; accept load of alloc stored once from SigningMsg
		src := resolveSpill(b.Call.Args[0])
		if sm, ok := src.(*ssa.Call); ok && sm.Call.StaticCallee() == signingMsg {
			return sm.Call.Args[0]
		}
		return nil
	}
	pos := c.rel(p.Pos(ourVAAStore.Pos()))
	d1, d2 := entryOf(ourVAAStore), entryOf(gsStore)
	R.Check("C01.body", "C01.body/broadcastSignature/entry-keyed-by-own-digest", pos, "ourVAA is stored under hex(v.SigningMsg()) of the same v",
		d1 == v && ourVAAStore.Val == v, fmt.Sprintf("entry digest source=%v stored value=%s", termOrNil(d1), facts.Term(ourVAAStore.Val)))
	_, gf := fieldLoad(gsStore.Val)
	R.Check("C01.body", "C01.body/broadcastSignature/gs-snapshot", c.rel(p.Pos(gsStore.Pos())), "the guardian-set snapshot stored with ourVAA is p.gs of this invocation, under the same entry",
		d2 == v && gf == a.fGs && gsStore.Block() == ourVAAStore.Block(), fmt.Sprintf("entry digest source=%v value=%s same-block=%v", termOrNil(d2), facts.Term(gsStore.Val), gsStore.Block() == ourVAAStore.Block()))
	// between the two stores nothing can replace p.gs or the entry
	// (same block, straight line): scan instructions between them
	if gsStore.Block() == ourVAAStore.Block() {
		in := false
		for _, i := range gsStore.Block().Instrs {
			if i == ourVAAStore || i == gsStore {
				if in {
					break
				}
				in = true
				continue
			}
			if in && (a.w.mayWrite(i, a.fGs) || a.w.mayWrite(i, a.fVaaSigs)) {
				R.Fail("C01.body", "C01.body/broadcastSignature/atomic-pair", c.rel(p.Pos(instrPos(i))), "ourVAA and gs stored together", "an instruction between the two stores may replace p.gs or the entry: "+i.String())
			}
		}
	}
	// handleMessage: the VAA handed to broadcastSignature names p.gs.Index
	nb := 0
	for _, s := range callsTo(p, a.bSig) {
		if s.Fn != a.hMsg {
			continue
		}
		nb++
		call := s.Instr.(ssa.CallInstruction).Common()
		al, ok := call.Args[1].(*ssa.Alloc)
		key := "C01.body/handleMessage/set-index-names-current-set"
		if !ok {
			R.Fail("C01.body", key, c.sitePos(p, s), "VAA built in handleMessage", "undecided: broadcastSignature argument is not a local composite literal: "+facts.Term(call.Args[1]))
			continue
		}
		vals, cnt := allocStores(al)
		gi := vals["GuardianSetIndex"]
		base, f1 := fieldLoad(gi)
		var f0 *types.Var
		if base != nil {
			_, f0 = fieldLoad(base)
		}
		okIdx := gi != nil && cnt["GuardianSetIndex"] == 1 && f1 != nil && f1.Name() == "Index" && f0 == a.fGs
		R.Check("C01.body", key, c.sitePos(p, s), "the observed VAA's GuardianSetIndex is p.gs.Index read in the same handler invocation that snapshots p.gs",
			okIdx, "GuardianSetIndex = "+termOrNil(gi))
		// no write to p.gs can happen between that read and the snapshot (Run is the only writer and is not reachable)
		bad := ""
		eachInstr(a.hMsg, func(i ssa.Instruction) {
			if a.w.mayWrite(i, a.fGs) {
				bad = i.String()
			}
		})
		R.Check("C01.body", "C01.body/handleMessage/gs-stable", c.sitePos(p, s), "p.gs cannot change inside handleMessage/broadcastSignature", bad == "", "possible writer: "+bad)
	}
	R.Floor("C01.body.handleMessage", nb, 1)
}

func termOrNil(v ssa.Value) string {
	if v == nil {
		return "<unresolved>"
	}
	return facts.Term(v)
}

// resolveSpill follows a load of a local allocation that is stored exactly once.
func resolveSpill(v ssa.Value) ssa.Value {
	for i := 0; i < 4; i++ {
		// a field of the receiver of a method value bound to a local struct
		if rv := receiverField(v); rv != nil {
			v = rv
			continue
		}
		u, ok := v.(*ssa.UnOp)
		if !ok || u.Op != token.MUL {
			return v
		}
		al, ok := u.X.(*ssa.Alloc)
		if fv, isFV := u.X.(*ssa.FreeVar); isFV {
			// a variable captured from the enclosing function(s): the cell it is bound to
			if a2 := cellOfFreeVar(fv, 0); a2 != nil {
				al, ok = a2, true
			}
		}
		if !ok || al.Referrers() == nil {
			return v
		}
		var st *ssa.Store
		n := 0
		for _, r := range *al.Referrers() {
			if s, ok := r.(*ssa.Store); ok && s.Addr == al {
				st = s
				n++
			}
		}
		if n != 1 {
			return v
		}
		v = st.Val
	}
	return v
}

// c01assemble: the Signatures of the VAA handed to the sinks come from one range loop over the
// keys of the same guardian set that is counted, index = loop index, signature = the verified map
// entry for that key; quorum and ourVAA facts hold at both sinks.
func c01assemble(c *Ctx, a *procAnchors) {
	p, R := a.p, c.R
	var sinks []site
	for _, s := range callsTo(p, a.store) {
		if s.Fn == a.hObs {
			sinks = append(sinks, s)
		}
	}
	for _, s := range callsTo(p, a.bVAA) {
		if s.Fn == a.hObs {
			sinks = append(sinks, s)
		}
	}
	for _, s := range callsTo(p, a.reportQuorum) {
		if s.Fn == a.hObs {
			sinks = append(sinks, s)
		}
	}
	R.Floor("C01.quorum", len(sinks), 3)
	for _, s := range sinks {
		call := s.Instr.(ssa.CallInstruction).Common()
		construct := "call:" + call.StaticCallee().Name()
		al, ok := call.Args[len(call.Args)-1].(*ssa.Alloc)
		if !ok {
			R.Fail("C01.assemble", R.Key("C01.assemble", shortFn(s.Fn), construct), c.sitePos(p, s), "published VAA", "undecided: sink argument is not the local signed-VAA literal: "+facts.Term(call.Args[len(call.Args)-1]))
			continue
		}
		vals, cnt := allocStores(al)
		S := vals["Signatures"]
		if S == nil || cnt["Signatures"] != 1 {
			R.Fail("C01.assemble", R.Key("C01.assemble", shortFn(s.Fn), construct), c.sitePos(p, s), "published VAA", "undecided: Signatures of the published VAA is not set exactly once in its literal")
			continue
		}
		G, why := checkAssemblyLoop(a, S)
		R.Check("C01.assemble", R.Key("C01.assemble", shortFn(s.Fn), construct), c.sitePos(p, s),
			"Signatures of the published VAA = one range loop over <gs>.Keys appending {Index: uint8(loop index), Signature: copy of signatures[<gs>.Keys[index]]} when present",
			G != nil, why)
		if G == nil {
			continue
		}
		// quorum fact, structurally: CalculateQuorum(len(G.Keys)) <= len(S)
		fs := facts.At(s.Instr, nil)
		qok, qwhy := false, "no fact `CalculateQuorum(len(gs.Keys)) <= len(sigs)` over the assembled list and the iterated set"
		for _, f := range fs {
			x, op, y, ok := cmpOf(f)
			if !ok || op != token.LEQ {
				continue
			}
			q := asCall(x, fname(a.calcQuorum))
			if q == nil || lenOf(y) == nil || lenOf(y) != S {
				continue
			}
			kb, kf := fieldLoad(lenOf(q.Call.Args[0]))
			if kf != nil && kf.Name() == "Keys" && kb == G {
				if u := a.w.unstable(f, s.Instr); u != "" {
					qwhy = u
					continue
				}
				qok = true
			}
		}
		R.Check("C01.quorum", R.Key("C01.quorum", shortFn(s.Fn), construct), c.sitePos(p, s), "sink is reached only when len(assembled signatures) >= CalculateQuorum(len(<same gs>.Keys))", qok, qwhy, facts.Atoms(fs)...)
		// ourVAA != nil for the entry keyed by the observation's digest; gs non-nil
		entry := "p.state.vaaSignatures[encoding/hex.EncodeToString(m.Hash)]"
		c.checkFactsStable(p, a.w, "C01.quorum", s.Fn, construct+":guards", s.Instr, fs, []req{
			{Name: "entry.ourVAA != nil (node observed the message itself)", Pred: func(at string) bool { return at == entry+".ourVAA != nil" }},
			{Name: "guardian set in use is non-nil", Exact: func(f facts.Fact) bool {
				x, op, y, ok := cmpOf(f)
				return ok && op == token.NEQ && ((x == G && isNilConst(y)) || (y == G && isNilConst(x)))
			}},
		})
		// body of the published VAA is ourVAA of the same entry (field-for-field copy is C02.body-copy)
		src, _ := fieldLoad(vals["EmitterChain"])
		srcDesc := termOrNil(vals["EmitterChain"])
		if vals["EmitterChain"] == nil {
			// `signed := *entry.ourVAA; signed.Signatures = …`: the body comes with the struct copy
			if w := wholeCopyOf(al); w != nil {
				src, srcDesc = w, "*"+facts.Term(w)
			}
		}
		_, of := fieldLoad(src)
		R.Check("C01.assemble", R.Key("C01.assemble", shortFn(s.Fn), construct+":body-source"), c.sitePos(p, s), "published body is read from entry.ourVAA", of == a.vs["ourVAA"], "EmitterChain source = "+srcDesc)
	}
	// the guardian set used is the entry snapshot when present, else p.gs
	R.Note("guardian set selection in handleObservation: %s", "phi{entry.gs | p.gs} — entry snapshot when non-nil, current set otherwise (C03.obs checks membership against the same value)")
}

// checkAssemblyLoop validates the loop that builds S and returns the guardian-set value iterated.
func checkAssemblyLoop(a *procAnchors, S ssa.Value) (ssa.Value, string) {
	hdr, ok := S.(*ssa.Phi)
	if !ok {
		return nil, "undecided: assembled list is not loop-carried (phi): " + facts.Term(S)
	}
	var G ssa.Value
	nApp := 0
	for _, leaf := range phiLeaves(S) {
		if isNilConst(leaf) {
			continue
		}
		app := asCall(leaf, "append")
		if app == nil {
			return nil, "assembled list has a source that is neither nil nor append(...): " + facts.Term(leaf)
		}
		nApp++
		if !inPhiWeb(S, app.Call.Args[0]) {
			return nil, "append does not extend the assembled list itself: " + facts.Term(app.Call.Args[0])
		}
		el := singleVararg(app.Call.Args[1])
		sigAl, ok := el.(*ssa.Alloc)
		if !ok {
			return nil, "undecided: appended element is not a single &vaa.Signature literal"
		}
		vals, cnt := allocStores(sigAl)
		if cnt["Index"] != 1 || cnt["Signature"] != 1 {
			return nil, "undecided: Signature literal fields not set exactly once"
		}
		// Index = uint8(I), I = phi(-1, I) + 1 of the loop whose header holds S
		cv, ok := vals["Index"].(*ssa.Convert)
		if !ok {
			return nil, "Signature.Index is not a conversion of the loop index: " + facts.Term(vals["Index"])
		}
		var I ssa.Value
		var keys ssa.Value
		if bound, isCounted := facts.CountedLoopIndex(cv.X); isCounted {
			// `for i := 0; i < len(gs.Keys); i++` — the index phi itself
			if cv.X.(*ssa.Phi).Block() != hdr.Block() {
				return nil, "Signature.Index is not the index of the assembling loop: " + facts.Term(cv.X)
			}
			I = cv.X
			keys = lenOf(bound)
		} else {
			IB, ok := cv.X.(*ssa.BinOp)
			if !ok || IB.Op != token.ADD {
				return nil, "Signature.Index is not the range index: " + facts.Term(cv.X)
			}
			iphi, ok := IB.X.(*ssa.Phi)
			one, isOne := constInt(IB.Y)
			if !ok || !isOne || one != 1 || iphi.Block() != hdr.Block() {
				return nil, "Signature.Index is not the range index of the assembling loop: " + facts.Term(cv.X)
			}
			for _, e := range iphi.Edges {
				if e == ssa.Value(IB) {
					continue
				}
				if k, ok := constInt(e); !ok || k != -1 {
					return nil, "range index does not start at 0 / is not incremented by one per iteration"
				}
			}
			I = IB
			// loop bound: I < len(G.Keys)
			if iff, ok := hdr.Block().Instrs[len(hdr.Block().Instrs)-1].(*ssa.If); ok {
				if bo, ok := iff.Cond.(*ssa.BinOp); ok && bo.Op == token.LSS && bo.X == I {
					keys = lenOf(bo.Y)
				}
			}
		}
		kb, kf := fieldLoad(keys)
		if kf == nil || kf.Name() != "Keys" || kf.Pkg().Path() != pkgCommon {
			return nil, "undecided: assembling loop is not `range <gs>.Keys`"
		}
		if G != nil && G != kb {
			return nil, "two appends iterate different guardian sets"
		}
		G = kb
		// Signature = copy of lookup signatures[keys[I]] with ok
		ld, ok := strip(vals["Signature"]).(*ssa.UnOp)
		if !ok {
			return nil, "undecided: Signature bytes are not loaded from a local array"
		}
		bs, ok := ld.X.(*ssa.Alloc)
		if !ok || bs.Referrers() == nil {
			return nil, "undecided: Signature bytes are not loaded from a local array"
		}
		var lk *ssa.Lookup
		for _, r := range *bs.Referrers() {
			sl, ok := r.(*ssa.Slice)
			if !ok || sl.Referrers() == nil {
				continue
			}
			for _, rr := range *sl.Referrers() {
				if cp, ok := rr.(*ssa.Call); ok && facts.CalleeName(&cp.Call) == "copy" && cp.Call.Args[0] == sl {
					if ex, ok := cp.Call.Args[1].(*ssa.Extract); ok && ex.Index == 0 {
						lk, _ = ex.Tuple.(*ssa.Lookup)
					}
				}
			}
		}
		if lk == nil || !lk.CommaOk {
			return nil, "undecided: signature bytes are not copied from a comma-ok lookup in the signatures map"
		}
		if loadedField(lk.X) != a.vs["signatures"] {
			return nil, "signature bytes are not read from vaaState.signatures: " + facts.Term(lk.X)
		}
		if !strings.HasPrefix(facts.Term(lk.X), "p.state.vaaSignatures[encoding/hex.EncodeToString(m.Hash)]") {
			return nil, "signatures are read from another entry than the one keyed by the observation digest: " + facts.Term(lk.X)
		}
		ka, ok := strip(lk.Index).(*ssa.UnOp)
		var kia *ssa.IndexAddr
		if ok {
			kia, _ = ka.X.(*ssa.IndexAddr)
		}
		if kia == nil || kia.Index != I {
			return nil, "signature looked up under a key that is not <gs>.Keys[loop index]: " + facts.Term(lk.Index)
		}
		kb2, kf2 := fieldLoad(kia.X)
		if kf2 != kf || kb2 != G {
			return nil, "signature looked up under keys of a different set than the one iterated: " + facts.Term(kia.X)
		}
		// present-only: append block requires lookup ok
		loop := facts.Loop{Header: hdr.Block()}
		fs := facts.Between(loop.Header, app.Block(), nil)
		okAtom := facts.Term(lk) + "#1"
		if !facts.HasAtom(fs, okAtom) {
			return nil, "append is not guarded by the lookup's ok result"
		}
		// at most once per iteration: the append block is not inside a nested loop
		for _, l := range facts.LoopsOf(app.Parent()) {
			if l.Header != hdr.Block() && l.Body()[app.Block()] && hdr.Block().Dominates(l.Header) {
				return nil, "append sits in a nested loop (index could repeat)"
			}
		}
	}
	if nApp != 1 {
		return nil, fmt.Sprintf("expected exactly one append feeding the assembled list, found %d", nApp)
	}
	return G, "loop shape confirmed; iterated set = " + facts.Term(G)
}

func c01inbound(c *Ctx, a *procAnchors) {
	p, R := a.p, c.R
	n := 0
	for _, callee := range []*ssa.Function{a.store, a.reportQuorum} {
		for _, s := range callsTo(p, callee) {
			if s.Fn != a.hInbound {
				continue
			}
			n++
			call := s.Instr.(ssa.CallInstruction).Common()
			V := call.Args[len(call.Args)-1]
			v := facts.Term(V)
			um := asCallOfExtract(V, fname(must(p.Func(pkgVAA, "Unmarshal"), "vaa.Unmarshal")))
			construct := "call:" + callee.Name()
			if um == nil {
				R.Fail("C01.inbound", R.Key("C01.inbound", shortFn(s.Fn), construct), c.sitePos(p, s), "inbound VAA sink", "stored value is not the result of vaa.Unmarshal of the received bytes: "+v)
				continue
			}
			umT := facts.Term(um)
			fs := facts.At(s.Instr, nil)
			q := fname(a.calcQuorum) + "(len(p.gs.Keys))"
			get := fname(a.getBytes) + "(p.db,*" + fname(a.vaaIDFromVAA) + "(" + v + "))#1"
			c.checkFactsStable(p, a.w, "C01.inbound", s.Fn, construct, s.Instr, fs, []req{
				{Name: "Unmarshal succeeded", Pred: func(at string) bool { return at == umT+"#1 == nil" }},
				{Name: "current guardian set known", Pred: func(at string) bool { return at == "p.gs != nil" }},
				{Name: "current guardian set non-empty", Pred: func(at string) bool { return at == "0 != len(p.gs.Keys)" || at == "0 < len(p.gs.Keys)" }},
				{Name: "VAA has signatures", Pred: func(at string) bool { return at == "0 != len("+v+".Signatures)" || at == "0 < len("+v+".Signatures)" }},
				{Name: "len(signatures) >= CalculateQuorum(len(current set))", Pred: func(at string) bool { return at == q+" <= len("+v+".Signatures)" }},
				{Name: "VerifySignatures against the current set's keys", Pred: func(at string) bool {
					return at == "(*N/vaa.VAA).VerifySignatures("+v+",p.gs.Keys)"
				}},
				{Name: "store lookup for this VAA's id answered not-found (never replaces a stored VAA)", Pred: func(at string) bool {
					return at == facts.CmpAtom(get, token.EQL, "*N/db.ErrVAANotFound") || at == facts.CmpAtom("*N/db.ErrVAANotFound", token.EQL, get)
				}},
			})
			R.Sample(map[string]any{"sink": fname(callee) + " in handleInboundSignedVAAWithQuorum", "facts": facts.Atoms(fs)})
		}
	}
	R.Floor("C01.inbound", n, 2)
}

// asCallOfExtract returns the call when v is `extract #0` of a call to name.
func asCallOfExtract(v ssa.Value, name string) *ssa.Call {
	ex, ok := v.(*ssa.Extract)
	if !ok || ex.Index != 0 {
		return nil
	}
	c, ok := ex.Tuple.(*ssa.Call)
	if !ok || facts.CalleeName(&c.Call) != name {
		return nil
	}
	return c
}

// cellOfFreeVar: the allocation a captured variable is bound to, followed outwards through
// enclosing closures that merely pass the capture on.
func cellOfFreeVar(fv *ssa.FreeVar, depth int) *ssa.Alloc {
	fn := fv.Parent()
	if fn == nil || fn.Parent() == nil || depth > 4 {
		return nil
	}
	idx := -1
	for k, q := range fn.FreeVars {
		if q == fv {
			idx = k
		}
	}
	var out *ssa.Alloc
	eachInstr(fn.Parent(), func(i ssa.Instruction) {
		if mc, isMC := i.(*ssa.MakeClosure); isMC && mc.Fn == ssa.Value(fn) && idx >= 0 && idx < len(mc.Bindings) {
			switch b := mc.Bindings[idx].(type) {
			case *ssa.Alloc:
				out = b
			case *ssa.FreeVar:
				out = cellOfFreeVar(b, depth+1)
			}
		}
	})
	return out
}

func inFuncs(fs []*ssa.Function, f *ssa.Function) bool {
	for _, g := range fs {
		if g == f {
			return true
		}
	}
	return false
}
