package rules

import (
	"go/ast"
	"go/constant"
	"go/token"
	"go/types"

	"golang.org/x/tools/go/ssa"

	"wvsa/internal/facts"
)

// strip removes value-preserving wrappers (widening conversions, type changes, interface boxing).
func strip(v ssa.Value) ssa.Value {
	for {
		switch x := v.(type) {
		case *ssa.Convert:
			if facts.Term(x) != facts.Term(x.X) { // narrowing conversions are not transparent
				return v
			}
			v = x.X
		case *ssa.ChangeType:
			v = x.X
		case *ssa.MakeInterface:
			v = x.X
		case *ssa.ChangeInterface:
			v = x.X
		case *ssa.Phi:
			// the merge of an inlined helper's results, resolved to the value it has at its uses
			if a := facts.ThreadedValue(x); a != ssa.Value(x) {
				v = a
				continue
			}
			return v
		default:
			return v
		}
	}
}

// asCall returns the call when v is a call whose canonical callee name is name.
func asCall(v ssa.Value, name string) *ssa.Call {
	c, ok := strip(v).(*ssa.Call)
	if !ok {
		return nil
	}
	if facts.CalleeName(&c.Call) == name {
		return c
	}
	return nil
}

// lenOf returns x when v is len(x).
func lenOf(v ssa.Value) ssa.Value {
	if c := asCall(v, "len"); c != nil && len(c.Call.Args) == 1 {
		return c.Call.Args[0]
	}
	return nil
}

// fieldLoad returns (base, field) when v is a load of base.field.
func fieldLoad(v ssa.Value) (ssa.Value, *types.Var) {
	switch x := strip(v).(type) {
	case *ssa.UnOp:
		if x.Op == token.MUL {
			if fa, ok := x.X.(*ssa.FieldAddr); ok {
				return stripPhi(fa.X), fieldOfAddr(fa)
			}
		}
	case *ssa.Field:
		return stripPhi(x.X), fieldOfAddr(x)
	}
	return nil, nil
}

// cmp decomposes a comparison fact into canonical (lhs, op, rhs) with op in {<,<=,==,!=}.
func cmpOf(f facts.Fact) (x ssa.Value, op token.Token, y ssa.Value, ok bool) {
	cond, pol := f.Cond, f.Pol
	for {
		u, isU := cond.(*ssa.UnOp)
		if isU && u.Op == token.NOT {
			cond, pol = u.X, !pol
			continue
		}
		break
	}
	b, isB := cond.(*ssa.BinOp)
	if !isB {
		return nil, 0, nil, false
	}
	inv := map[token.Token]token.Token{token.EQL: token.NEQ, token.NEQ: token.EQL, token.LSS: token.GEQ,
		token.GEQ: token.LSS, token.LEQ: token.GTR, token.GTR: token.LEQ}
	op = b.Op
	if _, isCmp := inv[op]; !isCmp {
		return nil, 0, nil, false
	}
	if !pol {
		op = inv[op]
	}
	x, y = b.X, b.Y
	switch op {
	case token.GTR:
		x, y, op = y, x, token.LSS
	case token.GEQ:
		x, y, op = y, x, token.LEQ
	}
	return x, op, y, true
}

// allocStores returns, for a composite literal allocation, the value stored to each field
// (by field name) in its function. A field stored more than once maps to nil in `multi`.
func allocStores(a *ssa.Alloc) (map[string]ssa.Value, map[string]int) {
	vals := map[string]ssa.Value{}
	n := map[string]int{}
	if a.Referrers() == nil {
		return vals, n
	}
	for _, r := range *a.Referrers() {
		fa, ok := r.(*ssa.FieldAddr)
		if !ok || fa.X != a || fa.Referrers() == nil {
			continue
		}
		name := fieldOfAddr(fa).Name()
		for _, rr := range *fa.Referrers() {
			if st, ok := rr.(*ssa.Store); ok && st.Addr == fa {
				vals[name] = st.Val
				n[name]++
			}
		}
	}
	return vals, n
}

// isConstNil / const helpers
func isNilConst(v ssa.Value) bool {
	c, ok := v.(*ssa.Const)
	return ok && c.Value == nil
}

func constInt(v ssa.Value) (int64, bool) {
	c, ok := strip(v).(*ssa.Const)
	if !ok || c.Value == nil {
		return 0, false
	}
	if !types.Identical(c.Type().Underlying(), c.Type().Underlying()) {
		return 0, false
	}
	if b, ok := c.Type().Underlying().(*types.Basic); !ok || b.Info()&types.IsInteger == 0 {
		return 0, false
	}
	return c.Int64(), true
}

// phiLeaves returns the non-phi values that flow into v through phis (v itself excluded when
// reached again through a cycle).
func phiLeaves(v ssa.Value) []ssa.Value {
	var out []ssa.Value
	seen := map[ssa.Value]bool{}
	var walk func(x ssa.Value)
	walk = func(x ssa.Value) {
		if seen[x] {
			return
		}
		seen[x] = true
		if p, ok := x.(*ssa.Phi); ok {
			for _, e := range p.Edges {
				walk(e)
			}
			return
		}
		out = append(out, x)
	}
	walk(v)
	return out
}

// inPhiWeb reports whether x is v or a phi reachable from v through phi edges.
func inPhiWeb(v, x ssa.Value) bool {
	seen := map[ssa.Value]bool{}
	var walk func(y ssa.Value) bool
	walk = func(y ssa.Value) bool {
		if y == x {
			return true
		}
		if seen[y] {
			return false
		}
		seen[y] = true
		if p, ok := y.(*ssa.Phi); ok {
			for _, e := range p.Edges {
				if walk(e) {
					return true
				}
			}
		}
		return false
	}
	return walk(v)
}

// singleVararg returns the only element of a one-element variadic slice.
func singleVararg(v ssa.Value) ssa.Value {
	sl, ok := v.(*ssa.Slice)
	if !ok {
		return nil
	}
	al, ok := sl.X.(*ssa.Alloc)
	if !ok || al.Referrers() == nil {
		return nil
	}
	if arr, ok := al.Type().Underlying().(*types.Pointer).Elem().Underlying().(*types.Array); !ok || arr.Len() != 1 {
		return nil
	}
	var elem ssa.Value
	for _, r := range *al.Referrers() {
		if ia, ok := r.(*ssa.IndexAddr); ok && ia.Referrers() != nil {
			for _, rr := range *ia.Referrers() {
				if st, ok := rr.(*ssa.Store); ok && st.Addr == ia {
					if elem != nil {
						return nil
					}
					elem = st.Val
				}
			}
		}
	}
	return elem
}

type pointerT = types.Pointer
type arrayT = types.Array

type astGenDecl = ast.GenDecl
type astValueSpec = ast.ValueSpec
type astCompositeLit = ast.CompositeLit

func constInt64(v constant.Value) (int64, bool) {
	if v == nil {
		return 0, false
	}
	if i, ok := constant.Int64Val(constant.ToInt(v)); ok {
		return i, true
	}
	// values above MaxInt64 (uint64 max): saturate
	return 1<<63 - 1, true
}

// keccakChain peels hash applications off v: Keccak256Hash(x) and Keccak256(x) of a single
// argument each count one level; Hash.Bytes(), BytesToHash(), conversions and single-definition
// locals are transparent. Returns the number of levels and the innermost value.
func keccakChain(v ssa.Value) (int, ssa.Value) {
	depth := 0
	for k := 0; k < 12; k++ {
		v = resolveSpill(strip(v))
		cl, ok := v.(*ssa.Call)
		if !ok {
			return depth, v
		}
		switch facts.CalleeName(&cl.Call) {
		case "(geth/common.Hash).Bytes":
			v = cl.Call.Args[0]
		case "geth/common.BytesToHash":
			v = cl.Call.Args[0]
		case "geth/crypto.Keccak256Hash", "geth/crypto.Keccak256":
			el := singleVararg(cl.Call.Args[0])
			if el == nil {
				return depth, v
			}
			depth++
			v = el
		default:
			return depth, v
		}
	}
	return depth, v
}

// stripPhi resolves a phi that has a single meaning at its uses (facts.ThreadedValue: the merge of
// an inlined helper's results, or a get-or-create of a map entry); other values are returned as is.
func stripPhi(v ssa.Value) ssa.Value {
	if ph, ok := v.(*ssa.Phi); ok {
		return facts.ThreadedValue(ph)
	}
	return v
}

// wholeCopyOf: the struct in allocation a is initialised by one whole-struct copy `*a = *P`
// (`x := *p`) that precedes every field store into a; returns P, or nil.
func wholeCopyOf(a *ssa.Alloc) ssa.Value {
	if a.Referrers() == nil {
		return nil
	}
	var copySt *ssa.Store
	n := 0
	for _, r := range *a.Referrers() {
		if st, ok := r.(*ssa.Store); ok && st.Addr == ssa.Value(a) {
			copySt = st
			n++
		}
	}
	if n != 1 {
		return nil
	}
	ld, ok := copySt.Val.(*ssa.UnOp)
	if !ok || ld.Op != token.MUL {
		return nil
	}
	// every field store comes after the copy
	for _, r := range *a.Referrers() {
		fa, ok := r.(*ssa.FieldAddr)
		if !ok || fa.Referrers() == nil {
			continue
		}
		for _, rr := range *fa.Referrers() {
			st, ok := rr.(*ssa.Store)
			if !ok || st.Addr != ssa.Value(fa) {
				continue
			}
			if st.Block() == copySt.Block() {
				if instrIndexOf(st) < instrIndexOf(copySt) {
					return nil
				}
			} else if !copySt.Block().Dominates(st.Block()) {
				return nil
			}
		}
	}
	return ld.X
}

// appendsInto lists the append calls that contribute elements to slice value v (through phis and
// re-slicing); nil when v is fed by anything other than appends onto an empty or nil slice.
func appendsInto(v ssa.Value) []*ssa.Call {
	var out []*ssa.Call
	okAll := true
	seen := map[ssa.Value]bool{}
	var walk func(x ssa.Value)
	walk = func(x ssa.Value) {
		if x == nil || seen[x] {
			return
		}
		seen[x] = true
		switch y := x.(type) {
		case *ssa.Phi:
			for _, e := range y.Edges {
				walk(e)
			}
		case *ssa.Call:
			if b, ok := y.Call.Value.(*ssa.Builtin); ok && b.Name() == "append" && len(y.Call.Args) == 2 {
				out = append(out, y)
				walk(y.Call.Args[0])
				return
			}
			okAll = false
		case *ssa.Const:
			if y.Value != nil {
				okAll = false
			}
		case *ssa.MakeSlice:
			if k, isK := constInt(y.Len); !isK || k != 0 {
				okAll = false
			}
		case *ssa.Slice:
			walk(y.X)
		case *ssa.Alloc:
			// an empty array literal sliced: []T{}
		default:
			okAll = false
		}
	}
	walk(v)
	if !okAll {
		return nil
	}
	return out
}

// valueLeaves resolves v to the set of values it can stand for, looking through phis, results of
// calls to local function literals (each return statement's operand) and loads of captured
// variables (every value stored to the cell, in the enclosing function or any of its literals).
func valueLeaves(v ssa.Value) []ssa.Value {
	var out []ssa.Value
	seen := map[ssa.Value]bool{}
	var walk func(x ssa.Value, d int)
	walk = func(x ssa.Value, d int) {
		if x == nil || seen[x] || d > 8 {
			return
		}
		seen[x] = true
		switch y := x.(type) {
		case *ssa.Phi:
			for _, e := range y.Edges {
				walk(e, d+1)
			}
			return
		case *ssa.Extract:
			if cl, ok := y.Tuple.(*ssa.Call); ok {
				if mc, ok := resolveSpill(cl.Call.Value).(*ssa.MakeClosure); ok {
					eachInstr(mc.Fn.(*ssa.Function), func(i ssa.Instruction) {
						if r, ok := i.(*ssa.Return); ok && y.Index < len(r.Results) {
							walk(r.Results[y.Index], d+1)
						}
					})
					return
				}
			}
		case *ssa.UnOp:
			if y.Op == token.MUL {
				var cell *ssa.Alloc
				switch a := y.X.(type) {
				case *ssa.Alloc:
					cell = a
				case *ssa.FreeVar:
					cell = cellOfFreeVar(a, 0)
				}
				if cell != nil {
					n := 0
					var fns []*ssa.Function
					var under func(f *ssa.Function)
					under = func(f *ssa.Function) {
						fns = append(fns, f)
						for _, g := range f.AnonFuncs {
							under(g)
						}
					}
					under(cell.Parent())
					for _, f := range fns {
						eachInstr(f, func(i ssa.Instruction) {
							st, ok := i.(*ssa.Store)
							if !ok {
								return
							}
							same := st.Addr == ssa.Value(cell)
							if fv, isFV := st.Addr.(*ssa.FreeVar); isFV && cellOfFreeVar(fv, 0) == cell {
								same = true
							}
							if same {
								n++
								walk(st.Val, d+1)
							}
						})
					}
					if n > 0 {
						return
					}
				}
			}
		}
		out = append(out, x)
	}
	walk(v, 0)
	return out
}

// initAlias: a load of a local that is captured by a function literal, initialised where it is
// declared and never assigned again stands for its initialiser (facts.InitOnlyCell); other values
// are returned unchanged. Used where a rule compares a value with a fixed access path and the
// code merely went through such a local.
func initAlias(v ssa.Value) ssa.Value {
	for k := 0; k < 3; k++ {
		u, ok := strip(v).(*ssa.UnOp)
		if !ok || u.Op != token.MUL {
			return v
		}
		var cell *ssa.Alloc
		switch a := u.X.(type) {
		case *ssa.Alloc:
			cell = a
		case *ssa.FreeVar:
			cell = facts.CellOfFreeVar(a, 0)
		}
		if cell == nil {
			return v
		}
		iv := facts.InitOnlyCell(cell)
		if iv == nil {
			return v
		}
		v = iv
	}
	return v
}
