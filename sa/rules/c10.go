package rules

import (
	"fmt"
	"go/constant"
	"go/token"
	"go/types"
	"strings"

	"golang.org/x/tools/go/ssa"

	"wvsa/internal/facts"
	"wvsa/internal/load"
)

const pkgEth = N + "ethereum"

func init() {
	register("C10", "Static rules on pkg/ethereum SSA (type-checked from source): every send on Watcher.msgChan is a discovered sink (both live in goroutine closures of Run); (head-scan) must-hold facts at the send: entry taken from w.pending, height+expectedConfirmations <= head, receipt non-nil / no error / status 1 / same block hash as the pending key, expectedConfirmations is the consistency level exactly when waitForConfirmations && !safe (phi-edge facts), delete precedes the send, the whole scan runs under pendingMu (lock-state data flow); (source) the only insert into w.pending builds the message from the subscription channel, which is fed only by WatchLogMessagePublished of a filterer bound to w.contract; (delete-classes) every delete(w.pending,key) is classified by must-hold / disjunctive edge facts as confirmed, receipt-missing on a DEFINITIVE answer (ErrNoResult, \"not found\", or nil receipt with nil error), status-failed, block-hash-mismatch, or abandoned — the latter only after a transient receipt failure for this entry in this scan and after the window; (reobs) facts and call order at the re-observation send plus the allocation-site summary of MessageEventsForTransaction (status 1, contract address, topic).", c10)
}

func c10(c *Ctx) {
	p, R := c.Node(), c.R
	R.Trust("go/types + go/ssa", "go-ethereum ethclient.TransactionReceipt returns (nil, ethereum.NotFound=\"not found\") for an unknown transaction and (nil, err) for transport errors", "the RPC node's head/receipt atomicity assumptions written in the code comments")
	loopVarRule(c, p, "C10.loopvar", pkgEth)
	c10headSource(c, p)
	c10pollerLock(c, p)
	R.Assumption("simulated chain histories are not explored; the rules are path-universal facts at the sinks")
	run := must(p.Method(pkgEth, "Watcher", "Run"), "ethereum.(*Watcher).Run")
	msgChan := must(p.FieldOf(pkgEth, "Watcher", "msgChan"), "ethereum.Watcher.msgChan")
	pending := must(p.FieldOf(pkgEth, "Watcher", "pending"), "ethereum.Watcher.pending")
	pendingMu := must(p.FieldOf(pkgEth, "Watcher", "pendingMu"), "ethereum.Watcher.pendingMu")
	mevt := must(p.Func(pkgEth, "MessageEventsForTransaction"), "ethereum.MessageEventsForTransaction")
	getBN := must(p.Method(pkgEth, "Watcher", "getBlockNumber"), "getBlockNumber")

	var headSend, reobsSend *chanSend
	n := 0
	for _, sd := range allSends(p, pkgEth) {
		sd := sd
		if loadedField(sd.Chan) != msgChan {
			continue
		}
		n++
		if top(sd.Fn) != run {
			R.Fail("C10.sinks", R.Key("C10.sinks", shortFn(sd.Fn), "send:msgChan"), c.rel(p.Pos(sd.Instr.Pos())), "send on msgChan outside Watcher.Run", "unlisted path into the signing pipeline")
			continue
		}
		t := facts.Term(sd.X)
		switch {
		case strings.HasSuffix(t, ".message") && strings.HasPrefix(t, "next(range(w.pending))#2"):
			headSend = &sd
		case strings.HasPrefix(t, fname(mevt)+"("):
			reobsSend = &sd
		default:
			R.Fail("C10.sinks", R.Key("C10.sinks", shortFn(sd.Fn), "send:msgChan"), c.rel(p.Pos(sd.Instr.Pos())), "unrecognised value sent to the signing pipeline", "value = "+t)
		}
	}
	R.Floor("C10.sinks", n, 2)

	// ---------------------------------------------------------------- head scan
	if headSend == nil {
		R.Fail("C10.head-scan", "C10.head-scan/send", "", "head-scan send", "undecided: send of a pending entry's message not found")
	} else {
		fn := headSend.Fn
		fs := facts.AtRefined(headSend.Instr, nil)
		entry := "next(range(w.pending))#2"
		rc := "invoke:N/ethereum.Connector.TransactionReceipt(w.ethConn.Connector,context.WithTimeout(ctx,5000000000)#0," + entry + ".message.TxHash)"
		// find the actual receipt call term (timeout constant may change)
		for _, f := range fs {
			if i := strings.Index(f.Atom, "invoke:N/ethereum.Connector.TransactionReceipt("); i >= 0 && strings.HasSuffix(f.Atom, "#1 == nil") {
				rc = strings.TrimSuffix(f.Atom[i:], "#1 == nil")
			}
		}
		head := "(*math/big.Int).Uint64(select#4.Number)"
		exp := "phi{0|" + entry + ".message.ConsistencyLevel}"
		c.checkFacts(p, "C10.head-scan", fn, "send:msgChan", headSend.Instr, fs, []req{
			{Name: "receipt requested for the pending message's transaction, no error", Pred: func(a string) bool {
				return a == rc+"#1 == nil" && strings.HasSuffix(rc, ","+entry+".message.TxHash)")
			}},
			{Name: "receipt non-nil", Pred: func(a string) bool { return a == rc+"#0 != nil" }},
			{Name: "receipt status == 1", Pred: func(a string) bool { return a == "1 == "+rc+"#0.Status" || a == rc+"#0.Status == 1" }},
			{Name: "receipt still points to the block the message was observed in", Pred: func(a string) bool {
				return a == rc+"#0.BlockHash == local:key.BlockHash" || a == "local:key.BlockHash == "+rc+"#0.BlockHash" || a == rc+"#0.BlockHash == next(range(w.pending))#1.BlockHash"
			}},
			{Name: "height + expectedConfirmations <= head seen", Pred: func(a string) bool { return a == "("+entry+".height + "+exp+") <= "+head }},
		})
		R.Sample(map[string]any{"sink": "msgChan <- " + facts.Term(headSend.X), "facts": facts.Atoms(fs)})
		// expectedConfirmations phi-edge facts
		c10expConf(c, fn, headSend.Instr, entry+".message.ConsistencyLevel", []string{"w.waitForConfirmations", "!select#4.Safe"}, "C10.head-scan")
		// delete precedes the send
		okDel := facts.Before(headSend.Instr, func(i ssa.Instruction) bool {
			cl, ok := i.(*ssa.Call)
			return ok && facts.CalleeName(&cl.Call) == "delete" && loadedField(cl.Call.Args[0]) == pending && i.Block() == headSend.Instr.Block()
		})
		R.Check("C10.head-scan", "C10.head-scan/delete-before-send", c.rel(p.Pos(headSend.Instr.Pos())), "the entry is removed from the pending set before it is forwarded (forwarded once)", okDel, "no delete(w.pending, key) in the block of the send before it")
		// lock discipline: every access to w.pending in the package holds pendingMu
		nacc := 0
		for _, s := range fieldAccesses(p, pending) {
			if isFreshAlloc(s.Instr.(ssa.Value)) {
				continue
			}
			nacc++
			held := lockState(s.Fn, pendingMu, false)[s.Instr]
			R.Check("C10.head-scan", R.Key("C10.head-scan", shortFn(s.Fn), "lockset:pending"), c.sitePos(p, s), "access to Watcher.pending holds pendingMu on every path", held, "pendingMu is not held on every path to this access")
		}
		R.Floor("C10.head-scan.pending-accesses", nacc, 5)

		// ------------------------------------------------------------ delete classes
		nd := 0
		eachInstr(fn, func(i ssa.Instruction) {
			cl, ok := i.(*ssa.Call)
			if !ok || facts.CalleeName(&cl.Call) != "delete" || loadedField(cl.Call.Args[0]) != pending {
				return
			}
			nd++
			dfs := facts.AtRefined(cl, nil)
			has := func(pred func(string) bool) bool { return facts.Has(dfs, pred) }
			isRC := func(suffix string) func(string) bool {
				return func(a string) bool { return a == rc+suffix }
			}
			window := has(func(a string) bool {
				return a == "(("+entry+".height + "+exp+") + w.maxWaitConfirmations) <= "+head
			})
			class, why := "", ""
			switch {
			case has(isRC("#1 == nil")) && has(func(a string) bool { return a == "1 == "+rc+"#0.Status" }) && has(func(a string) bool { return strings.HasPrefix(a, rc+"#0.BlockHash == ") }):
				class = "confirmed"
			case has(isRC("#1 == nil")) && has(func(a string) bool { return a == "1 != "+rc+"#0.Status" }):
				class = "status-failed"
			case has(func(a string) bool { return a == "1 != "+rc+"#0.Status" }) && has(isRC("#0 != nil")):
				class = "status-failed"
			case has(func(a string) bool { return strings.HasPrefix(a, rc+"#0.BlockHash != ") }):
				class = "block-hash-mismatch"
			case window:
				// abandoned: needs a transient failure of this entry's receipt lookup in this scan
				if has(isRC("#1 != nil")) {
					class = "abandoned"
				} else {
					why = "the abandonment branch is evaluated without any confirmation attempt for this entry in this scan: when the observed head advances by more than the window between two polls (finality catching up), a message whose transaction is still in its block is dropped unchecked"
				}
			default:
				// receipt-missing: every path into this delete must pass a definitive-absence edge
				defEdges, descr := c10definitiveEdges(fn, rc)
				if len(defEdges) > 0 && facts.PassesAny(cl.Block(), nil, defEdges...) {
					class = "receipt-missing(definitive)"
				} else {
					why = fmt.Sprintf("the orphan branch can be entered without a definitive not-found answer (definitive edges found: %v): ethclient returns (nil, err) for every transport error, so a bare `tx == nil` test drops a message on one failed lookup although its transaction is still in its block", descr)
				}
			}
			R.Check("C10.delete-classes", R.Key("C10.delete-classes", shortFn(fn), "delete:pending"), c.rel(p.Pos(cl.Pos())), "delete(w.pending, key) is one of {confirmed, receipt-missing on a definitive answer, status-failed, block-hash-mismatch, abandoned after a transient failure and the window} (class: "+class+")", class != "", why, facts.Atoms(dfs)...)
		})
		R.Floor("C10.delete-classes", nd, 5)
	}

	// ---------------------------------------------------------------- source
	c10source(c, run, pending)

	// ---------------------------------------------------------------- re-observation
	if reobsSend == nil {
		R.Fail("C10.reobs", "C10.reobs/send", "", "re-observation send", "undecided: send of a re-observed message not found")
	} else {
		fn := reobsSend.Fn
		fs := facts.At(reobsSend.Instr, nil)
		msg := facts.Term(reobsSend.X)
		call := strings.TrimSuffix(msg, "#1[(phi:rangeindex + 1)]")
		head := fname(getBN) + "(w,logger,ctx)#0"
		c.checkFacts(p, "C10.reobs", fn, "send:msgChan", reobsSend.Instr, fs, []req{
			{Name: "message is an element of MessageEventsForTransaction(timeout, w.ethConn, w.contract, w.chainID, tx-hash-of-the-request)", Pred: func(a string) bool {
				return strings.HasSuffix(msg, "#1[(phi:rangeindex + 1)]") && strings.Contains(call, ",w.ethConn,w.contract,w.chainID,geth/common.BytesToHash(") && a == call+"#2 == nil"
			}},
			{Name: "head known (non-zero) and read without error", Pred: func(a string) bool { return a == head+" != 0" || a == "0 != "+head }},
			{Name: "head read without error", Pred: func(a string) bool { return a == strings.TrimSuffix(head, "#0")+"#1 == nil" }},
			{Name: "block number + expectedConfirmations <= head", Pred: func(a string) bool {
				return a == "("+call+"#0 + phi{0|"+msg+".ConsistencyLevel}) <= "+head
			}},
		})
		c10expConf(c, fn, reobsSend.Instr, msg+".ConsistencyLevel", []string{"w.waitForConfirmations"}, "C10.reobs")
		// order: head is read before the receipt is requested
		var mcall ssa.Instruction
		eachInstr(fn, func(i ssa.Instruction) {
			if cl, ok := i.(*ssa.Call); ok && cl.Call.StaticCallee() == mevt {
				mcall = cl
			}
		})
		okOrd := mcall != nil && facts.Before(mcall, func(i ssa.Instruction) bool {
			cl, ok := i.(*ssa.Call)
			return ok && cl.Call.StaticCallee() == getBN
		})
		R.Check("C10.reobs", "C10.reobs/head-before-receipt", c.rel(p.Pos(reobsSend.Instr.Pos())), "the head is read (getBlockNumber) before the transaction receipt is requested", okOrd, "order not established on every path")
		R.Sample(map[string]any{"sink": "msgChan <- re-observed message", "facts": facts.Atoms(fs)})
	}
	// allocation-site summary of MessageEventsForTransaction
	mpT := must(p.Named(pkgCommon, "MessagePublication"), "common.MessagePublication")
	na := 0
	for _, s := range allocsOf(p, mpT) {
		if s.Fn != mevt {
			continue
		}
		na++
		fs := facts.At(s.Instr, nil)
		rcp := "invoke:N/ethereum.Connector.TransactionReceipt(ethConn,ctx,tx)"
		l := rcp + "#0.Logs[(phi:rangeindex + 1)]"
		c.checkFacts(p, "C10.reobs", mevt, "alloc:MessagePublication", s.Instr, fs, []req{
			{Name: "receipt fetched without error", Pred: func(a string) bool { return a == rcp+"#1 == nil" }},
			{Name: "receipt status == 1", Pred: func(a string) bool { return a == "1 == "+rcp+"#0.Status" }},
			{Name: "log emitted by the configured contract", Pred: func(a string) bool { return a == l+".Address == contract" || a == "contract == "+l+".Address" }},
			{Name: "log topic is LogMessagePublished", Pred: func(a string) bool {
				return a == "*N/ethereum.LogMessagePublishedTopic == "+l+".Topics[0]" || a == l+".Topics[0] == *N/ethereum.LogMessagePublishedTopic"
			}},
			{Name: "log parsed without error", Pred: func(a string) bool {
				return strings.HasPrefix(a, "invoke:N/ethereum.Connector.ParseLogMessagePublished(ethConn,") && strings.HasSuffix(a, "#1 == nil")
			}},
		})
	}
	R.Floor("C10.reobs.alloc", na, 1)
	// returned block number is the receipt's
	okBN := false
	for _, r := range acceptingReturns(mevt) {
		okBN = facts.Term(r.Results[0]) == "(*math/big.Int).Uint64(invoke:N/ethereum.Connector.TransactionReceipt(ethConn,ctx,tx)#0.BlockNumber)"
	}
	R.Check("C10.reobs", "C10.reobs/MessageEventsForTransaction/block-number", c.rel(p.Pos(mevt.Pos())), "the block number compared with the head is the receipt's block number", okBN, "unexpected return value")
	R.Note("cross-reference (outside the property text): l.Topics[0] in MessageEventsForTransaction is indexed without a length check")
}

// c10expConf checks that the expectedConfirmations phi takes the consistency level exactly under conds.
func c10expConf(c *Ctx, fn *ssa.Function, sink ssa.Instruction, levelTerm string, conds []string, rule string) {
	p, R := c.Node(), c.R
	var ph *ssa.Phi
	eachInstr(fn, func(i ssa.Instruction) {
		if x, ok := i.(*ssa.Phi); ok && facts.LocalName(x.Parent(), x.Comment) == "expectedConfirmations" && (x.Block().Dominates(sink.Block())) {
			ph = x
		}
	})
	if ph == nil {
		// whatever the variable is called: the depth added to the block height in the must-hold
		// comparison with the head at the sink
		for _, f := range facts.At(sink, nil) {
			x, _, y, ok := cmpOf(f)
			if !ok {
				continue
			}
			for _, side := range []ssa.Value{x, y} {
				if add, ok := strip(side).(*ssa.BinOp); ok && add.Op == token.ADD {
					for _, opnd := range []ssa.Value{add.X, add.Y} {
						if cand, ok := opnd.(*ssa.Phi); ok && ph == nil {
							for _, e := range cand.Edges {
								if k0, isK := constInt(e); isK && k0 == 0 {
									ph = cand
								}
							}
						}
					}
				}
			}
		}
	}
	key := R.Key(rule, shortFn(fn), "phi:expectedConfirmations")
	if ph == nil {
		R.Fail(rule, key, c.rel(p.Pos(sink.Pos())), "expectedConfirmations", "undecided: value is not a phi of {consistency level, 0}")
		return
	}
	var bad []string
	for k, e := range ph.Edges {
		pred := ph.Block().Preds[k]
		var ei int
		for j, s := range pred.Succs {
			if s == ph.Block() {
				ei = j
			}
		}
		ef := facts.Atoms(facts.AtEdge(pred, ei, nil))
		hasAll := true
		for _, cnd := range conds {
			found := false
			for _, a := range ef {
				if a == cnd {
					found = true
				}
			}
			hasAll = hasAll && found
		}
		if k0, isK := constInt(e); isK && k0 == 0 {
			// zero edge: at least one condition must be false
			neg := false
			for _, cnd := range conds {
				want := "!" + cnd
				if strings.HasPrefix(cnd, "!") {
					want = strings.TrimPrefix(cnd, "!")
				}
				for _, a := range ef {
					if a == want {
						neg = true
					}
				}
			}
			if !neg {
				// the zero may be reached through several tests (`if !wait || safe { return 0 }`):
				// it is fine when, with every test that falsifies a condition cut, the edge can no
				// longer be taken
				negs := map[string]bool{}
				for _, cnd := range conds {
					if strings.HasPrefix(cnd, "!") {
						negs[strings.TrimPrefix(cnd, "!")] = true
					} else {
						negs["!"+cnd] = true
					}
				}
				es, _ := edgesWhere(fn, func(a string) bool { return negs[a] })
				cuts := facts.Cuts{}
				for _, e := range es {
					cuts[e] = true
				}
				if len(es) > 0 && (!facts.Reachable(pred, cuts) || cuts[facts.Edge{B: pred.Index, K: ei}]) {
					neg = true
				}
			}
			if !neg {
				bad = append(bad, "a zero edge is taken although "+strings.Join(conds, " && ")+" may hold")
			}
		} else if facts.Term(e) != levelTerm || !hasAll {
			bad = append(bad, fmt.Sprintf("edge value %s under facts %v", facts.Term(e), ef))
		}
	}
	R.Check(rule, key, c.rel(p.Pos(ph.Pos())), "expectedConfirmations = consistency level exactly when "+strings.Join(conds, " && ")+", else 0", len(bad) == 0, strings.Join(bad, "; "))
}

// c10definitiveEdges lists CFG edges that establish a definitive "no such transaction" answer.
func c10definitiveEdges(fn *ssa.Function, rc string) ([]facts.Edge, []string) {
	var es []facts.Edge
	var ds []string
	for _, b := range fn.Blocks {
		if len(b.Succs) != 2 {
			continue
		}
		iff, ok := b.Instrs[len(b.Instrs)-1].(*ssa.If)
		if !ok {
			continue
		}
		for k, pol := range []bool{true, false} {
			a := facts.Atom(iff.Cond, pol)
			def := false
			switch {
			case a == "*geth/rpc.ErrNoResult == "+rc+"#1" || a == rc+"#1 == *geth/rpc.ErrNoResult":
				def = true
			case a == `"not found" == invoke:error.Error(`+rc+`#1)` || a == `invoke:error.Error(`+rc+`#1) == "not found"`:
				def = true
			case a == rc+"#0 == nil", a == rc+"#1 == nil":
				// nil receipt with nil error: the other half must hold on this edge
				other := rc + "#1 == nil"
				if a == other {
					other = rc + "#0 == nil"
				}
				for _, x := range facts.Atoms(facts.AtEdge(b, k, nil)) {
					if x == other {
						def = true
					}
				}
			}
			if def {
				es = append(es, facts.Edge{B: b.Index, K: k})
				ds = append(ds, a)
			}
		}
	}
	return es, ds
}

func c10source(c *Ctx, run *ssa.Function, pending *types.Var) {
	p, R := c.Node(), c.R
	mus := mapUpdatesOnField(p, pending)
	R.Floor("C10.source", len(mus), 1)
	for _, s := range mus {
		mu := s.Instr.(*ssa.MapUpdate)
		key := R.Key("C10.source", shortFn(s.Fn), "mapupdate:pending")
		pos := c.sitePos(p, s)
		al, ok := mu.Value.(*ssa.Alloc)
		if !ok || top(s.Fn) != run {
			R.Fail("C10.source", key, pos, "insert into w.pending", "undecided: value is not a local pendingMessage literal built in Run")
			continue
		}
		vals, _ := allocStores(al)
		mal, _ := vals["message"].(*ssa.Alloc)
		var bad []string
		if facts.Term(vals["height"]) != "select#4.Raw.BlockNumber" {
			bad = append(bad, "height = "+termOrNil(vals["height"]))
		}
		if mal == nil {
			bad = append(bad, "message is not a local literal")
		} else {
			mv, _ := allocStores(mal)
			want := map[string]string{"TxHash": "select#4.Raw.TxHash", "Nonce": "select#4.Nonce", "Sequence": "select#4.Sequence", "EmitterChain": "w.chainID",
				"TargetChain": "select#4.TargetChainId", "EmitterAddress": "N/ethereum.PadAddress(select#4.Sender)", "Payload": "select#4.Payload", "ConsistencyLevel": "select#4.ConsistencyLevel"}
			for f, w := range want {
				if termOrNil(mv[f]) != w {
					bad = append(bad, fmt.Sprintf("message.%s = %s (want %s)", f, termOrNil(mv[f]), w))
				}
			}
			if !strings.HasPrefix(strings.Replace(termOrNil(mv["Timestamp"]), "narrow:int64(", "(", 1), "time.Unix((invoke:N/ethereum.Connector.TimeOfBlockByHash(w.ethConn.Connector,") || !strings.Contains(termOrNil(mv["Timestamp"]), ",select#4.Raw.BlockHash)#0),0)") {
				bad = append(bad, "message.Timestamp = "+termOrNil(mv["Timestamp"]))
			}
		}
		// key: tx hash, block hash of the log, emitter, sequence
		kt := facts.Term(mu.Key)
		_ = kt
		// select#4 must be the receive from messageC
		okRecv := false
		eachInstr(s.Fn, func(i ssa.Instruction) {
			if sel, ok := i.(*ssa.Select); ok {
				ri := 0
				for _, st := range sel.States {
					if st.Dir == types.RecvOnly {
						if 2+ri == 4 && strings.HasSuffix(facts.Term(st.Chan), "messageC") {
							okRecv = true
						}
						ri++
					}
				}
			}
		})
		if !okRecv {
			bad = append(bad, "the event is not the value received from messageC")
		}
		R.Check("C10.source", key, pos, "a pending entry is created only from an event received on the log-subscription channel, field for field, with the log's block number as height", len(bad) == 0, strings.Join(bad, "; "))
	}
	// messageC is handed only to WatchLogMessagePublished of w.ethConn
	okSub, okConn, okBase := false, false, false
	eachInstr(run, func(i ssa.Instruction) {
		if cl, ok := i.(*ssa.Call); ok {
			t := facts.Term(cl)
			if strings.HasPrefix(t, "invoke:N/ethereum.Connector.WatchLogMessagePublished(w.ethConn.Connector,ctx,") && strings.Contains(t, "messageC") {
				okSub = true
			}
		}
		if st, ok := i.(*ssa.Store); ok {
			if f := fieldOfAddr(st.Addr); f != nil && f.Name() == "ethConn" {
				t := facts.Term(st.Val)
				if strings.HasPrefix(t, "N/ethereum.NewBlockPollConnector(ctx,N/ethereum.NewEthereumConnector(") {
					okConn = true
					okBase = strings.Contains(t, ",w.networkName,w.url,w.contract,")
				}
			}
		}
	})
	R.Check("C10.source", "C10.source/subscription", c.rel(p.Pos(run.Pos())), "messageC is fed by w.ethConn.WatchLogMessagePublished", okSub, "subscription call not found")
	R.Check("C10.source", "C10.source/connector", c.rel(p.Pos(run.Pos())), "w.ethConn wraps NewEthereumConnector(..., w.contract, ...)", okConn && okBase, "connector construction not of the expected form")
	// the filterer is bound to the address parameter
	nec := must(p.Func(pkgEth, "NewEthereumConnector"), "NewEthereumConnector")
	okF := false
	eachInstr(nec, func(i ssa.Instruction) {
		if cl, ok := i.(*ssa.Call); ok && strings.HasSuffix(facts.CalleeName(&cl.Call), "abi.NewAbiFilterer") {
			okF = facts.Term(cl.Call.Args[0]) == "geth/common.BytesToAddress((geth/common.Address).Bytes(address))"
		}
	})
	R.Check("C10.source", "C10.source/filterer-bound-to-contract", c.rel(p.Pos(nec.Pos())), "the log filterer is bound to the connector's contract address", okF, "NewAbiFilterer argument is not the address parameter")
	wl := must(p.Method(pkgEth, "EthereumConnector", "WatchLogMessagePublished"), "EthereumConnector.WatchLogMessagePublished")
	okW := false
	eachInstr(wl, func(i ssa.Instruction) {
		if cl, ok := i.(*ssa.Call); ok && strings.HasSuffix(facts.CalleeName(&cl.Call), "abi.AbiFilterer).WatchLogMessagePublished") {
			okW = facts.Term(cl.Call.Args[0]) == "e.filterer" && facts.Term(cl.Call.Args[2]) == "sink"
		}
	})
	R.Check("C10.source", "C10.source/watch-uses-filterer", c.rel(p.Pos(wl.Pos())), "WatchLogMessagePublished subscribes through that filterer into the given sink", okW, "unexpected body")
}

// c10headSource: the head the depth checks compare against is read with the block tag the watcher
// was configured with. In getBlock, every eth_getBlockByNumber request whose tag is "latest" must
// lie on a path with the fact !useFinalized; "finalized" needs useFinalized and !safe; "safe" needs
// useFinalized and safe. A fallback to "latest" after a failed "finalized" query would present an
// unfinalized head as final (zero further confirmations are required on such chains).
func c10headSource(c *Ctx, p *load.Program) {
	R := c.R
	fn := must(p.Func(pkgEth, "getBlock"), "ethereum.getBlock")
	n := 0
	eachInstr(fn, func(i ssa.Instruction) {
		cl, ok := i.(*ssa.Call)
		if !ok || !cl.Call.IsInvoke() || cl.Call.Method.Name() != "RawCallContext" {
			return
		}
		if k, ok := cl.Call.Args[2].(*ssa.Const); !ok || k.Value == nil || constant.StringVal(k.Value) != "eth_getBlockByNumber" {
			return
		}
		// first variadic element = the tag
		var tag ssa.Value
		if sl, ok := cl.Call.Args[len(cl.Call.Args)-1].(*ssa.Slice); ok {
			if al, ok := sl.X.(*ssa.Alloc); ok && al.Referrers() != nil {
				for _, r := range *al.Referrers() {
					if ia, ok := r.(*ssa.IndexAddr); ok && ia.Referrers() != nil {
						if k0, isK := constInt(ia.Index); isK && k0 == 0 {
							for _, rr := range *ia.Referrers() {
								if st, ok := rr.(*ssa.Store); ok && st.Addr == ia {
									tag = strip(st.Val)
								}
							}
						}
					}
				}
			}
		}
		if tag == nil {
			R.Fail("C10.head-source", R.Key("C10.head-source", shortFn(fn), "tag"), c.rel(p.Pos(cl.Pos())), "block tag of the head query", "undecided: tag argument not found")
			return
		}
		type alt struct {
			v  ssa.Value
			fs []string
		}
		var alts []alt
		var collect func(v ssa.Value, fs []string, d int)
		collect = func(v ssa.Value, fs []string, d int) {
			v = resolveSpill(strip(v))
			if ph, ok := v.(*ssa.Phi); ok && d < 4 {
				for k, e := range ph.Edges {
					pred := ph.Block().Preds[k]
					ei := 0
					for j, sc := range pred.Succs {
						if sc == ph.Block() {
							ei = j
						}
					}
					collect(e, facts.Atoms(facts.AtEdge(pred, ei, nil)), d+1)
				}
				return
			}
			alts = append(alts, alt{v, fs})
		}
		collect(tag, facts.Atoms(facts.At(cl, nil)), 0)
		has := func(fs []string, a string) bool {
			for _, f := range fs {
				if f == a {
					return true
				}
			}
			return false
		}
		for _, al := range alts {
			n++
			k, isK := al.v.(*ssa.Const)
			if !isK || k.Value == nil || k.Value.Kind() != constant.String {
				// an explicit block number (number != nil)
				R.Check("C10.head-source", R.Key("C10.head-source", shortFn(fn), "tag:number"), c.rel(p.Pos(cl.Pos())), "an explicit block number is requested only when the caller passed one", has(al.fs, "number != nil"), "tag "+facts.Term(al.v)+" under facts "+strings.Join(al.fs, ";"))
				continue
			}
			t := constant.StringVal(k.Value)
			ok := false
			switch t {
			case "latest":
				ok = has(al.fs, "!useFinalized")
			case "finalized":
				ok = has(al.fs, "useFinalized") && has(al.fs, "!safe")
			case "safe":
				ok = has(al.fs, "useFinalized") && has(al.fs, "safe")
			}
			R.Check("C10.head-source", R.Key("C10.head-source", shortFn(fn), "tag:"+t), c.rel(p.Pos(cl.Pos())), "the head is requested with the tag the watcher is configured for (latest only when !useFinalized; finalized/safe only when configured)", ok,
				"tag \""+t+"\" requested under facts "+strings.Join(al.fs, ";")+": an unfinalized head would be presented as final")
		}
	})
	R.Floor("C10.head-source", n, 4)
}

// c10pollerLock: the head poller is switched on when a message becomes pending and off when the
// pending set is found empty; both happen while Watcher.pendingMu is held, so that "add a pending
// message and switch on" cannot interleave with "see the set empty and switch off" (the message
// would then wait for heads that are no longer polled).
func c10pollerLock(c *Ctx, p *load.Program) {
	R := c.R
	mu := must(p.FieldOf(pkgEth, "Watcher", "pendingMu"), "Watcher.pendingMu")
	n := 0
	for _, f := range p.SrcFuncs(pkgEth) {
		eachInstr(f, func(i ssa.Instruction) {
			cl, ok := i.(*ssa.Call)
			if !ok || !cl.Call.IsInvoke() && cl.Call.StaticCallee() == nil {
				return
			}
			name := ""
			if cl.Call.IsInvoke() {
				name = cl.Call.Method.Name()
			} else {
				name = cl.Call.StaticCallee().Name()
			}
			if name != "EnablePoller" && name != "DisablePoller" {
				return
			}
			// only the watcher's uses (the connector implementations define these methods)
			if !strings.Contains(facts.Term(cl), "w.ethConn") {
				return
			}
			n++
			held := heldAt(p, f, cl, mu, false, 0)
			R.Check("C10.head-scan", R.Key("C10.head-scan", shortFn(f), "poller-switch:"+name), c.rel(p.Pos(cl.Pos())), name+" is called while Watcher.pendingMu is held", held, "the poller is switched without the lock that guards the pending set")
		})
	}
	R.Floor("C10.head-scan.poller-switches", n, 2)
}
