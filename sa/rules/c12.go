package rules

import (
	"fmt"
	"go/constant"
	"go/types"
	"sort"
	"strings"

	"golang.org/x/tools/go/ssa"

	"wvsa/internal/facts"
	"wvsa/internal/load"
)

const (
	pkgPublicRPC = N + "publicrpc"
	pkgGuardiand = NCmd + "guardiand"
)

func init() {
	register("C12", "Key-shape abstraction decided from source: a store key or iteration prefix of the form []byte(fmt.Sprintf(format, args…)) (optionally followed by append of constant bytes) is abstracted to a token list of literals and verbs with the static type of each argument — %d of an unsigned integer = variable-width over [0-9], %s of vaa.Address = fixed 64 over [0-9a-f] (verified from Address.String = hex.EncodeToString of a [32]byte). (key-injective) in the stored key every variable-width segment is terminated by a literal whose first byte lies outside the segment's alphabet, or is last; (same-key) StoreSignedVAA and GetSignedVAABytes derive the key by the same function from the same four fields, the value stored is the marshalled VAA and the value returned is a copy of the stored bytes, not-found is mapped; (prefix-closed) every byte string that flows into Iterator.Seek / ValidForPrefix / IteratorOptions.Prefix must be the stored-key shape cut at a segment boundary AND end in a terminator literal or a fixed-width segment — otherwise the stream for target chain 2 also iterates 25, 255, …; (rpc) the public RPC and the admin call build the identifier field-for-field from the request and delegate to the store.", c12)
}

type keyTok struct {
	Lit   string // literal text, or
	Verb  string // %d / %s
	Type  string
	Fixed int    // fixed width (0 = variable)
	Alpha string // alphabet description
	Src   string // rendered argument (which field feeds this segment)
}

func (t keyTok) String() string {
	if t.Verb == "" {
		return fmt.Sprintf("%q", t.Lit)
	}
	if t.Fixed > 0 {
		return fmt.Sprintf("%s:%s[fixed %d %s]", t.Verb, t.Type, t.Fixed, t.Alpha)
	}
	return fmt.Sprintf("%s:%s[var %s]", t.Verb, t.Type, t.Alpha)
}

func shapeString(s []keyTok) string {
	var p []string
	for _, t := range s {
		p = append(p, t.String())
	}
	return strings.Join(p, " ")
}

// sprintfShape abstracts `[]byte(fmt.Sprintf(const, args...))`.
func sprintfShape(p *load.Program, v ssa.Value) ([]keyTok, error) {
	v = strip(v)
	if cv, ok := v.(*ssa.Convert); ok {
		v = cv.X
	}
	cl, ok := v.(*ssa.Call)
	if ok {
		// the same key written with append / strconv.AppendUint instead of one Sprintf
		switch facts.CalleeName(&cl.Call) {
		case "strconv.AppendUint":
			if base, isK := constInt(cl.Call.Args[2]); !isK || base != 10 {
				return nil, fmt.Errorf("AppendUint with a base other than 10")
			}
			pre, err := sprintfShape(p, cl.Call.Args[0])
			if err != nil {
				return nil, err
			}
			val := strip(cl.Call.Args[1])
			if cv, isCv := val.(*ssa.Convert); isCv {
				if b, isB := cv.X.Type().Underlying().(*types.Basic); isB && b.Info()&types.IsUnsigned != 0 {
					val = cv.X // widening of an unsigned field
				}
			}
			return append(pre, keyTok{Verb: "%d", Type: types.TypeString(val.Type(), func(p *types.Package) string { return p.Name() }), Alpha: "[0-9]", Src: facts.Term(val)}), nil
		case "append":
			pre, err := sprintfShape(p, cl.Call.Args[0])
			if err != nil {
				return nil, err
			}
			arg := cl.Call.Args[1]
			// append(dst, 'c') — a one-element variadic array of a constant byte
			if el := singleVararg(arg); el != nil {
				if k, isK := el.(*ssa.Const); isK && k.Value != nil {
					if n, okN := constant.Int64Val(k.Value); okN {
						return append(pre, keyTok{Lit: string(rune(n))}), nil
					}
				}
				return nil, fmt.Errorf("append of a non-constant byte: %s", facts.Term(el))
			}
			// append(dst, s...) — a constant string, or Address.String()
			a := strip(arg)
			if k, isK := a.(*ssa.Const); isK && k.Value != nil && k.Value.Kind() == constant.String {
				return append(pre, keyTok{Lit: constant.StringVal(k.Value)}), nil
			}
			if sc, isCall := resolveSpill(a).(*ssa.Call); isCall && facts.CalleeName(&sc.Call) == "(N/vaa.Address).String" {
				if err := addressStringIsHex(p); err != nil {
					return nil, err
				}
				return append(pre, keyTok{Verb: "%s", Type: "vaa.Address", Fixed: 64, Alpha: "[0-9a-f]", Src: facts.Term(sc.Call.Args[0])}), nil
			}
			// hex of a 32-byte array (what Address.String is)
			if sc, isCall := resolveSpill(a).(*ssa.Call); isCall && facts.CalleeName(&sc.Call) == "encoding/hex.EncodeToString" {
				if src, isSl := sc.Call.Args[0].(*ssa.Slice); isSl && src.Low == nil && src.High == nil {
					if pt, isP := src.X.Type().Underlying().(*types.Pointer); isP {
						if at, isA := pt.Elem().Underlying().(*types.Array); isA && at.Len() == 32 {
							return append(pre, keyTok{Verb: "%s", Type: "vaa.Address", Fixed: 64, Alpha: "[0-9a-f]", Src: strings.TrimSuffix(facts.Term(src.X), "[:]")}), nil
						}
					}
				}
			}
			return nil, fmt.Errorf("append of %s is outside the idiom table", facts.Term(a))
		}
		// another key builder of the repository with a single return
		if callee := cl.Call.StaticCallee(); callee != nil && len(callee.Blocks) > 0 && callee.Pkg != nil && strings.HasPrefix(callee.Pkg.Pkg.Path(), NodeMod) {
			var rets []*ssa.Return
			eachInstr(callee, func(i ssa.Instruction) {
				if r, ok := i.(*ssa.Return); ok {
					rets = append(rets, r)
				}
			})
			if len(rets) == 1 && len(rets[0].Results) == 1 {
				return sprintfShape(p, rets[0].Results[0])
			}
		}
	}
	// an empty buffer to append to: make([]byte, 0, n)
	if ms, isMS := v.(*ssa.MakeSlice); isMS {
		if k, isK := constInt(ms.Len); isK && k == 0 {
			return nil, nil
		}
	}
	// … which compiles to a fresh array sliced [:0] when n is a constant; or a nil slice
	if sl, isSl := v.(*ssa.Slice); isSl {
		if al, isAl := sl.X.(*ssa.Alloc); isAl && al.Comment == "makeslice" && sl.Low == nil && sl.High != nil {
			if k, isK := constInt(sl.High); isK && k == 0 {
				return nil, nil
			}
		}
	}
	if isNilConst(v) {
		return nil, nil
	}
	if ph, isPhi := v.(*ssa.Phi); isPhi {
		_ = ph
	}
	if !ok || facts.CalleeName(&cl.Call) != "fmt.Sprintf" {
		return nil, fmt.Errorf("not []byte(fmt.Sprintf(...)): %s", facts.Term(v))
	}
	fc, ok := cl.Call.Args[0].(*ssa.Const)
	if !ok || fc.Value == nil || fc.Value.Kind() != constant.String {
		return nil, fmt.Errorf("format is not a constant string")
	}
	format := constant.StringVal(fc.Value)
	// variadic elements
	var args []ssa.Value
	if sl, ok := cl.Call.Args[1].(*ssa.Slice); ok {
		if al, ok := sl.X.(*ssa.Alloc); ok && al.Referrers() != nil {
			m := map[int64]ssa.Value{}
			for _, r := range *al.Referrers() {
				if ia, ok := r.(*ssa.IndexAddr); ok && ia.Referrers() != nil {
					k, _ := constInt(ia.Index)
					for _, rr := range *ia.Referrers() {
						if st, ok := rr.(*ssa.Store); ok && st.Addr == ia {
							m[k] = st.Val
						}
					}
				}
			}
			for k := int64(0); k < int64(len(m)); k++ {
				args = append(args, m[k])
			}
		}
	}
	var out []keyTok
	ai := 0
	lit := ""
	for i := 0; i < len(format); i++ {
		if format[i] != '%' {
			lit += string(format[i])
			continue
		}
		if i+1 >= len(format) {
			return nil, fmt.Errorf("dangling %% in format")
		}
		verb := format[i : i+2]
		i++
		if verb == "%%" {
			lit += "%"
			continue
		}
		if lit != "" {
			out = append(out, keyTok{Lit: lit})
			lit = ""
		}
		if ai >= len(args) || args[ai] == nil {
			return nil, fmt.Errorf("format verb %s without argument", verb)
		}
		at := strip(args[ai]).Type()
		ai++
		tok := keyTok{Verb: verb, Type: types.TypeString(at, func(p *types.Package) string { return p.Name() }), Src: facts.Term(args[ai-1])}
		switch verb {
		case "%d":
			b, ok := at.Underlying().(*types.Basic)
			if !ok || b.Info()&types.IsUnsigned == 0 {
				return nil, fmt.Errorf("%%d of non-unsigned type %s (a sign would widen the alphabet)", tok.Type)
			}
			tok.Alpha = "[0-9]"
		case "%s":
			// a key built on top of another key builder of the repository: `%s` of a []byte
			// (or string) returned by a function whose single return is itself such a Sprintf —
			// splice that builder's shape in
			if k, ok := strip(args[ai-1]).(*ssa.Const); ok && k.Value != nil && k.Value.Kind() == constant.String {
				// a constant namespace segment
				out = append(out, keyTok{Lit: constant.StringVal(k.Value)})
				continue
			}
			if tok.Type == "[]byte" || tok.Type == "string" {
				inner := strip(args[ai-1])
				if cv, ok := inner.(*ssa.Convert); ok {
					inner = strip(cv.X)
				}
				if ic, ok := inner.(*ssa.Call); ok {
					if callee := ic.Call.StaticCallee(); callee != nil && len(callee.Blocks) > 0 && callee.Pkg != nil && strings.HasPrefix(callee.Pkg.Pkg.Path(), NodeMod) {
						var rets []*ssa.Return
						eachInstr(callee, func(i ssa.Instruction) {
							if r, ok := i.(*ssa.Return); ok {
								rets = append(rets, r)
							}
						})
						if len(rets) == 1 && len(rets[0].Results) == 1 {
							sub, err := sprintfShape(p, rets[0].Results[0])
							if err != nil {
								return nil, fmt.Errorf("%%s of %s: %v", facts.CalleeName(&ic.Call), err)
							}
							out = append(out, sub...)
							continue
						}
					}
				}
			}
			if tok.Type != "vaa.Address" {
				return nil, fmt.Errorf("%%s of type %s is outside the idiom table", tok.Type)
			}
			if err := addressStringIsHex(p); err != nil {
				return nil, err
			}
			tok.Fixed, tok.Alpha = 64, "[0-9a-f]"
		default:
			return nil, fmt.Errorf("verb %s is outside the idiom table", verb)
		}
		out = append(out, tok)
	}
	if lit != "" {
		out = append(out, keyTok{Lit: lit})
	}
	return out, nil
}

// addressStringIsHex verifies vaa.Address is [32]byte and String() = hex.EncodeToString(a[:]).
func addressStringIsHex(p *load.Program) error {
	n := p.Named(pkgVAA, "Address")
	if n == nil {
		return fmt.Errorf("vaa.Address not found")
	}
	at, ok := n.Underlying().(*types.Array)
	if !ok || at.Len() != 32 {
		return fmt.Errorf("vaa.Address is not [32]byte")
	}
	fn := p.Method(pkgVAA, "Address", "String")
	if fn == nil {
		return fmt.Errorf("vaa.Address.String not found")
	}
	ok = false
	eachInstr(fn, func(i ssa.Instruction) {
		if r, isR := i.(*ssa.Return); isR && len(r.Results) == 1 {
			t := facts.Term(r.Results[0])
			ok = t == "encoding/hex.EncodeToString(local:a[:])" || t == "encoding/hex.EncodeToString(a[:])"
		}
	})
	if !ok {
		return fmt.Errorf("vaa.Address.String is not hex.EncodeToString(a[:])")
	}
	return nil
}

// methodShape returns the shape produced by a VAAID method (Bytes / *PrefixBytes).
func methodShape(p *load.Program, fn *ssa.Function) ([]keyTok, error) {
	var res []keyTok
	var err error
	n := 0
	eachInstr(fn, func(i ssa.Instruction) {
		if r, ok := i.(*ssa.Return); ok && len(r.Results) == 1 {
			n++
			res, err = sprintfShape(p, r.Results[0])
		}
	})
	if n != 1 {
		return nil, fmt.Errorf("%s does not have exactly one return", fname(fn))
	}
	return res, err
}

// valueShape abstracts a byte-string value: a VAAID method call, optionally wrapped in append(_, const…).
func valueShape(p *load.Program, v ssa.Value) ([]keyTok, error) {
	v = strip(v)
	// values spilled into captured variables
	v = resolveSpill(v)
	if u, ok := v.(*ssa.UnOp); ok {
		if fv, ok := u.X.(*ssa.FreeVar); ok {
			if b := freeVarBinding(fv); b != nil {
				if al, ok := b.(*ssa.Alloc); ok {
					return valueShape(p, resolveSpill(&ssa.UnOp{Op: u.Op, X: al}))
				}
			}
		}
	}
	if ap := asCall(v, "append"); ap != nil {
		base, err := valueShape(p, ap.Call.Args[0])
		if err != nil {
			return nil, err
		}
		lit := ""
		if sl, ok := ap.Call.Args[1].(*ssa.Slice); ok {
			if al, ok := sl.X.(*ssa.Alloc); ok && al.Referrers() != nil {
				m := map[int64]byte{}
				for _, r := range *al.Referrers() {
					if ia, ok := r.(*ssa.IndexAddr); ok && ia.Referrers() != nil {
						k, _ := constInt(ia.Index)
						for _, rr := range *ia.Referrers() {
							if st, ok := rr.(*ssa.Store); ok && st.Addr == ia {
								c, isC := constInt(st.Val)
								if !isC {
									return nil, fmt.Errorf("append of a non-constant byte")
								}
								m[k] = byte(c)
							}
						}
					}
				}
				for k := int64(0); k < int64(len(m)); k++ {
					lit += string(m[k])
				}
			}
		}
		if cst, ok := ap.Call.Args[1].(*ssa.Const); ok && cst.Value != nil && cst.Value.Kind() == constant.String {
			lit = constant.StringVal(cst.Value)
		}
		if lit == "" {
			return nil, fmt.Errorf("append of an unrecognised suffix: %s", facts.Term(ap.Call.Args[1]))
		}
		return append(append([]keyTok{}, base...), keyTok{Lit: lit}), nil
	}
	cl, ok := v.(*ssa.Call)
	if !ok {
		return nil, fmt.Errorf("byte string is not produced by a key function: %s", facts.Term(v))
	}
	callee := cl.Call.StaticCallee()
	if callee == nil || callee.Pkg == nil || callee.Pkg.Pkg.Path() != pkgVAA {
		return nil, fmt.Errorf("byte string is not produced by a vaa key function: %s", facts.Term(v))
	}
	return methodShape(p, callee)
}

func freeVarBinding(fv *ssa.FreeVar) ssa.Value {
	fn := fv.Parent()
	par := fn.Parent()
	if par == nil {
		return nil
	}
	var bound ssa.Value
	eachInstr(par, func(i ssa.Instruction) {
		if mc, ok := i.(*ssa.MakeClosure); ok && mc.Fn == fn {
			for k, x := range fn.FreeVars {
				if x == fv {
					bound = mc.Bindings[k]
				}
			}
		}
	})
	return bound
}

// normalise merges adjacent literals.
func normShape(s []keyTok) []keyTok {
	var out []keyTok
	for _, t := range s {
		if t.Verb == "" && len(out) > 0 && out[len(out)-1].Verb == "" {
			out[len(out)-1].Lit += t.Lit
			continue
		}
		out = append(out, t)
	}
	return out
}

// isClosedPrefixOf: prefix shape pre is the key shape cut at a segment boundary and ends in a
// terminator or a fixed-width segment.
func isClosedPrefixOf(pre, key []keyTok) (bool, string) {
	pre, key = normShape(pre), normShape(key)
	for i, t := range pre {
		if i >= len(key) {
			return false, "prefix is longer than the stored key shape"
		}
		k := key[i]
		if t.Verb != k.Verb || t.Type != k.Type {
			return false, fmt.Sprintf("token %d differs: prefix %s vs key %s", i, t, k)
		}
		if t.Verb == "" && t.Lit != k.Lit {
			if i == len(pre)-1 && strings.HasPrefix(k.Lit, t.Lit) {
				continue // literal cut short at the end of the prefix
			}
			return false, fmt.Sprintf("literal %d differs: %q vs %q", i, t.Lit, k.Lit)
		}
	}
	last := pre[len(pre)-1]
	if last.Verb != "" && last.Fixed == 0 {
		return false, fmt.Sprintf("prefix ends in the variable-width segment %s without its terminator: it is also a prefix of every key whose segment merely starts with the same digits (target chain 2 also matches 25, 255, …)", last)
	}
	return true, ""
}

func c12(c *Ctx) {
	p, R := c.Node(), c.R
	R.Trust("go/types + go/ssa", "fmt.Sprintf %d renders unsigned integers in minimal decimal; hex.EncodeToString renders lowercase hex", "badger iteration: Seek+ValidForPrefix visits exactly the keys having the byte prefix")
	loopVarRule(c, p, "C12.loopvar", pkgDB, pkgPublicRPC)
	c12noRetain(c, p)
	R.Assumption("request chain-id enums/ids are defined within 16 bits; their conversion to vaa.ChainID is listed as informational only")
	bytesFn := must(p.Method(pkgVAA, "VAAID", "Bytes"), "vaa.(*VAAID).Bytes")
	keyShape, err := methodShape(p, bytesFn)
	if err != nil {
		R.Fail("C12.key-injective", "C12.key-injective/VAAID.Bytes", c.rel(p.Pos(bytesFn.Pos())), "stored key shape", "undecided: "+err.Error())
		return
	}
	ks := normShape(keyShape)
	R.Sample(map[string]any{"stored_key_shape": shapeString(ks)})
	// ---- key-injective
	var bad []string
	for i, t := range ks {
		if t.Verb == "" || t.Fixed > 0 {
			continue
		}
		if i == len(ks)-1 {
			continue
		}
		nx := ks[i+1]
		if nx.Verb != "" {
			bad = append(bad, fmt.Sprintf("variable-width %s is followed directly by %s", t, nx))
			continue
		}
		if nx.Lit == "" || strings.ContainsAny(nx.Lit[:1], "0123456789") {
			bad = append(bad, fmt.Sprintf("terminator %q of %s starts inside the segment's alphabet", nx.Lit, t))
		}
	}
	wantFields := "signed/ %d:ChainID / %s:Address / %d:ChainID / %d:uint64"
	_ = wantFields
	R.Check("C12.key-injective", "C12.key-injective/VAAID.Bytes", c.rel(p.Pos(bytesFn.Pos())), "every variable-width segment of the stored key is terminated by a byte outside its alphabet, or is last: "+shapeString(ks), len(bad) == 0 && len(ks) == 8, strings.Join(bad, "; "))
	// the four arguments are the four identifier fields in order
	// field order, flattened through composed key builders
	var argOrder []string
	for _, t := range keyShape {
		if t.Verb != "" {
			argOrder = append(argOrder, t.Src)
		}
	}
	R.Check("C12.key-injective", "C12.key-injective/VAAID.Bytes/fields", c.rel(p.Pos(bytesFn.Pos())), "the key is built from (EmitterChain, EmitterAddress, TargetChain, Sequence) in that order", strings.Join(argOrder, ",") == "i.EmitterChain,i.EmitterAddress,i.TargetChain,i.Sequence", "arguments: "+strings.Join(argOrder, ","))

	// ---- same-key
	a := c.processor()
	okStore, okVal := false, false
	for _, f := range withAnon(a.store) {
		eachInstr(f, func(i ssa.Instruction) {
			if cl, ok := i.(*ssa.Call); ok && (facts.CalleeName(&cl.Call) == "(*badger.Txn).Set" || plainSetEntry(cl)) {
				k, val := cl.Call.Args[1], cl.Call.Args[len(cl.Call.Args)-1]
				if plainSetEntry(cl) {
					ne := cl.Call.Args[1].(*ssa.Call)
					k, val = ne.Call.Args[0], ne.Call.Args[1]
				}
				// (either operand may have been hoisted into a local captured by the closure, or
				// into a field of a small entry struct whose method is the transaction body)
				okStore = facts.Term(resolveSpill(k)) == "(*N/vaa.VAAID).Bytes(N/db.VaaIDFromVAA(v))"
				okVal = facts.Term(resolveSpill(val)) == "(*N/vaa.VAA).Marshal(v)#0"
			}
		})
	}
	// `b` is a captured variable: check its single definition
	if okVal && false {
		okVal = false
		eachInstr(a.store, func(i ssa.Instruction) {
			if st, ok := i.(*ssa.Store); ok {
				if al, ok := st.Addr.(*ssa.Alloc); ok && facts.LocalName(al.Parent(), al.Comment) == "b" && facts.Term(st.Val) == "(*N/vaa.VAA).Marshal(v)#0" {
					okVal = true
				}
			}
			if ex, ok := i.(*ssa.Extract); ok && ex.Index == 0 && facts.Term(ex) == "(*N/vaa.VAA).Marshal(v)#0" {
				okVal = true
			}
		})
	}
	// … and it is written whenever the store reports success: a success that skips the write
	// (keeping an older copy under the key) makes a later read return other bytes than were stored
	for _, f := range withAnon(a.store) {
		if f == a.store {
			continue
		}
		for _, r := range acceptingReturns(f) {
			wrote := false
			for _, at := range facts.Atoms(acceptFacts(r)) {
				if (strings.HasPrefix(at, "(*badger.Txn).Set(") || strings.HasPrefix(at, "(*badger.Txn).SetEntry(")) && strings.HasSuffix(at, " == nil") {
					wrote = true
				}
			}
			// `return txn.Set(k, v)` returns the write's own result
			if cl, ok := r.Results[len(r.Results)-1].(*ssa.Call); ok && (facts.CalleeName(&cl.Call) == "(*badger.Txn).Set" || plainSetEntry(cl)) {
				wrote = true
			}
			R.Check("C12.same-key", R.Key("C12.same-key", shortFn(f), "success-implies-written"), c.rel(p.Pos(instrPos(r))), "the store transaction reports success only after txn.Set of this VAA succeeded", wrote, "a nil return is reachable without the write: the bytes read back later are not the bytes stored")
		}
	}
	R.Check("C12.same-key", "C12.same-key/StoreSignedVAA", c.rel(p.Pos(a.store.Pos())), "StoreSignedVAA writes Marshal(v) under VaaIDFromVAA(v).Bytes()", okStore && okVal, fmt.Sprintf("key ok=%v value ok=%v", okStore, okVal))
	okGet, okCopy, okNF := false, false, false
	for _, f := range withAnon(a.getBytes) {
		eachInstr(f, func(i ssa.Instruction) {
			if cl, ok := i.(*ssa.Call); ok {
				switch facts.CalleeName(&cl.Call) {
				case "(*badger.Txn).Get":
					kt := facts.Term(resolveSpill(resolveSpill(cl.Call.Args[1])))
					okGet = strings.HasPrefix(kt, "(*N/vaa.VAAID).Bytes(") && strings.Contains(kt, "id")
				case "(*badger.Item).ValueCopy":
					okCopy = isNilConst(cl.Call.Args[1])
				}
			}
		})
	}
	for _, r := range nonAcceptingReturns(a.getBytes) {
		fs := facts.Atoms(acceptFacts(r))
		if facts.Term(r.Results[1]) == "*N/db.ErrVAANotFound" {
			for _, at := range fs {
				if strings.Contains(at, "== *badger.ErrKeyNotFound") || strings.Contains(at, "*badger.ErrKeyNotFound ==") {
					okNF = true
				}
			}
		}
	}
	R.Check("C12.same-key", "C12.same-key/GetSignedVAABytes", c.rel(p.Pos(a.getBytes.Pos())), "GetSignedVAABytes reads id.Bytes(), returns an untransformed copy of the stored value, and maps badger.ErrKeyNotFound to ErrVAANotFound", okGet && okCopy && okNF, fmt.Sprintf("key ok=%v copy ok=%v not-found mapping ok=%v", okGet, okCopy, okNF))
	// VaaIDFromVAA copies the four fields
	idT := must(p.Named(pkgVAA, "VAAID"), "vaa.VAAID")
	for _, s := range allocsOf(p, idT) {
		if s.Fn != a.vaaIDFromVAA {
			continue
		}
		vals, _ := allocStores(s.Instr.(*ssa.Alloc))
		ok := termOrNil(vals["EmitterChain"]) == "v.EmitterChain" && termOrNil(vals["EmitterAddress"]) == "v.EmitterAddress" && termOrNil(vals["TargetChain"]) == "v.TargetChain" && termOrNil(vals["Sequence"]) == "v.Sequence"
		R.Check("C12.same-key", "C12.same-key/VaaIDFromVAA", c.sitePos(p, s), "VaaIDFromVAA copies the four identifier fields of the VAA", ok, fmt.Sprint(termMap(vals)))
	}

	// ---- prefix-closed: every value flowing into Seek / ValidForPrefix / IteratorOptions.Prefix
	n := 0
	for _, f := range p.SrcFuncs("") {
		eachInstr(f, func(i ssa.Instruction) {
			var v ssa.Value
			what := ""
			if cl, ok := i.(*ssa.Call); ok {
				switch facts.CalleeName(&cl.Call) {
				case "(*badger.Iterator).Seek", "(*badger.Iterator).ValidForPrefix":
					v, what = cl.Call.Args[1], facts.CalleeName(&cl.Call)
				}
			}
			if st, ok := i.(*ssa.Store); ok {
				if fld := fieldOfAddr(st.Addr); fld != nil && fld.Name() == "Prefix" && fld.Pkg() != nil && strings.HasSuffix(fld.Pkg().Path(), "badger/v3") {
					v, what = st.Val, "IteratorOptions.Prefix"
				}
			}
			if v == nil {
				return
			}
			n++
			key := R.Key("C12.prefix-closed", shortFn(top(f)), what)
			pos := c.rel(p.Pos(i.Pos()))
			sh, err := valueShape(p, v)
			if err != nil {
				R.Fail("C12.prefix-closed", key, pos, "iteration prefix in "+shortFn(top(f)), "undecided: "+err.Error())
				return
			}
			ok, why := isClosedPrefixOf(sh, ks)
			R.Check("C12.prefix-closed", key, pos, fmt.Sprintf("iteration prefix in %s (%s) is the stored-key shape cut at a closed segment boundary", shortFn(top(f)), shapeString(normShape(sh))), ok, why)
		})
	}
	R.Floor("C12.prefix-closed", n, 5)

	// ---- scan-complete: a prefix scan reports the whole stream — its loop ends only when the iterator leaves
	// the prefix (or with an error); an early exit on a count or on a found element silently drops later keys
	nscan := 0
	for _, f := range p.SrcFuncs(pkgDB) {
		var vfp *ssa.Call
		eachInstr(f, func(i ssa.Instruction) {
			if cl, ok := i.(*ssa.Call); ok && facts.CalleeName(&cl.Call) == "(*badger.Iterator).ValidForPrefix" {
				vfp = cl
			}
		})
		if vfp == nil {
			continue
		}
		nscan++
		for _, r := range acceptingReturns(f) {
			fs := acceptFacts(r)
			ok := false
			for _, ft := range fs {
				if !ft.Pol && ft.Cond == ssa.Value(vfp) {
					ok = true
				}
			}
			R.Check("C12.scan-complete", R.Key("C12.scan-complete", shortFn(top(f)), "return:nil"), c.rel(p.Pos(instrPos(r))), "the prefix scan in "+shortFn(top(f))+" ends successfully only when the iterator has left the prefix (every key of the stream was visited)", ok,
				"a successful return is reachable while the iterator is still inside the prefix (early exit from the scan loop): keys that sort later in the stream are not reported", facts.Atoms(fs)...)
		}
	}
	R.Floor("C12.scan-complete", nscan, 2)

	// ---- rpc
	c12rpc(c, p, idT)
}

func nonAcceptingReturns(fn *ssa.Function) []*ssa.Return {
	var out []*ssa.Return
	eachInstr(fn, func(i ssa.Instruction) {
		if r, ok := i.(*ssa.Return); ok && len(r.Results) > 0 && r.Block().Comment != "recover" {
			rs := returnValues(r)
			if !isNilConst(rs[len(rs)-1]) {
				out = append(out, r)
			}
		}
	})
	return out
}

func c12rpc(c *Ctx, p *load.Program, idT *types.Named) {
	R := c.R
	want := map[string]map[string]string{
		"(*N/publicrpc.PublicrpcServer).GetSignedVAA": {
			"EmitterChain":   "narrow:vaa.ChainID((N/proto/publicrpc/v1.ChainID).Number(req.MessageId.EmitterChain))",
			"EmitterAddress": "*N/publicrpc.decodeEmitterAddress(req.MessageId.EmitterAddress)#0",
			"TargetChain":    "narrow:vaa.ChainID((N/proto/publicrpc/v1.ChainID).Number(req.MessageId.TargetChain))",
			"Sequence":       "req.MessageId.Sequence"},
		"(*N/publicrpc.PublicrpcServer).GetNonGovernanceVAABatch": {
			"EmitterChain":   "narrow:vaa.ChainID((N/proto/publicrpc/v1.ChainID).Number(req.EmitterChain))",
			"EmitterAddress": "*N/publicrpc.decodeEmitterAddress(req.EmitterAddress)#0",
			"TargetChain":    "narrow:vaa.ChainID((N/proto/publicrpc/v1.ChainID).Number(req.TargetChain))",
			"Sequence":       "req.Sequences[(phi:rangeindex + 1)]"},
		"(*N/cmd/guardiand.nodePrivilegedService).FindMissingMessages": {
			"EmitterChain":   "narrow:vaa.ChainID(req.EmitterChain)",
			"EmitterAddress": "local:emitterAddress",
			"TargetChain":    "narrow:vaa.ChainID(req.TargetChain)",
			"Sequence":       "<unset>"},
	}
	seen := map[string]bool{}
	var info []string
	for _, s := range allocsOf(p, idT) {
		name := fname(s.Fn)
		w, ok := want[name]
		if !ok {
			continue
		}
		seen[name] = true
		vals, _ := allocStores(s.Instr.(*ssa.Alloc))
		var bad []string
		for f, wt := range w {
			got := "<unset>"
			if v := vals[f]; v != nil {
				got = facts.Term(v)
			}
			// (a decoder that hands the address back by value instead of through a pointer)
			if got != wt && !(strings.HasPrefix(wt, "*N/publicrpc.decodeEmitterAddress(") && got == strings.TrimPrefix(wt, "*")) {
				bad = append(bad, fmt.Sprintf("%s = %s (want %s)", f, got, wt))
			}
			if strings.HasPrefix(got, "narrow:") {
				info = append(info, name+": "+f+" = "+got)
			}
		}
		sort.Strings(bad)
		R.Check("C12.rpc", R.Key("C12.rpc", shortFn(s.Fn), "alloc:VAAID"), c.sitePos(p, s), "the lookup identifier is built field-for-field from the request", len(bad) == 0, strings.Join(bad, "; "))
	}
	R.Floor("C12.rpc", len(seen), 3)
	// the governance batch handler answers with one entry per VAA the store returned: the loop
	// over the store's result puts every element into the response list (an intermediate table
	// keyed by part of the identifier — the sequence alone — drops one of two VAAs that differ
	// only in the target chain)
	if gh := p.Method(pkgPublicRPC, "PublicrpcServer", "GetGovernanceVAABatch"); gh != nil {
		nl := 0
		for _, l := range facts.LoopsOf(gh) {
			// the loop whose bound is the length of the store's result
			overStore := false
			for _, ins := range l.Header.Instrs {
				iff, ok := ins.(*ssa.If)
				if !ok {
					continue
				}
				if bo, ok := iff.Cond.(*ssa.BinOp); ok {
					if ln := lenOf(bo.Y); ln != nil && strings.Contains(facts.Term(ln), "(*N/db.Database).GetGovernanceVAABatch(") {
						overStore = true
					}
				}
			}
			if !overStore {
				continue
			}
			nl++
			body := l.Body()
			isPut := func(i ssa.Instruction) bool {
				switch x := i.(type) {
				case *ssa.Call:
					if b, ok := x.Call.Value.(*ssa.Builtin); ok && b.Name() == "append" {
						return true
					}
				case *ssa.Store:
					if ia, ok := x.Addr.(*ssa.IndexAddr); ok {
						if _, isSlice := ia.X.Type().Underlying().(*types.Slice); isSlice {
							return true
						}
					}
				}
				return false
			}
			cuts := facts.Cuts{}
			for _, lt := range l.Latches {
				for k, sc := range lt.Succs {
					if sc == l.Header {
						cuts[facts.Edge{B: lt.Index, K: k}] = true
					}
				}
			}
			okAll := true
			for _, lt := range l.Latches {
				if !body[lt] || !facts.BeforeFrom(l.Header, lt.Instrs[len(lt.Instrs)-1], cuts, isPut) {
					okAll = false
				}
			}
			R.Check("C12.rpc", R.Key("C12.rpc", shortFn(gh), "one-entry-per-stored-vaa"), c.rel(p.Pos(instrPos(l.Header.Instrs[0]))), "every VAA returned by the store is put into the response list", okAll, "an iteration over the store's result does not add an entry to a list (the result goes through a table keyed by something narrower than the identifier)")
		}
		R.Floor("C12.rpc.governance-batch-loop", nl, 1)
	}
	// a well-formed request always reaches the store: the only exits before the lookup are a
	// missing message id, an undecodable emitter address and an over-long batch. Rejecting on the
	// value of a chain id (0 is the "all chains" target of governance VAAs) would make stored VAAs
	// unreachable through the RPC.
	npre := 0
	for name := range want {
		var fn *ssa.Function
		for _, f := range p.SrcFuncs(pkgPublicRPC) {
			if fname(f) == name {
				fn = f
			}
		}
		if fn == nil {
			continue
		}
		isLookup := func(i ssa.Instruction) bool {
			cl, ok := i.(*ssa.Call)
			if !ok {
				return false
			}
			n := facts.CalleeName(&cl.Call)
			return strings.HasPrefix(n, "(*N/db.Database).Get") || strings.HasPrefix(n, "(*N/db.Database).Find")
		}
		eachInstr(fn, func(i ssa.Instruction) {
			r, ok := i.(*ssa.Return)
			if !ok || r.Block().Comment == "recover" || facts.Before(r, isLookup) {
				return
			}
			if len(r.Results) > 0 && isNilConst(r.Results[len(r.Results)-1]) {
				return // a successful answer (for instance an empty batch)
			}
			npre++
			fs := facts.Atoms(acceptFacts(r))
			okRej := false
			for _, at := range fs {
				switch {
				case at == "req.MessageId == nil":
					okRej = true
				case strings.HasPrefix(at, "N/publicrpc.decodeEmitterAddress(") && strings.HasSuffix(at, "#1 != nil"):
					okRej = true
				case strings.HasPrefix(at, "N/publicrpc.validateBatchSize(") && strings.HasSuffix(at, " != nil"), strings.HasPrefix(at, "20 < len("):
					okRej = true
				case strings.HasPrefix(at, "encoding/hex.DecodeString(") && strings.HasSuffix(at, "#1 != nil"), strings.HasPrefix(at, "32 != len("):
					okRej = true
				}
			}
			R.Check("C12.rpc", R.Key("C12.rpc", shortFn(fn), "pre-lookup-exit"), c.rel(p.Pos(instrPos(r))), "the only exits before the store lookup are: no message id, undecodable emitter address, batch too large", okRej,
				"a request is turned away before the lookup for another reason ("+strings.Join(fs, "; ")+"): a VAA stored under that identifier cannot be fetched")
		})
	}
	R.Floor("C12.rpc.pre-lookup-exits", npre, 3)
	// the batch query answers for every requested sequence: it returns successfully only after
	// the range over the requested sequences is exhausted (a miss skips that sequence, it does
	// not end the scan)
	for _, f := range p.SrcFuncs(pkgPublicRPC) {
		if fname(f) != "(*N/publicrpc.PublicrpcServer).GetNonGovernanceVAABatch" {
			continue
		}
		for _, r := range acceptingReturns(f) {
			done := false
			fs := facts.Atoms(acceptFacts(r))
			for _, at := range fs {
				if strings.HasPrefix(at, "len(req.Sequences) <= ") {
					done = true
				}
			}
			R.Check("C12.rpc", R.Key("C12.rpc", shortFn(f), "batch-complete"), c.rel(p.Pos(instrPos(r))), "the batch query succeeds only after every requested sequence was looked up", done, "a successful return is reachable before the requested sequences are exhausted: stored VAAs after the first absent one are left out ("+strings.Join(fs, "; ")+")")
		}
	}
	sort.Strings(info)
	R.Note("informational (not counted): request-field -> ChainID conversions: %s", strings.Join(info, " | "))
	// delegation + response bytes
	pub := must(p.Method(pkgPublicRPC, "PublicrpcServer", "GetSignedVAA"), "PublicrpcServer.GetSignedVAA")
	okResp := false
	for _, r := range acceptingReturns(pub) {
		if al, ok := r.Results[0].(*ssa.Alloc); ok {
			vals, _ := allocStores(al)
			okResp = strings.HasPrefix(termOrNil(vals["VaaBytes"]), "(*N/db.Database).GetSignedVAABytes(s.db,") && strings.HasSuffix(termOrNil(vals["VaaBytes"]), "#0")
		}
	}
	R.Check("C12.rpc", "C12.rpc/GetSignedVAA/response", c.rel(p.Pos(pub.Pos())), "GetSignedVAA returns exactly the bytes the store returned", okResp, "response bytes are not the store's result")
	nf := false
	for _, r := range nonAcceptingReturns(pub) {
		t := facts.Term(r.Results[1])
		if strings.HasPrefix(t, "google.golang.org/grpc/status.Error(5,") {
			for _, at := range facts.Atoms(acceptFacts(r)) {
				if strings.Contains(at, "== *N/db.ErrVAANotFound") || strings.Contains(at, "*N/db.ErrVAANotFound ==") {
					nf = true
				}
			}
		}
	}
	R.Check("C12.rpc", "C12.rpc/GetSignedVAA/not-found", c.rel(p.Pos(pub.Pos())), "an absent identifier yields NotFound", nf, "ErrVAANotFound is not mapped to codes.NotFound")
	// admin FindMissingMessages delegates to FindEmitterSequenceGap with that id
	fm := must(p.Method(pkgGuardiand, "nodePrivilegedService", "FindMissingMessages"), "FindMissingMessages")
	del := false
	eachInstr(fm, func(i ssa.Instruction) {
		if cl, ok := i.(*ssa.Call); ok && facts.CalleeName(&cl.Call) == "(*N/db.Database).FindEmitterSequenceGap" {
			del = true
		}
	})
	R.Check("C12.rpc", "C12.rpc/FindMissingMessages/delegates", c.rel(p.Pos(fm.Pos())), "find-missing-messages delegates gap detection to the store", del, "no call to FindEmitterSequenceGap")
}

// c12noRetain: badger reuses the buffers behind Item.Key() (and the slice handed to the
// Item.Value callback) as soon as the iterator advances. A slice obtained from them may be read,
// converted to a string, parsed or copied inside the iteration step, but must not be kept (stored,
// appended as an element, put in a map, sent, returned, captured): a kept slice is silently
// overwritten with the bytes of a later key — of another emitter's stream.
func c12noRetain(c *Ctx, p *load.Program) {
	R := c.R
	n := 0
	var escapes func(v ssa.Value, depth int) string
	escapes = func(v ssa.Value, depth int) string {
		if v.Referrers() == nil || depth > 6 {
			return ""
		}
		for _, r := range *v.Referrers() {
			switch x := r.(type) {
			case *ssa.Convert:
				// string(key) copies
			case *ssa.Slice:
				if w := escapes(x, depth+1); w != "" {
					return w
				}
			case *ssa.ChangeType:
				if w := escapes(x, depth+1); w != "" {
					return w
				}
			case *ssa.Phi:
				if w := escapes(x, depth+1); w != "" {
					return w
				}
			case *ssa.Store:
				if x.Val != v {
					continue
				}
				// a local variable (possibly shared with the synchronous Value callback): follow
				// its loads
				if al, ok := x.Addr.(*ssa.Alloc); ok && al.Referrers() != nil {
					for _, ar := range *al.Referrers() {
						switch y := ar.(type) {
						case *ssa.UnOp:
							if w := escapes(y, depth+1); w != "" {
								return w
							}
						case *ssa.MakeClosure:
							fn := y.Fn.(*ssa.Function)
							for k, b := range y.Bindings {
								if b != ssa.Value(al) || k >= len(fn.FreeVars) || fn.FreeVars[k].Referrers() == nil {
									continue
								}
								for _, fr := range *fn.FreeVars[k].Referrers() {
									if ld, ok := fr.(*ssa.UnOp); ok {
										if w := escapes(ld, depth+1); w != "" {
											return w
										}
									}
								}
							}
						}
					}
					continue
				}
				// argument list of a variadic call: formatting/logging copies, append keeps
				if ia, ok := x.Addr.(*ssa.IndexAddr); ok {
					if al, ok := ia.X.(*ssa.Alloc); ok && al.Comment == "varargs" && al.Referrers() != nil {
						kept := ""
						for _, ar := range *al.Referrers() {
							if sl, ok := ar.(*ssa.Slice); ok && sl.Referrers() != nil {
								for _, sr := range *sl.Referrers() {
									if call, ok := sr.(ssa.CallInstruction); ok {
										cn := facts.CalleeName(call.Common())
										if !(strings.HasPrefix(cn, "fmt.") || strings.HasPrefix(cn, "go.uber.org/zap") || strings.HasPrefix(cn, "log.")) {
											kept = "kept by " + cn
										}
									}
								}
							}
						}
						if kept != "" {
							return kept
						}
						continue
					}
				}
				return "stored into " + facts.Term(x.Addr)
			case *ssa.MapUpdate:
				if x.Value == v || x.Key == v {
					return "kept in map " + facts.Term(x.Map)
				}
			case *ssa.Send:
				if x.X == v {
					return "sent on a channel"
				}
			case *ssa.Return:
				return "returned"
			case *ssa.MakeClosure:
				return "captured by a closure"
			case *ssa.MakeInterface:
				if w := escapes(x, depth+1); w != "" {
					return w
				}
			}
		}
		return ""
	}
	for _, f := range p.SrcFuncs(pkgDB) {
		eachInstr(f, func(i ssa.Instruction) {
			cl, ok := i.(*ssa.Call)
			if !ok {
				return
			}
			name := facts.CalleeName(&cl.Call)
			if !strings.HasSuffix(name, "badger/v3.Item).Key") && !strings.HasSuffix(name, "badger.Item).Key") {
				return
			}
			n++
			why := escapes(cl, 0)
			R.Check("C12.no-retain", R.Key("C12.no-retain", shortFn(f), "item.Key"), c.rel(p.Pos(cl.Pos())), "the slice returned by badger's Item.Key() is not kept beyond the iteration step (KeyCopy is the keeping form)", why == "",
				why+": the iterator reuses that buffer, so the kept key is later overwritten by a key of another stream and the result mixes streams")
		})
		// the slice passed to an Item.Value callback
		if f.Parent() != nil && len(f.Params) == 1 {
			used := false
			if refs := f.Referrers(); refs != nil {
				for _, r := range *refs {
					if call, ok := r.(*ssa.Call); ok && strings.HasSuffix(facts.CalleeName(&call.Call), "Item).Value") {
						used = true
					}
				}
			}
			if used {
				n++
				why := escapes(f.Params[0], 0)
				R.Check("C12.no-retain", R.Key("C12.no-retain", shortFn(f), "item.Value"), c.rel(p.Pos(f.Pos())), "the slice handed to an Item.Value callback is not kept beyond the callback (ValueCopy is the keeping form)", why == "", why)
			}
		}
	}
	R.Floor("C12.no-retain", n, 1)
}
