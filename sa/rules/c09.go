package rules

import (
	"fmt"
	"go/token"
	"go/types"
	"sort"
	"strings"

	"golang.org/x/tools/go/ssa"

	"wvsa/internal/facts"
)

func init() {
	register("C09", "The liveness claim (every final message is eventually observed) is NOT decided. Decided structural necessary conditions of the never-crashes / never-stalls / never-spins / never-drops half, on pkg/alephium SSA: (page-exit) the page loop's exit must be an ordering comparison that fires whenever the cursor has reached or passed the polled count — an equality exit never fires once new events arrive between the count request and a page request, and every iteration performs an API call; (isolate) inside the per-event loop a content error (conversion/validation of one event) must not return out of the page, and no content-originated error may reach errC (errC ends Run; the restart re-initialises the cursor to the current count and drops everything not yet fetched) — error origins are classified transport (client.* results) vs content (To*/parse*/validate*/fmt.Errorf) by data flow through return values; (errC-shape) every errC send is immediately followed by return; (optional-deref) every dereference of a one-of pointer field of the SDK's result types needs a must-hold non-nil fact for the same access path; (no-panic) explicit panics and index/slice expressions in the functions reachable from Watcher.Run are enumerated and discharged by dominating bound facts. (pending-list-only-grows) filing a received event writes append(<the block's pending list>, …): events already waiting for a block are never replaced by a later batch.", c09)
}

const sdkPkg = "github.com/alephium/go-sdk"

func c09(c *Ctx) {
	a := c.alph()
	p, R := a.p, c.R
	R.Trust("go/types + go/ssa", "Go channel semantics (unbuffered errC has one reader)", "supervisor restarts a watcher whose Run returned")
	loopVarRule(c, p, "C09.loopvar", pkgAlph)
	c09poller(c, a)
	c09deadline(c, a)
	R.Assumption("liveness (eventually observed, exactly once) is not decided; only the structural necessary conditions listed in the explanation")

	// ---- C09.page-exit -------------------------------------------------------------------------
	var getEv *ssa.Call
	eachInstr(a.fetchEvents, func(i ssa.Instruction) {
		if cl, ok := i.(*ssa.Call); ok && facts.CalleeName(&cl.Call) == "(*N/alephium.Client).GetContractEvents" {
			getEv = cl
		}
	})
	if getEv == nil {
		R.Fail("C09.page-exit", "C09.page-exit/fetchEvents/page-loop", "", "page loop", "undecided: GetContractEvents call not found in fetchEvents")
	} else {
		var inner *facts.Loop
		for _, l := range facts.LoopsOf(a.fetchEvents) {
			l := l
			if l.Body()[getEv.Block()] && (inner == nil || inner.Header.Dominates(l.Header)) {
				inner = &l
			}
		}
		if inner == nil {
			R.Fail("C09.page-exit", "C09.page-exit/fetchEvents/page-loop", c.rel(p.Pos(getEv.Pos())), "page loop", "undecided: page request is not inside a loop")
		} else {
			body := inner.Body()
			nexit := 0
			for _, b := range a.fetchEvents.Blocks {
				if !body[b] {
					continue
				}
				for k, s := range b.Succs {
					if body[s] {
						continue
					}
					// exits that lead straight to a return are error exits
					if leadsOnlyToReturn(s) {
						continue
					}
					// … and so are exits taken because a call failed (`err != nil`): the error is
					// reported after the loop (C09.errC-shape judges that part)
					if iff, ok := b.Instrs[len(b.Instrs)-1].(*ssa.If); ok {
						if bo, ok := iff.Cond.(*ssa.BinOp); ok && (bo.Op == token.NEQ && k == 0 || bo.Op == token.EQL && k == 1) {
							x, y := bo.X, bo.Y
							if isNilConst(x) {
								x, y = y, x
							}
							if isNilConst(y) && isErrorType(x.Type()) {
								continue
							}
						}
					}
					nexit++
					iff, ok := b.Instrs[len(b.Instrs)-1].(*ssa.If)
					key := R.Key("C09.page-exit", shortFn(a.fetchEvents), "page-loop-exit")
					pos := c.rel(p.Pos(instrPos(b.Instrs[len(b.Instrs)-1])))
					if !ok {
						R.Fail("C09.page-exit", key, pos, "page loop exit", "undecided: unconditional exit")
						continue
					}
					cond, pol := iff.Cond, k == 0
					for {
						u, isNot := cond.(*ssa.UnOp)
						if !isNot || u.Op != token.NOT {
							break
						}
						cond, pol = u.X, !pol
					}
					// a loop controlled by a flag (`for done := false; !done; { …; done = a >= b }`): the
					// exit is taken exactly when the value assigned on the back edge has the exit polarity
					if ph, isPhi := cond.(*ssa.Phi); isPhi && ph.Block() == inner.Header {
						var latchV ssa.Value
						flag := true
						for pi, e := range ph.Edges {
							if body[ph.Block().Preds[pi]] {
								if latchV != nil && latchV != e {
									flag = false
								}
								latchV = e
							} else if cv, isC := isBoolConstV(e); !isC || cv == pol {
								flag = false
							}
						}
						if flag && latchV != nil {
							cond = latchV
						}
					}
					x, op, y, okc := cmpOf(facts.Fact{Cond: cond, Pol: pol})
					if !okc {
						R.Fail("C09.page-exit", key, pos, "page loop exit", "undecided: exit condition is not a comparison: "+facts.Term(iff.Cond))
						continue
					}
					tx, ty := facts.Term(x), facts.Term(y)
					// a count or cursor obtained through a local helper literal
					if ls := c08cursorLeaves(x); len(ls) == 1 {
						tx = facts.Term(ls[0].v)
					}
					if ls := c08cursorLeaves(y); len(ls) == 1 {
						ty = facts.Term(ls[0].v)
					}
					isCursor := func(t string) bool { return strings.HasSuffix(t, ".NextStart") || t == "phi:fromIndex" }
					isCount := func(t string) bool {
						return strings.HasPrefix(t, "*(*N/alephium.Client).GetContractEventsCount(")
					}
					// exit edge must hold whenever cursor >= count: i.e. the edge condition is `count <= cursor` (or count < cursor+…)
					good := op == token.LEQ && isCount(tx) && isCursor(ty)
					why := fmt.Sprintf("exit edge condition: %s %s %s", tx, op, ty)
					if op == token.EQL {
						why += " — an equality exit never fires once the event count has moved past the polled count between the count request and a page request; every further iteration issues another GetContractEvents call (API spin)"
					}
					R.Check("C09.page-exit", key, pos, "the page loop exits whenever the cursor has reached or passed the polled count (count <= cursor)", good, why)
				}
			}
			R.Floor("C09.page-exit", nexit, 1)
			// each iteration performs an API call (so a non-terminating loop spins on the node)
			R.Note("page loop body performs GetContractEvents on every iteration: %v", body[getEv.Block()])
		}
	}

	// ---- C09.isolate ----------------------------------------------------------------------------
	c09isolate(c, a)

	// ---- C09.errC-shape ------------------------------------------------------------------------
	n := 0
	for _, f := range p.SrcFuncs(pkgAlph) {
		for _, sd := range sendsIn(f) {
			if !isErrChan(sd.Chan.Type()) {
				continue
			}
			n++
			ok, why := followedByReturn(sd.Instr)
			R.Check("C09.errC-shape", R.Key("C09.errC-shape", shortFn(f), "send:errC"), c.rel(p.Pos(sd.Instr.Pos())), "a send on the error channel is immediately followed by return (the channel is unbuffered with a single reader; a second send blocks the goroutine forever)", ok, why)
		}
	}
	R.Floor("C09.errC-shape", n, 4)

	// ---- C09.optional-deref --------------------------------------------------------------------
	c09optional(c, a)

	// ---- C09.no-panic --------------------------------------------------------------------------
	run := must(p.Method(pkgAlph, "Watcher", "Run"), "alephium.(*Watcher).Run")
	reach := reachableFuncs(p, run)
	var fns []*ssa.Function
	for f := range reach {
		if f.Pkg != nil && f.Pkg.Pkg.Path() == pkgAlph && len(f.Blocks) > 0 {
			fns = append(fns, f)
		}
	}
	sort.Slice(fns, func(i, j int) bool { return fname(fns[i]) < fname(fns[j]) })
	R.Count("alephium.functions_reachable_from_Run", len(fns))
	nob := 0
	for _, f := range fns {
		for _, ob := range boundsObligations(p, f) {
			nob++
			key := R.Key("C09.no-panic", shortFn(f), ob.Kind+":"+ob.Desc)
			R.Check("C09.no-panic", key, c.rel(p.Pos(instrPos(ob.Instr))), ob.Kind+" "+ob.Desc+" in "+shortFn(f)+" cannot panic", ob.OK, ob.Why)
		}
	}
	R.Floor("C09.no-panic", nob, 20)
}

func isErrChan(t types.Type) bool {
	ch, ok := t.Underlying().(*types.Chan)
	if !ok {
		return false
	}
	return types.TypeString(ch.Elem(), nil) == "error"
}

// leadsOnlyToReturn: block b (and its unconditional successors) end in a Return.
func leadsOnlyToReturn(b *ssa.BasicBlock) bool {
	for i := 0; i < 6; i++ {
		last := b.Instrs[len(b.Instrs)-1]
		switch last.(type) {
		case *ssa.Return:
			return true
		case *ssa.Jump:
			b = b.Succs[0]
		default:
			return false
		}
	}
	return false
}

// followedByReturn: after instr only run-defers/jumps occur until a Return.
func followedByReturn(instr ssa.Instruction) (bool, string) {
	b := instr.Block()
	idx := 0
	for i, x := range b.Instrs {
		if x == instr {
			idx = i + 1
		}
	}
	// for a Select-based send the caller passes the Select; treat as undecided
	for hops := 0; hops < 6; hops++ {
		for ; idx < len(b.Instrs); idx++ {
			switch x := b.Instrs[idx].(type) {
			case *ssa.Return:
				return true, ""
			case *ssa.RunDefers, *ssa.DebugRef:
			case *ssa.Jump:
			default:
				return false, "after the send execution continues with " + x.String() + " instead of returning"
			}
		}
		if len(b.Succs) != 1 {
			return false, "after the send control flow branches instead of returning"
		}
		b, idx = b.Succs[0], 0
	}
	return false, "no return found after the send"
}

// errOrigin classifies where a function's non-nil error results can come from.
type errOrigin struct{ transport, content bool }

func (c *Ctx) errOrigins(fn *ssa.Function, resIdx int, seen map[*ssa.Function]bool) (errOrigin, []string) {
	var o errOrigin
	var why []string
	if seen[fn] || len(fn.Blocks) == 0 {
		return o, nil
	}
	seen[fn] = true
	var classify func(v ssa.Value, depth int)
	classify = func(v ssa.Value, depth int) {
		if depth > 6 || v == nil || isNilConst(v) {
			return
		}
		switch x := v.(type) {
		case *ssa.Phi:
			for _, e := range x.Edges {
				classify(e, depth+1)
			}
		case *ssa.Extract:
			if cl, ok := x.Tuple.(*ssa.Call); ok {
				classifyCall(c, cl, x.Index, &o, &why, seen)
			}
		case *ssa.Call:
			classifyCall(c, x, 0, &o, &why, seen)
		case *ssa.MakeInterface:
			classify(x.X, depth+1)
		case *ssa.UnOp:
			// load of a captured/spilled error variable: look at the stores
			if al, ok := x.X.(*ssa.Alloc); ok && al.Referrers() != nil {
				for _, r := range *al.Referrers() {
					if st, ok := r.(*ssa.Store); ok && st.Addr == al {
						classify(st.Val, depth+1)
					}
				}
			}
		default:
			o.content = true
			why = append(why, "unclassified error value "+facts.Term(v))
		}
	}
	eachInstr(fn, func(i ssa.Instruction) {
		if r, ok := i.(*ssa.Return); ok && resIdx < len(r.Results) {
			if c.infeasibleEventIndexReturn(r) {
				return
			}
			classify(r.Results[resIdx], 0)
		}
	})
	return o, why
}

// infeasibleEventIndexReturn: a return that requires `<x>.event.EventIndex != WormholeMessageEventIndex`
// for an UnconfirmedEvent is unreachable, because every UnconfirmedEvent in the module is allocated
// under the fact EventIndex == WormholeMessageEventIndex (re-verified here, one exemption, one reason).
func (c *Ctx) infeasibleEventIndexReturn(r *ssa.Return) bool {
	need := false
	for _, f := range acceptFacts(r) {
		if strings.HasPrefix(f.Atom, "0 != ") && strings.HasSuffix(f.Atom, ".event.ContractEvent.EventIndex") {
			need = true
		}
	}
	if !need {
		return false
	}
	p := c.Node()
	ueT := p.Named(pkgAlph, "UnconfirmedEvent")
	if ueT == nil {
		return false
	}
	sites := allocsOf(p, ueT)
	if len(sites) == 0 {
		return false
	}
	for _, s := range sites {
		al := s.Instr.(*ssa.Alloc)
		vals, _ := allocStores(al)
		ev := termOrNil(vals["ContractEvent"])
		if !facts.Has(facts.At(al, nil), func(at string) bool { return at == "0 == "+ev+".EventIndex" }) {
			return false
		}
	}
	return true
}

func classifyCall(c *Ctx, cl *ssa.Call, idx int, o *errOrigin, why *[]string, seen map[*ssa.Function]bool) {
	name := facts.CalleeName(&cl.Call)
	switch {
	case strings.HasPrefix(name, "(*N/alephium.Client)."):
		// node API wrappers: transport, except GetTokenInfo which also interprets results
		if callee := cl.Call.StaticCallee(); callee != nil && callee.Name() == "GetTokenInfo" {
			o.transport, o.content = true, true
			*why = append(*why, "GetTokenInfo (interprets call results)")
			return
		}
		o.transport = true
	case name == "fmt.Errorf" || name == "errors.New":
		o.content = true
		*why = append(*why, name+" at "+cl.Parent().Name())
	case name == "dyn":
		// call of a function value: a local closure, or a function-typed parameter whose bindings
		// at every call site of the enclosing function are closures of this package
		var targets []*ssa.Function
		resolved := true
		val := cl.Call.Value
		// a captured variable: follow the binding into the enclosing function
		for hops := 0; hops < 6; hops++ {
			if u, isLoad := val.(*ssa.UnOp); isLoad && u.Op == token.MUL {
				val = u.X
				continue
			}
			if al, ok := val.(*ssa.Alloc); ok {
				if sp := facts.SpilledParam(al); sp != nil {
					val = sp
					continue
				}
				break
			}
			fv, isFV := val.(*ssa.FreeVar)
			if !isFV {
				break
			}
			fnc := fv.Parent()
			par := fnc.Parent()
			var bound ssa.Value
			if par != nil {
				eachInstr(par, func(i ssa.Instruction) {
					if mc, ok := i.(*ssa.MakeClosure); ok && mc.Fn == fnc {
						for k, x := range fnc.FreeVars {
							if x == fv {
								bound = mc.Bindings[k]
							}
						}
					}
				})
			}
			if bound == nil {
				break
			}
			val = bound
		}
		switch v := val.(type) {
		case *ssa.MakeClosure:
			targets = append(targets, v.Fn.(*ssa.Function))
		case *ssa.Parameter:
			encl := v.Parent()
			pi := -1
			for k, pp := range encl.Params {
				if pp == v {
					pi = k
				}
			}
			sites := callsTo(c.Node(), encl)
			if pi < 0 || len(sites) == 0 {
				resolved = false
			}
			for _, s := range sites {
				arg := s.Instr.(ssa.CallInstruction).Common().Args[pi]
				if mc, ok := arg.(*ssa.MakeClosure); ok {
					targets = append(targets, mc.Fn.(*ssa.Function))
				} else {
					resolved = false
				}
			}
		default:
			resolved = false
		}
		if !resolved {
			o.content = true
			*why = append(*why, "error from an unresolved function value "+facts.Term(cl.Call.Value))
			return
		}
		for _, t := range targets {
			ei := t.Signature.Results().Len() - 1
			if t.Synthetic != "" {
				// bound method value: classify the method
				if m := c.Node().SSA.FuncValue(t.Object().(*types.Func)); m != nil {
					t = m
				}
			}
			sub, w := c.errOrigins(t, ei, seen)
			o.transport = o.transport || sub.transport
			o.content = o.content || sub.content
			*why = append(*why, w...)
		}
	default:
		if callee := cl.Call.StaticCallee(); callee != nil && callee.Pkg != nil && callee.Pkg.Pkg.Path() == pkgAlph {
			sig := callee.Signature.Results()
			ei := sig.Len() - 1
			sub, w := c.errOrigins(callee, ei, seen)
			o.transport = o.transport || sub.transport
			o.content = o.content || sub.content
			*why = append(*why, w...)
			return
		}
		o.content = true
		*why = append(*why, "error from "+name)
	}
}

func c09isolate(c *Ctx, a *alphAnchors) {
	p, R := a.p, c.R
	// (1) per-event loop of handleUnconfirmedEvents: no error return from inside the loop body
	fn := a.handleUnconfirmed
	var loop *facts.Loop
	for _, l := range facts.LoopsOf(fn) {
		l := l
		loop = &l
	}
	if loop == nil {
		R.Fail("C09.isolate", "C09.isolate/handleUnconfirmedEvents/loop", "", "per-event loop", "undecided: no loop in handleUnconfirmedEvents")
	} else {
		body := loop.Body()
		nret := 0
		for _, b := range fn.Blocks {
			r, ok := b.Instrs[len(b.Instrs)-1].(*ssa.Return)
			if !ok {
				continue
			}
			// is this return reached from inside the loop without passing the loop's normal exit?
			inside := false
			for _, pr := range b.Preds {
				if body[pr] && pr != loop.Header {
					inside = true
				}
			}
			if body[b] {
				inside = true
			}
			if !inside {
				continue
			}
			nret++
			errV := r.Results[len(r.Results)-1]
			src := facts.Term(errV)
			R.Check("C09.isolate", R.Key("C09.isolate", shortFn(fn), "return-in-event-loop"), c.rel(p.Pos(instrPos(r))), "a failure while converting one event of a page does not abandon the rest of the page",
				isNilConst(errV), "the per-event loop returns error "+src+": one malformed or foreign event (anyone may publish on the governance contract's event stream) discards every other event of the page")
		}
		R.Pass("C09.isolate", "C09.isolate/handleUnconfirmedEvents/scan", c.rel(p.Pos(fn.Pos())), fmt.Sprintf("scanned per-event loop: %d returns inside the loop body", nret), "loop exits enumerated")
	}
	// (2) errC sends: origin of the error value
	n := 0
	for _, f := range p.SrcFuncs(pkgAlph) {
		for _, sd := range sendsIn(f) {
			if !isErrChan(sd.Chan.Type()) {
				continue
			}
			n++
			var o errOrigin
			var why []string
			seen := map[*ssa.Function]bool{}
			// classify the sent value in the context of f
			var classify func(v ssa.Value, d int)
			classify = func(v ssa.Value, d int) {
				if d > 6 || v == nil || isNilConst(v) {
					return
				}
				switch x := v.(type) {
				case *ssa.Phi:
					for _, e := range x.Edges {
						classify(e, d+1)
					}
				case *ssa.Extract:
					if cl, ok := x.Tuple.(*ssa.Call); ok {
						classifyCall(c, cl, x.Index, &o, &why, seen)
					}
				case *ssa.Call:
					classifyCall(c, x, 0, &o, &why, seen)
				default:
					o.content = true
					why = append(why, "unclassified "+facts.Term(v))
				}
			}
			classify(sd.X, 0)
			R.Check("C09.isolate", R.Key("C09.isolate", shortFn(f), "send:errC:origin"), c.rel(p.Pos(sd.Instr.Pos())), "only transport errors (node API failures) may end the watcher; an error caused by event content must not reach errC",
				!o.content, "the error sent can originate in event content: "+strings.Join(dedupStrings(why), "; ")+" — the watcher restarts and its cursor is re-initialised to the current event count, dropping events not yet fetched")
		}
	}
	R.Floor("C09.isolate.errC-sends", n, 4)
}

func dedupStrings(in []string) []string {
	seen := map[string]bool{}
	var out []string
	for _, s := range in {
		if !seen[s] {
			seen[s] = true
			out = append(out, s)
		}
	}
	return out
}

// c09optional: dereferences of one-of pointer fields of SDK types need a non-nil fact on the same path.
func c09optional(c *Ctx, a *alphAnchors) {
	p, R := a.p, c.R
	n := 0
	for _, f := range p.SrcFuncs(pkgAlph) {
		eachInstr(f, func(i ssa.Instruction) {
			fa, ok := i.(*ssa.FieldAddr)
			if !ok {
				return
			}
			// base must be a load of a pointer-typed field of an SDK struct
			ld, ok := fa.X.(*ssa.UnOp)
			var holderFld *types.Var
			var ptrVal ssa.Value = fa.X
			if ok && ld.Op == token.MUL {
				holderFld = fieldOfAddr(ld.X)
			} else if fv, ok2 := fa.X.(*ssa.Field); ok2 {
				holderFld = fieldOfAddr(fv)
			}
			if holderFld == nil || holderFld.Pkg() == nil || holderFld.Pkg().Path() != sdkPkg {
				return
			}
			if _, isPtr := holderFld.Type().Underlying().(*types.Pointer); !isPtr {
				return
			}
			n++
			t := facts.Term(ptrVal)
			fs := facts.At(fa, nil)
			want := t + " != nil"
			R.Check("C09.optional-deref", R.Key("C09.optional-deref", shortFn(f), "deref:"+t), c.rel(p.Pos(fa.Pos())), "dereference of optional SDK field "+t+" is guarded by a nil test of the same access path", facts.HasAtom(fs, want),
				"no must-hold fact `"+want+"` on every path to this dereference (a nil result — e.g. a failed contract call — panics the watcher goroutine)", facts.Atoms(fs)...)
		})
	}
	R.Floor("C09.optional-deref", n, 10)
}

// c09poller: the height poller is what drives confirmation of pending events. It is switched on
// and off by the goroutine that owns the pending set (handleEvents_): on, before events are added;
// off, only when the set is empty. If another goroutine switched it on (say the fetcher, before
// handing the batch over), a concurrent `process` that empties the set would switch it off again
// before the batch arrives, and the batch would never be confirmed.
func c09poller(c *Ctx, a *alphAnchors) {
	p, R := a.p, c.R
	en := must(p.Method(pkgAlph, "Watcher", "EnableBlockPoller"), "EnableBlockPoller")
	dis := must(p.Method(pkgAlph, "Watcher", "DisableBlockPoller"), "DisableBlockPoller")
	fld := must(p.FieldOf(pkgAlph, "Watcher", "blockPollerEnabled"), "Watcher.blockPollerEnabled")
	owner := func(f *ssa.Function) bool {
		for f != nil {
			if f == a.handleEvents_ {
				return true
			}
			f = f.Parent()
		}
		return false
	}
	n := 0
	for _, s := range append(callsTo(p, en), callsTo(p, dis)...) {
		n++
		R.Check("C09.poller", R.Key("C09.poller", shortFn(s.Fn), "call:"+s.Instr.(ssa.CallInstruction).Common().StaticCallee().Name()), c.sitePos(p, s), "the block poller is switched only by the goroutine that owns the pending-event set (handleEvents_)", owner(s.Fn),
			"called from "+shortFn(s.Fn)+": a switch-on from another goroutine races with the owner switching it off after emptying the set; events handed over afterwards are never confirmed")
	}
	R.Floor("C09.poller.calls", n, 2)
	// direct stores to the flag only inside Enable/Disable
	for _, s := range fieldAccesses(p, fld) {
		u, isLoad := s.Instr.(*ssa.UnOp)
		if !isLoad || u.Referrers() == nil {
			continue
		}
		for _, r := range *u.Referrers() {
			if cl, ok := r.(*ssa.Call); ok && strings.HasSuffix(facts.CalleeName(&cl.Call), "atomic.Bool).Store") {
				R.Check("C09.poller", R.Key("C09.poller", shortFn(s.Fn), "store:blockPollerEnabled"), c.sitePos(p, s), "the poller flag is written only by Enable/DisableBlockPoller", s.Fn == en || s.Fn == dis, "written in "+shortFn(s.Fn))
			}
		}
	}
	// on: before anything is added to the pending set; off: only when the set is empty
	var pend *ssa.MakeMap
	eachInstr(a.handleEvents_, func(i ssa.Instruction) {
		if mm, ok := i.(*ssa.MakeMap); ok && pend == nil {
			pend = mm
		}
	})
	nadd := 0
	for _, f := range append([]*ssa.Function{a.handleEvents_}, a.handleEvents_.AnonFuncs...) {
		eachInstr(f, func(i ssa.Instruction) {
			switch x := i.(type) {
			case *ssa.MapUpdate:
				if !strings.Contains(facts.Term(x.Map), "pendingEvents") && x.Map != ssa.Value(pend) {
					return
				}
				nadd++
				// one iteration of the owner's loop: from its select to the insertion; the batch
				// is ranged over, so the `len(batch) == 0` edge cannot lead to an insertion
				var start *ssa.BasicBlock
				eachInstr(f, func(j ssa.Instruction) {
					if sel, isSel := j.(*ssa.Select); isSel && sel.Blocking && start == nil {
						start = sel.Block()
					}
				})
				if start == nil {
					start = f.Blocks[0]
				}
				cutEdges, _ := edgesWhere(f, func(at string) bool {
					return strings.HasPrefix(at, "0 == len(select") || strings.HasPrefix(at, "len(select") && strings.HasSuffix(at, " == 0")
				})
				cuts := facts.Cuts{}
				for _, e := range cutEdges {
					cuts[e] = true
				}
				ok := facts.BeforeFrom(start, x, cuts, func(j ssa.Instruction) bool {
					cl, isCall := j.(*ssa.Call)
					return isCall && cl.Call.StaticCallee() == en
				})
				R.Check("C09.poller", R.Key("C09.poller", shortFn(f), "add-pending"), c.rel(p.Pos(x.Pos())), "the poller is switched on before an event is added to the pending set", ok, "no EnableBlockPoller on every path to this insertion")
			case *ssa.Call:
				if x.Call.StaticCallee() != dis {
					return
				}
				fs := facts.Atoms(facts.At(x, nil))
				ok := false
				for _, at := range fs {
					if strings.HasPrefix(at, "0 == len(") && (strings.Contains(at, "pendingEvents") || pend != nil && at == "0 == len("+facts.Term(pend)+")") || strings.HasPrefix(at, "len(") && strings.HasSuffix(at, " == 0") {
						ok = true
					}
				}
				R.Check("C09.poller", R.Key("C09.poller", shortFn(f), "disable"), c.rel(p.Pos(x.Pos())), "the poller is switched off only when no event is pending", ok, strings.Join(fs, ";"))
			}
		})
	}
	R.Floor("C09.poller.add-pending", nadd, 1)
	// every event of a received batch is filed: each iteration of the loop over the batch reaches
	// an insertion into the pending set (append to the block's list, or a new entry) — no event is
	// skipped on account of its content (two messages of one transaction share TxId and EventIndex)
	evF := must(p.FieldOf(pkgAlph, "UnconfirmedEventsPerBlock", "events"), "UnconfirmedEventsPerBlock.events")
	isFile := func(i ssa.Instruction) bool {
		switch x := i.(type) {
		case *ssa.MapUpdate:
			return strings.Contains(facts.Term(x.Map), "pendingEvents") || x.Map == ssa.Value(pend)
		case *ssa.Store:
			return fieldOfAddr(x.Addr) == evF && !isFreshAlloc(x.Addr) && !inPendingPass(x.Block())
		}
		return false
	}
	nloop := 0
	for _, l := range facts.LoopsOf(a.handleEvents_) {
		body := l.Body()
		has := false
		for b := range body {
			for _, ins := range b.Instrs {
				if isFile(ins) {
					has = true
				}
			}
		}
		if !has {
			continue
		}
		// the batch loop: the innermost loop containing the insertions
		inner := true
		for _, l2 := range facts.LoopsOf(a.handleEvents_) {
			if l2.Header != l.Header && body[l2.Header] {
				b2 := l2.Body()
				for b := range b2 {
					for _, ins := range b.Instrs {
						if isFile(ins) {
							inner = false
						}
					}
				}
			}
		}
		if !inner {
			continue
		}
		nloop++
		cuts := facts.Cuts{}
		for _, lt := range l.Latches {
			for k, sc := range lt.Succs {
				if sc == l.Header {
					cuts[facts.Edge{B: lt.Index, K: k}] = true
				}
			}
		}
		okAll := true
		for _, lt := range l.Latches {
			if !facts.BeforeFrom(l.Header, lt.Instrs[len(lt.Instrs)-1], cuts, isFile) {
				okAll = false
			}
		}
		R.Check("C09.isolate", R.Key("C09.isolate", shortFn(a.handleEvents_), "every-event-filed"), c.rel(p.Pos(instrPos(l.Header.Instrs[0]))), "every event of a received batch is put into the pending set", okAll, "an iteration over the batch can finish without filing its event (an event is skipped because of its content)")
	}
	R.Floor("C09.isolate.batch-loop", nloop, 1)
	// filing only adds: a store to the list of an entry that may already be in the pending set
	// (outside the confirmation pass, which removes what it handed on) writes append(<that list>, …) —
	// a second batch with events of the same block never replaces the ones already waiting
	ngrow := 0
	for _, f := range append([]*ssa.Function{a.handleEvents_}, a.handleEvents_.AnonFuncs...) {
		eachInstr(f, func(i ssa.Instruction) {
			st, ok := i.(*ssa.Store)
			if !ok || fieldOfAddr(st.Addr) != evF || isFreshAlloc(st.Addr) || inPendingPass(st.Block()) {
				return
			}
			ngrow++
			okG := false
			if cl, isCall := strip(st.Val).(*ssa.Call); isCall && facts.CalleeName(&cl.Call) == "append" && len(cl.Call.Args) >= 1 {
				if ld, isLd := strip(cl.Call.Args[0]).(*ssa.UnOp); isLd && ld.Op == token.MUL && fieldOfAddr(ld.X) == evF {
					fa1, ok1 := ld.X.(*ssa.FieldAddr)
					fa2, ok2 := st.Addr.(*ssa.FieldAddr)
					okG = ok1 && ok2 && fa1.X == fa2.X
				}
			}
			R.Check("C09.isolate", R.Key("C09.isolate", shortFn(f), "pending-list-only-grows"), c.rel(p.Pos(st.Pos())), "filing writes append(<the block's pending list>, …): events already waiting for that block are kept", okG, "the pending list of a block that may already hold events is overwritten with "+facts.Term(st.Val))
		})
	}
	R.Floor("C09.isolate.pending-list-only-grows", ngrow, 1)
}

// c09deadline: every request to the Alephium node carries the client's per-request deadline: the
// context handed to an SDK request builder is the one produced by Client.timeoutContext (or
// context.WithDeadline/WithTimeout) — directly, or as the parameter of a function literal whose
// caller passes such a context. The SDK uses http.DefaultClient, which has no timeout of its own,
// so a request built on the caller's context waits for a silent node for ever and, being issued
// synchronously from the fetch loop, stalls the watcher without anything reaching errC.
func c09deadline(c *Ctx, a *alphAnchors) {
	p, R := a.p, c.R
	isCtx := func(t types.Type) bool { return t.String() == "context.Context" }
	var bound func(v ssa.Value, depth int) bool
	bound = func(v ssa.Value, depth int) bool {
		if depth > 4 {
			return false
		}
		v = strip(v)
		switch x := v.(type) {
		case *ssa.Extract:
			if cl, ok := x.Tuple.(*ssa.Call); ok {
				switch facts.CalleeName(&cl.Call) {
				case "(*N/alephium.Client).timeoutContext":
					return x.Index == 1
				case "context.WithDeadline", "context.WithTimeout":
					return x.Index == 0
				}
			}
		case *ssa.Parameter:
			f := x.Parent()
			idx := -1
			for k, q := range f.Params {
				if q == x {
					idx = k
				}
			}
			if idx < 0 {
				return false
			}
			if f.Parent() == nil {
				// an unexported helper: every call site passes a bound context
				if f.Object() == nil || f.Object().Exported() || len(funcRefs(p, f)) > 0 {
					return false
				}
				sites := callsTo(p, f)
				for _, s := range sites {
					args := s.Instr.(ssa.CallInstruction).Common().Args
					if idx >= len(args) || !bound(args[idx], depth+1) {
						return false
					}
				}
				return len(sites) > 0
			}
			// a function literal: find where it is handed to a callee and how that callee calls it
			ok, found := true, false
			eachInstr(f.Parent(), func(i ssa.Instruction) {
				ci, isCall := i.(ssa.CallInstruction)
				if !isCall {
					return
				}
				for ai, arg := range ci.Common().Args {
					mc, isMC := arg.(*ssa.MakeClosure)
					if !isMC || mc.Fn != ssa.Value(f) {
						continue
					}
					callee := ci.Common().StaticCallee()
					if callee == nil {
						ok = false
						continue
					}
					if o := callee.Origin(); o != nil && len(callee.Blocks) == 0 {
						callee = o
					}
					if ai >= len(callee.Params) {
						ok = false
						continue
					}
					prm := callee.Params[ai]
					eachInstr(callee, func(j ssa.Instruction) {
						cj, isCall := j.(ssa.CallInstruction)
						if !isCall || cj.Common().Value != ssa.Value(prm) {
							return
						}
						found = true
						if idx >= len(cj.Common().Args) || !bound(cj.Common().Args[idx], depth+1) {
							ok = false
						}
					})
				}
			})
			return ok && found
		}
		return false
	}
	n := 0
	endpoints := map[string]bool{}
	for _, f := range p.SrcFuncs(pkgAlph) {
		eachInstr(f, func(i ssa.Instruction) {
			cl, ok := i.(*ssa.Call)
			if !ok || cl.Call.IsInvoke() || cl.Call.StaticCallee() == nil {
				return
			}
			callee := cl.Call.StaticCallee()
			sig := callee.Signature
			if sig.Recv() == nil || !strings.HasSuffix(sig.Recv().Type().String(), "ApiService") || sig.Params().Len() == 0 || !isCtx(sig.Params().At(0).Type()) {
				return
			}
			if len(cl.Call.Args) < 2 {
				return
			}
			n++
			endpoints[callee.Name()] = true
			R.Check("C09.deadline", R.Key("C09.deadline", shortFn(f), "request:"+callee.Name()), c.rel(p.Pos(cl.Pos())), "the node request is built on the deadline-bound context of Client.timeoutContext", bound(cl.Call.Args[1], 0), "context = "+facts.Term(cl.Call.Args[1])+": without the per-request deadline a silent node blocks the fetch loop for ever (nothing reaches errC, nothing restarts)")
		})
	}
	// (the number of distinct node endpoints used, not of call sites: two client methods that
	// share one request builder are one site)
	_ = n
	R.Floor("C09.deadline.endpoints", len(endpoints), 10)
}
