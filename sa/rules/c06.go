package rules

import (
	"fmt"
	"go/token"
	"strings"

	"golang.org/x/tools/go/ssa"

	"wvsa/internal/facts"
	"wvsa/internal/load"
)

func init() {
	register("C06", "Function-level path rules on the SSA of (*VAA).VerifySignatures, matched by SSA value identity (not text), run on /repo/node and on the pinned module-cache copy the explorer links: (accept-guards) every completed iteration of the range loop over v.Signatures passes, for the current element: index < len(addresses), index > last index (initialised to -1, updated from the element), Ecrecover over v.SigningMsg() succeeded, recovered address == addresses[index]; the bound test dominates the index expression; `return true` is reachable only through the loop's exit edge; (reject-set) every `return false` is classified by a must-hold fact as one of six causes implied by the property's only-if side; (no-panic) every index/slice expression is discharged; (callers) the node and the explorer pass the guardian key list.", c06)
}

func c06(c *Ctx) {
	// the digest verified against must be a pure function of the body (a cached or partial digest would keep
	// signatures valid after the body changed)
	c04readsOn(c, c.Node(), "C06.digest")
	c.R.Trust("go/types + go/ssa", "crypto.Ecrecover returns a 65-byte public key on success; Keccak256 returns 32 bytes")
	c.R.Assumption("cryptographic soundness of Ecrecover is trusted", "nil *Signature elements are not produced by Unmarshal (every element is a fresh literal)")
	c06verify(c, c.Node(), pkgVAA, "C06", "node")
	ep := c.Explorer()
	c06verify(c, ep, pkgVAA, "C06", "explorer-pinned")
	// callers
	p := c.Node()
	vs := must(p.Method(pkgVAA, "VAA", "VerifySignatures"), "VerifySignatures")
	n := 0
	for _, s := range callsTo(p, vs) {
		n++
		arg := facts.Term(s.Instr.(ssa.CallInstruction).Common().Args[1])
		c.R.Check("C06.callers", c.R.Key("C06.callers", shortFn(s.Fn), "call:VerifySignatures"), c.sitePos(p, s), "node caller passes the current guardian set's keys", arg == "p.gs.Keys", "argument = "+arg)
	}
	c.R.Floor("C06.callers.node", n, 1)
	evs := must(ep.Method(pkgVAA, "VAA", "VerifySignatures"), "pinned VerifySignatures")
	n = 0
	for _, s := range callsTo(ep, evs) {
		if !strings.HasPrefix(s.Fn.Pkg.Pkg.Path(), ExplorerMod) {
			continue
		}
		n++
		arg := s.Instr.(ssa.CallInstruction).Common().Args[1]
		_, isParam := arg.(*ssa.Parameter)
		c.R.Check("C06.callers", c.R.Key("C06.callers", shortFn(s.Fn), "call:VerifySignatures"), c.rel(ep.Pos(s.Instr.Pos())), "explorer verifyVAA passes its key-list parameter (C19 checks that it is the set the VAA names)", isParam, "argument = "+facts.Term(arg))
	}
	c.R.Floor("C06.callers.explorer", n, 1)
}

func c06verify(c *Ctx, p *load.Program, pkgPath, prefix, tag string) {
	R := c.R
	fn := must(p.Method(pkgPath, "VAA", "VerifySignatures"), tag+" vaa.(*VAA).VerifySignatures")
	sm := must(p.Method(pkgPath, "VAA", "SigningMsg"), tag+" vaa.(*VAA).SigningMsg")
	pos := c.rel(p.Pos(fn.Pos()))
	key := func(s string) string { return prefix + "." + s + "/" + tag }
	v, addresses := fn.Params[0], fn.Params[1]
	// locate the Ecrecover call and the outer loop containing it
	var rec *ssa.Call
	eachInstr(fn, func(i ssa.Instruction) {
		if cl, ok := i.(*ssa.Call); ok && facts.CalleeName(&cl.Call) == "geth/crypto.Ecrecover" {
			rec = cl
		}
	})
	if rec == nil {
		R.Fail(prefix+".accept-guards", key("accept-guards")+"/ecrecover", pos, "VerifySignatures recovers the signer", "no call to crypto.Ecrecover")
		return
	}
	var outer *facts.Loop
	for _, l := range facts.LoopsOf(fn) {
		l := l
		if l.Body()[rec.Block()] {
			if outer == nil || l.Header.Dominates(outer.Header) {
				outer = &l
			}
		}
	}
	if outer == nil {
		R.Fail(prefix+".accept-guards", key("accept-guards")+"/loop", pos, "signature loop", "Ecrecover is not inside a loop")
		return
	}
	// loop index and element
	var I ssa.Value
	for _, ins := range outer.Header.Instrs {
		if b, ok := ins.(*ssa.BinOp); ok && b.Op == token.ADD {
			if ph, ok := b.X.(*ssa.Phi); ok && ph.Block() == outer.Header {
				if one, ok := constInt(b.Y); ok && one == 1 {
					I = b
				}
			}
		}
	}
	if I == nil {
		// `for i := 0; i < len(v.Signatures); i++`
		for _, ins := range outer.Header.Instrs {
			if ph, ok := ins.(*ssa.Phi); ok {
				if _, isCounted := facts.CountedLoopIndex(ph); isCounted {
					I = ph
				}
			}
		}
	}
	var elem ssa.Value // *Signature of this iteration
	if I != nil {
		eachInstr(fn, func(i ssa.Instruction) {
			if u, ok := i.(*ssa.UnOp); ok && u.Op == token.MUL {
				if ia, ok := u.X.(*ssa.IndexAddr); ok && ia.Index == I {
					if _, f := fieldLoad(ia.X); f != nil && f.Name() == "Signatures" {
						if b, _ := fieldLoad(ia.X); b == v {
							elem = u
						}
					}
				}
			}
		})
	}
	// loop bound is len(v.Signatures)
	boundOK := false
	if I != nil {
		if iff, ok := outer.Header.Instrs[len(outer.Header.Instrs)-1].(*ssa.If); ok {
			if bo, ok := iff.Cond.(*ssa.BinOp); ok && bo.Op == token.LSS && bo.X == I {
				b, f := fieldLoad(lenOf(bo.Y))
				boundOK = b == v && f != nil && f.Name() == "Signatures"
			}
		}
	}
	R.Check(prefix+".accept-guards", key("accept-guards")+"/range", pos, "the loop ranges over every element of v.Signatures exactly once", I != nil && elem != nil && boundOK, "loop index/element/bound not recognised as `range v.Signatures`")
	if I == nil || elem == nil {
		return
	}
	isSigIndex := func(x ssa.Value) bool {
		b, f := fieldLoad(strip(x))
		return f != nil && f.Name() == "Index" && b == elem
	}
	// digest = v.SigningMsg()
	digestOK := false
	if bc := asCall(rec.Call.Args[0], "(geth/common.Hash).Bytes"); bc != nil {
		if smc, ok := resolveSpill(bc.Call.Args[0]).(*ssa.Call); ok && smc.Call.StaticCallee() == sm && smc.Call.Args[0] == v {
			digestOK = true
		}
	}
	sigBytesOK := false
	if sl, ok := rec.Call.Args[1].(*ssa.Slice); ok {
		if fa, ok := sl.X.(*ssa.FieldAddr); ok && fa.X == elem && fieldOfAddr(fa).Name() == "Signature" {
			sigBytesOK = true
		}
	}
	recAddrTerm := "geth/common.BytesToAddress(geth/crypto.Keccak256([" + facts.Term(rec) + "#0[1:]])[12:])"
	isRecAddr := func(x ssa.Value) bool {
		cl := asCall(x, "geth/common.BytesToAddress")
		if cl == nil {
			return false
		}
		// BytesToAddress(Keccak256(pk[1:])[12:]) with pk = rec#0 — identify through the extract
		ok := false
		var walk func(y ssa.Value, d int)
		walk = func(y ssa.Value, d int) {
			if d > 8 || y == nil {
				return
			}
			if ex, isEx := y.(*ssa.Extract); isEx && ex.Tuple == rec && ex.Index == 0 {
				ok = true
				return
			}
			if ins, isI := y.(ssa.Instruction); isI {
				var ops []*ssa.Value
				for _, o := range ins.Operands(ops) {
					if o != nil && *o != nil {
						walk(*o, d+1)
					}
				}
			}
			// variadic array
			if sl, isS := y.(*ssa.Slice); isS {
				if el := singleVararg(sl); el != nil {
					walk(el, d+1)
				}
			}
		}
		walk(cl.Call.Args[0], 0)
		return ok && strings.HasPrefix(facts.Term(x), "geth/common.BytesToAddress(geth/crypto.Keccak256([")
	}
	_ = recAddrTerm
	isAddrAtIndex := func(x ssa.Value) bool {
		u, ok := strip(x).(*ssa.UnOp)
		if !ok || u.Op != token.MUL {
			return false
		}
		ia, ok := u.X.(*ssa.IndexAddr)
		return ok && ia.X == addresses && isSigIndex(ia.Index)
	}
	// last_index phi
	isLast := func(x ssa.Value) bool {
		ph, ok := strip(x).(*ssa.Phi)
		if !ok || ph.Block() != outer.Header {
			return false
		}
		for _, e := range ph.Edges {
			if k, isK := constInt(e); isK {
				if k >= 0 {
					return false
				}
				continue
			}
			if !isSigIndex(e) {
				return false
			}
		}
		return true
	}
	it := outer.IterationFacts(nil)
	reqs := []req{
		{Name: "int(sig.Index) < len(addresses)", Exact: func(f facts.Fact) bool {
			x, op, y, ok := cmpOf(f)
			return ok && op == token.LSS && isSigIndex(x) && lenOf(y) == addresses
		}},
		{Name: "sig.Index > last_index (last_index starts below 0 and is set from sig.Index each iteration)", Exact: func(f facts.Fact) bool {
			x, op, y, ok := cmpOf(f)
			return ok && op == token.LSS && isLast(x) && isSigIndex(y)
		}},
		{Name: "Ecrecover(v.SigningMsg(), sig.Signature[:]) succeeded", Exact: func(f facts.Fact) bool {
			x, op, y, ok := cmpOf(f)
			if !ok || op != token.EQL || !digestOK || !sigBytesOK {
				return false
			}
			for _, pr := range [][2]ssa.Value{{x, y}, {y, x}} {
				if ex, isEx := pr[0].(*ssa.Extract); isEx && ex.Tuple == rec && ex.Index == 1 && isNilConst(pr[1]) {
					return true
				}
			}
			return false
		}},
		{Name: "recovered address == addresses[sig.Index]", Exact: func(f facts.Fact) bool {
			x, op, y, ok := cmpOf(f)
			if !ok || op != token.EQL {
				return false
			}
			return isRecAddr(x) && isAddrAtIndex(y) || isRecAddr(y) && isAddrAtIndex(x)
		}},
	}
	fkey := R.Key(prefix+".accept-guards", "VerifySignatures", "iteration:"+tag)
	miss := missing(it, reqs)
	R.Check(prefix+".accept-guards", fkey, c.rel(p.Pos(rec.Pos())), "every completed loop iteration passed all four acceptance guards for the current signature", len(miss) == 0, "missing: "+strings.Join(miss, "; "), facts.Atoms(it)...)
	R.Sample(map[string]any{"VerifySignatures_" + tag + "_iteration_facts": facts.Atoms(it)})
	// return true only via the loop exit edge, and it is the only accepting return
	nTrue := 0
	// exits: a return of a boolean constant, or — when the checks live in an error-returning helper
	// and the function ends in `return err == nil` — one exit per way the error gets its value
	// (nil: accepting; a value that can never be nil: rejecting), judged with the facts of that way
	type vexit struct {
		instr ssa.Instruction
		blk   *ssa.BasicBlock
		isC   bool
		val   string
		fs    []facts.Fact
	}
	var exits []vexit
	eachInstr(fn, func(i ssa.Instruction) {
		r, ok := i.(*ssa.Return)
		if !ok || len(r.Results) != 1 {
			return
		}
		if cst, isC := r.Results[0].(*ssa.Const); isC && cst.Value != nil {
			exits = append(exits, vexit{r, r.Block(), true, cst.Value.ExactString(), acceptFacts(r)})
			return
		}
		if bo, isBin := r.Results[0].(*ssa.BinOp); isBin && bo.Op == token.EQL {
			var ph *ssa.Phi
			if isNilConst(bo.Y) {
				ph, _ = bo.X.(*ssa.Phi)
			} else if isNilConst(bo.X) {
				ph, _ = bo.Y.(*ssa.Phi)
			}
			if ph != nil && isErrorType(ph.Type()) {
				split := true
				var vs []vexit
				for k, e := range ph.Edges {
					pred := ph.Block().Preds[k]
					ei := 0
					for q, sc := range pred.Succs {
						if sc == ph.Block() {
							ei = q
						}
					}
					efs := facts.AtEdge(pred, ei, nil)
					switch {
					case isNilConst(e):
						vs = append(vs, vexit{r, pred, true, "true", efs})
					case facts.IntrinsicNonNil(e):
						vs = append(vs, vexit{r, pred, true, "false", efs})
					default:
						split = false
					}
				}
				if split && len(vs) > 0 {
					exits = append(exits, vs...)
					return
				}
			}
		}
		exits = append(exits, vexit{r, r.Block(), false, "", acceptFacts(r)})
	})
	for _, ex := range exits {
		r, isC := ex.instr, ex.isC
		rblk := ex.blk
		if isC && ex.val == "false" {
			// classify
			fs := ex.fs
			classOf := func(f facts.Fact) string {
				x, op, y, ok := cmpOf(f)
				if !ok {
					// `seen` of a comma-ok lookup of the recovered address in the set of accepted signers
					if ex, isEx := f.Cond.(*ssa.Extract); isEx && f.Pol && ex.Index == 1 {
						if lk, isLk := ex.Tuple.(*ssa.Lookup); isLk && lk.CommaOk && isRecAddr(lk.Index) {
							return "duplicate-signer"
						}
					}
					return ""
				}
				switch {
				case op == token.LSS && lenOf(x) == addresses && lenOf(y) != nil:
					if b, fl := fieldLoad(lenOf(y)); b == v && fl != nil && fl.Name() == "Signatures" {
						return "count-exceeds-list"
					}
				case op == token.LEQ && lenOf(x) == addresses && isSigIndex(y):
					return "index-out-of-range"
				case op == token.LEQ && isSigIndex(x) && isLast(y):
					return "non-increasing-index"
				case op == token.NEQ && (isNilConst(y) || isNilConst(x)):
					for _, e := range []ssa.Value{x, y} {
						if ex, isEx := e.(*ssa.Extract); isEx && ex.Tuple == rec && ex.Index == 1 {
							return "recover-failed"
						}
					}
				case op == token.NEQ && (isRecAddr(x) && isAddrAtIndex(y) || isRecAddr(y) && isAddrAtIndex(x)):
					return "address-mismatch"
				case op == token.EQL && (isRecAddr(x) || isRecAddr(y)) && !(isAddrAtIndex(x) || isAddrAtIndex(y)):
					return "duplicate-signer"
				}
				return ""
			}
			class := ""
			for _, f := range fs {
				if cl := classOf(f); cl != "" && (class == "" || cl != "duplicate-signer") {
					class = cl
				}
			}
			if class == "" {
				// several causes may share one `return false` (`if a || b { return false }`): then
				// every path to it passes a branch edge that is one of the causes
				var es []facts.Edge
				var cls []string
				for _, b := range fn.Blocks {
					if len(b.Succs) != 2 || len(b.Instrs) == 0 {
						continue
					}
					iff, isIf := b.Instrs[len(b.Instrs)-1].(*ssa.If)
					if !isIf {
						continue
					}
					for k := 0; k < 2; k++ {
						if cl := classOf(facts.Fact{Cond: iff.Cond, Pol: k == 0, Atom: facts.Atom(iff.Cond, k == 0)}); cl != "" {
							es = append(es, facts.Edge{B: b.Index, K: k})
							cls = append(cls, cl)
						}
					}
				}
				if len(es) > 0 && facts.PassesAny(rblk, nil, es...) {
					class = "one of the recognised causes on every path"
				}
			}
			R.Check(prefix+".reject-set", R.Key(prefix+".reject-set", "VerifySignatures", "return-false:"+tag), c.rel(p.Pos(instrPos(r))), "rejection is one of the six causes implied by the property (class: "+class+")", class != "", "undecided: unclassified rejection", facts.Atoms(fs)...)
			continue
		}
		nTrue++
		// exit edge of the header
		var exit []facts.Edge
		body := outer.Body()
		for k, s := range outer.Header.Succs {
			if !body[s] {
				exit = append(exit, facts.Edge{B: outer.Header.Index, K: k})
			}
		}
		okExit := len(exit) == 1 && facts.PassesAny(rblk, nil, exit...) && isC && ex.val == "true"
		// and no other edge leaves the loop towards it (break): every non-header exit of the body must not reach r
		for b := range body {
			if b == outer.Header {
				continue
			}
			for k, s := range b.Succs {
				if !body[s] {
					// an exit from inside the body: cut the header exit and see whether r is still reachable through it
					cuts := facts.Cuts{}
					for _, e := range exit {
						cuts[e] = true
					}
					_ = k
					if facts.Reachable(rblk, cuts) {
						okExit = false
					}
				}
			}
		}
		R.Check(prefix+".accept-guards", R.Key(prefix+".accept-guards", "VerifySignatures", "return-true:"+tag), c.rel(p.Pos(instrPos(r))), "acceptance is reachable only through the loop's normal exit (all signatures examined)", okExit, "an accepting return bypasses the loop exit")
	}
	R.Check(prefix+".accept-guards", key("accept-guards")+"/single-accept", pos, "exactly one accepting return", nTrue == 1, fmt.Sprintf("%d accepting returns", nTrue))
	// distinct signers: needed for guardian lists that repeat an address
	c06distinct(c, p, fn, outer, prefix, tag, isRecAddr)
	// no-panic: index/slice obligations
	c06noPanic(c, p, fn, prefix, tag, addresses, rec, isSigIndex)
}

// c06distinct: no guardian is counted twice even when the address list repeats an address. Accepted idiom:
// an accumulator slice that receives the recovered address in every completed iteration, scanned by an
// inner range loop that returns false on equality before the append.
func c06distinct(c *Ctx, p *load.Program, fn *ssa.Function, outer *facts.Loop, prefix, tag string, isRecAddr func(ssa.Value) bool) {
	R := c.R
	key := R.Key(prefix+".accept-guards", "VerifySignatures", "distinct-signers:"+tag)
	pos := c.rel(p.Pos(fn.Pos()))
	// accumulator: a phi in the outer header whose web contains append(acc, [recovered address])
	var acc *ssa.Phi
	var app *ssa.Call
	for _, ins := range outer.Header.Instrs {
		ph, ok := ins.(*ssa.Phi)
		if !ok {
			continue
		}
		for _, leaf := range phiLeaves(ph) {
			if ap := asCall(leaf, "append"); ap != nil && inPhiWeb(ph, ap.Call.Args[0]) {
				if el := singleVararg(ap.Call.Args[1]); el != nil && isRecAddr(el) {
					acc, app = ph, ap
				}
			}
		}
	}
	if acc == nil {
		// the same with a set: seen[addr] is tested (comma-ok) before addr is accepted, and
		// seen[addr] = … is executed in every completed iteration
		var mu *ssa.MapUpdate
		eachInstr(fn, func(i ssa.Instruction) {
			if m, ok := i.(*ssa.MapUpdate); ok && outer.Body()[m.Block()] && isRecAddr(m.Key) {
				mu = m
			}
		})
		if mu != nil {
			notSeen := false
			for _, f := range facts.At(mu, nil) {
				if ex, isEx := f.Cond.(*ssa.Extract); isEx && !f.Pol && ex.Index == 1 {
					if lk, isLk := ex.Tuple.(*ssa.Lookup); isLk && lk.CommaOk && lk.X == mu.Map && isRecAddr(lk.Index) {
						notSeen = true
					}
				}
			}
			every := true
			cuts := facts.Cuts{}
			for _, lt := range outer.Latches {
				for k, sc := range lt.Succs {
					if sc == outer.Header {
						cuts[facts.Edge{B: lt.Index, K: k}] = true
					}
				}
			}
			for _, lt := range outer.Latches {
				if !facts.BeforeFrom(outer.Header, lt.Instrs[len(lt.Instrs)-1], cuts, func(i ssa.Instruction) bool { return i == ssa.Instruction(mu) }) {
					every = false
				}
			}
			R.Check(prefix+".accept-guards", key, pos, "every accepted signer address is recorded in a set and looked up in it before the next is accepted (no guardian counted twice, also for lists with repeated addresses)", notSeen && every,
				fmt.Sprintf("recorded in every iteration=%v; recorded only under the fact `not seen before`=%v", every, notSeen))
			return
		}
		R.Fail(prefix+".accept-guards", key, pos, "no guardian is counted twice (lists with repeated addresses)", "no accumulator of accepted signer addresses found: with a guardian list that contains the same address at two positions, the same key can sign at both and be counted twice")
		return
	}
	// the append happens in every completed iteration
	body := outer.Body()
	everyIter := true
	for _, lt := range outer.Latches {
		cuts := facts.Cuts{}
		// remove the append's block: latch must become unreachable from the header within the loop
		reach := map[*ssa.BasicBlock]bool{}
		st := []*ssa.BasicBlock{outer.Header}
		for len(st) > 0 {
			b := st[len(st)-1]
			st = st[:len(st)-1]
			if reach[b] || b == app.Block() || !body[b] {
				continue
			}
			reach[b] = true
			for _, s := range b.Succs {
				if s != outer.Header {
					st = append(st, s)
				}
			}
		}
		_ = cuts
		if reach[lt] {
			everyIter = false
		}
	}
	// inner scan: a loop inside the outer body ranging over the accumulator, whose every completed iteration has elem != addr
	scanOK := false
	for _, l := range facts.LoopsOf(fn) {
		if l.Header == outer.Header || !body[l.Header] {
			continue
		}
		// range bound is len(acc-web)
		iff, ok := l.Header.Instrs[len(l.Header.Instrs)-1].(*ssa.If)
		if !ok {
			continue
		}
		bo, ok := iff.Cond.(*ssa.BinOp)
		if !ok || lenOf(bo.Y) == nil || !inPhiWeb(acc, lenOf(bo.Y)) && lenOf(bo.Y) != ssa.Value(acc) {
			continue
		}
		for _, f := range l.IterationFacts(nil) {
			x, op, y, ok := cmpOf(f)
			if ok && op == token.NEQ && (isRecAddr(x) || isRecAddr(y)) {
				scanOK = true
			}
		}
		// the append is reachable only through the scan loop's exit
		var exit []facts.Edge
		ib := l.Body()
		for k, s := range l.Header.Succs {
			if !ib[s] {
				exit = append(exit, facts.Edge{B: l.Header.Index, K: k})
			}
		}
		if scanOK && !(len(exit) == 1 && facts.PassesAny(app.Block(), nil, exit...)) {
			scanOK = false
		}
	}
	R.Check(prefix+".accept-guards", key, pos, "every accepted signer address is recorded and compared with all previously accepted ones before the next is accepted (no guardian counted twice, also for lists with repeated addresses)", everyIter && scanOK,
		fmt.Sprintf("recorded in every iteration=%v; full scan of earlier signers before recording=%v", everyIter, scanOK))
}

func c06noPanic(c *Ctx, p *load.Program, fn *ssa.Function, prefix, tag string, addresses ssa.Value, rec *ssa.Call, isSigIndex func(ssa.Value) bool) {
	R := c.R
	n := 0
	eachInstr(fn, func(i ssa.Instruction) {
		switch x := i.(type) {
		case *ssa.IndexAddr:
			n++
			why, ok := "", false
			switch {
			case isRangeIndex(x.Index):
				ok, why = true, "range index of the ranged slice"
			case isArrayPtr(x.X):
				ok, why = true, "constant index into a fixed array"
			case x.X == addresses && isSigIndex(x.Index):
				for _, f := range facts.At(x, nil) {
					a, op, b, okc := cmpOf(f)
					if okc && op == token.LSS && isSigIndex(a) && lenOf(b) == addresses {
						ok, why = true, "dominated by int(sig.Index) < len(addresses)"
					}
				}
			}
			R.Check(prefix+".no-panic", R.Key(prefix+".no-panic", "VerifySignatures", "index:"+tag), c.rel(p.Pos(x.Pos())), "index expression "+facts.Term(x)+" cannot be out of range", ok, "no bound established; "+why)
		case *ssa.Slice:
			n++
			ok, why := false, ""
			t := facts.Term(x)
			switch {
			case isArrayPtr(x.X) && x.Low == nil && x.High == nil:
				ok, why = true, "full slice of a fixed array"
			case x.High == nil && x.Low != nil:
				lo, _ := constInt(x.Low)
				if ex, isEx := x.X.(*ssa.Extract); isEx && ex.Tuple == rec && lo <= 65 {
					ok, why = true, "public key of a successful Ecrecover is 65 bytes"
				}
				if cl := asCall(x.X, "geth/crypto.Keccak256"); cl != nil && lo <= 32 {
					ok, why = true, "Keccak256 output is 32 bytes"
				}
			}
			if ok && strings.Contains(t, "Ecrecover") && x.Low != nil {
				// must be on the success path
				okFact := false
				for _, f := range facts.At(x, nil) {
					a, op, b, okc := cmpOf(f)
					if !okc || op != token.EQL {
						continue
					}
					for _, pr := range [][2]ssa.Value{{a, b}, {b, a}} {
						if ex, isEx := pr[0].(*ssa.Extract); isEx && ex.Tuple == rec && ex.Index == 1 && isNilConst(pr[1]) {
							okFact = true
						}
					}
				}
				if ex, isEx := x.X.(*ssa.Extract); isEx && ex.Tuple == rec && !okFact {
					ok, why = false, "public key sliced without testing the Ecrecover error"
				}
			}
			R.Check(prefix+".no-panic", R.Key(prefix+".no-panic", "VerifySignatures", "slice:"+tag), c.rel(p.Pos(x.Pos())), "slice expression "+t+" cannot be out of range", ok, "no bound established; "+why)
		}
	})
	R.Floor(prefix+".no-panic."+tag, n, 5)
}

func isRangeIndex(v ssa.Value) bool {
	if _, ok := facts.CountedLoopIndex(v); ok {
		return true // `for i := 0; i < len(x); i++`
	}
	b, ok := v.(*ssa.BinOp)
	if !ok || b.Op != token.ADD {
		return false
	}
	ph, ok := b.X.(*ssa.Phi)
	return ok && ph.Comment == "rangeindex"
}

func isArrayPtr(v ssa.Value) bool {
	t := v.Type().Underlying()
	if pt, ok := t.(*pointerT); ok {
		_, isArr := pt.Elem().Underlying().(*arrayT)
		return isArr
	}
	return false
}
