package rules

import (
	"fmt"
	"go/constant"
	"go/token"
	"go/types"
	"regexp"
	"strings"

	"golang.org/x/tools/go/ssa"

	"wvsa/internal/facts"
	"wvsa/internal/load"
)

const pkgAlph = N + "alephium"

func init() {
	register("C08", "Static rules on pkg/alephium SSA (type-checked from source; the package cannot be compiled in the sandbox): every send on Watcher.msgChan is a discovered sink and must carry the sender==tokenBridge fact; finality facts are attached by allocation-site provenance — every allocation of ConfirmedEvent / reobservedEvent / UnconfirmedEvent in the module must carry the guard facts (isEventConfirmed true and main-chain answer obtained in the same loop iteration; event index, contract address and block hash filters; attestation validated or not an attestation), and the sinks only forward values of those types taken from their input. Return summaries of isEventConfirmed / getConfirmationDuration give the height and wall-clock floors (205 = MinimalConsistencyLevel). The re-observation append requires tx confirmed, main-chain, height floor and the same wall-clock rule. Cursor monotonicity and single disposition of pending events are shape checks.", c08)
}

// edgesWhere lists the CFG edges of fn on which an atom satisfying pred is established.
func edgesWhere(fn *ssa.Function, pred func(atom string) bool) ([]facts.Edge, []string) {
	var es []facts.Edge
	var ds []string
	for _, b := range fn.Blocks {
		if len(b.Instrs) == 0 || len(b.Succs) != 2 {
			continue
		}
		iff, ok := b.Instrs[len(b.Instrs)-1].(*ssa.If)
		if !ok {
			continue
		}
		for k, pol := range []bool{true, false} {
			a := facts.Atom(iff.Cond, pol)
			if pred(a) {
				es = append(es, facts.Edge{B: b.Index, K: k})
				ds = append(ds, a)
			}
		}
	}
	return es, ds
}

// allocsOf lists allocation sites (composite literals / new) of the named struct type in root packages.
func allocsOf(p *load.Program, t *types.Named) []site {
	var out []site
	for _, f := range p.SrcFuncs("") {
		eachInstr(f, func(i ssa.Instruction) {
			if al, ok := i.(*ssa.Alloc); ok {
				if pt, ok := al.Type().(*types.Pointer); ok && types.Identical(pt.Elem(), t) {
					out = append(out, site{f, i})
				}
			}
		})
	}
	return out
}

type alphAnchors struct {
	p                                                              *load.Program
	msgChan, tokenBridge, govAddr, isMainnet                       *types.Var
	fetchEvents, handleUnconfirmed, toUnconfirmed, handleEvents_   *ssa.Function
	handleEvents, handleConfirmed, isEventConfirmed, getConfDur    *ssa.Function
	validateAttest, handleObsv, handleGov, getGovEvents, toWormMsg *ssa.Function
}

func (c *Ctx) alph() *alphAnchors {
	p := c.Node()
	a := &alphAnchors{p: p}
	a.msgChan = must(p.FieldOf(pkgAlph, "Watcher", "msgChan"), "alephium.Watcher.msgChan")
	a.tokenBridge = must(p.FieldOf(pkgAlph, "Watcher", "tokenBridgeContractId"), "Watcher.tokenBridgeContractId")
	a.govAddr = must(p.FieldOf(pkgAlph, "Watcher", "governanceContractAddress"), "Watcher.governanceContractAddress")
	a.isMainnet = must(p.FieldOf(pkgAlph, "Watcher", "isMainnet"), "Watcher.isMainnet")
	m := func(n string) *ssa.Function { return must(p.Method(pkgAlph, "Watcher", n), "alephium.(*Watcher)."+n) }
	a.fetchEvents, a.handleUnconfirmed, a.toUnconfirmed = m("fetchEvents"), m("handleUnconfirmedEvents"), m("toUnconfirmedEvent")
	a.handleEvents_, a.handleEvents, a.handleConfirmed = m("handleEvents_"), m("handleEvents"), m("handleConfirmedEvents")
	a.validateAttest, a.handleObsv, a.handleGov, a.getGovEvents = m("validateAttestToken"), m("handleObsvRequest"), m("handleGovernanceMessages"), m("getGovernanceEventsByTxId")
	a.isEventConfirmed = must(p.Func(pkgAlph, "isEventConfirmed"), "alephium.isEventConfirmed")
	a.getConfDur = must(p.Func(pkgAlph, "getConfirmationDuration"), "alephium.getConfirmationDuration")
	a.toWormMsg = must(p.Func(pkgAlph, "ToWormholeMessage"), "alephium.ToWormholeMessage")
	c.R.Count("functions_in_package_alephium", len(p.SrcFuncs(pkgAlph)))
	return a
}

func c08(c *Ctx) {
	a := c.alph()
	p, R := a.p, c.R
	loopVarRule(c, p, "C08.loopvar", pkgAlph)
	R.Trust("go/types + go/ssa", "the Alephium full node answers honestly (events, headers, main-chain membership, heights)", "Go channel semantics")
	R.Assumption("races between two consecutive node API calls are inherent to polling and not decided", "sdk.ContractEventByTxId.BlockHash/ContractAddress identify the block and contract that emitted the event")

	// ---- C08.sender: every send on msgChan ---------------------------------------------------
	n := 0
	for _, sd := range allSends(p, pkgAlph) {
		if loadedField(sd.Chan) != a.msgChan {
			continue
		}
		n++
		construct := "send:msgChan"
		key := R.Key("C08.sender", shortFn(sd.Fn), construct)
		pos := c.rel(p.Pos(sd.Instr.Pos()))
		tm := asCall(sd.X, "(*N/alephium.WormholeMessage).toMessagePublication")
		if tm == nil {
			R.Fail("C08.sender", key, pos, "message handed to the signing pipeline", "undecided: sent value is not <msg>.toMessagePublication(<header>): "+facts.Term(sd.X))
			continue
		}
		msg := facts.Term(tm.Call.Args[0])
		fs := facts.At(sd.Instr, nil)
		want := "(N/alephium.Byte32).equalWith(" + msg + ".senderId,w.tokenBridgeContractId)"
		// (byte equality is symmetric — C08.sender/Byte32.equalWith checks the body)
		wantSym := "(N/alephium.Byte32).equalWith(w.tokenBridgeContractId," + msg + ".senderId)"
		R.Check("C08.sender", key, pos, "send on msgChan in "+shortFn(sd.Fn)+" requires msg.senderId == configured token bridge id for the message being sent", facts.HasAtom(fs, want) || facts.HasAtom(fs, wantSym), "missing fact "+want, facts.Atoms(fs)...)
		// the sink forwards only elements of its parameter, header of the same element
		hdr := facts.Term(tm.Call.Args[1])
		top := sd.Fn
		okElem := false
		switch top {
		case a.handleConfirmed:
			okElem = msg == "confirmed[(phi:rangeindex + 1)].event.msg" && hdr == "confirmed[(phi:rangeindex + 1)].header"
		case a.handleGov:
			okElem = strings.HasPrefix(msg, fname(a.toWormMsg)+"(confirmed[(phi:rangeindex + 1)].ContractEventByTxId.Fields,") && strings.HasSuffix(msg, "#0") && hdr == "confirmed[(phi:rangeindex + 1)].header"
			if !okElem && msg == "confirmed[(phi:rangeindex + 1)].msg" && hdr == "confirmed[(phi:rangeindex + 1)].header" {
				// the message parsed when the element was collected: every reobservedEvent is
				// built with msg = ToWormholeMessage(<its own event>.Fields, …)
				okElem = c08reobsMsgIsOwn(p, a)
			}
		}
		R.Check("C08.sender", R.Key("C08.sender", shortFn(sd.Fn), construct+":element"), pos, "the sink forwards the message and header of one element of its input list (provenance carried by the element type)", okElem, "msg="+msg+" header="+hdr)
		R.Sample(map[string]any{"sink": "msgChan <- " + facts.Term(sd.X), "in": fname(sd.Fn), "facts": facts.Atoms(fs)})
	}
	R.Floor("C08.sender", n, 2)
	// equalWith is byte equality
	eq := must(p.Method(pkgAlph, "Byte32", "equalWith"), "Byte32.equalWith")
	okEq := false
	eachInstr(eq, func(i ssa.Instruction) {
		if r, ok := i.(*ssa.Return); ok && len(r.Results) == 1 {
			t := facts.Term(r.Results[0])
			okEq = t == "bytes.Equal(local:b[:],local:v[:])" || t == "bytes.Equal(b[:],v[:])" || t == "b == v" || t == "(b == v)"
		}
	})
	R.Check("C08.sender", "C08.sender/Byte32.equalWith", c.rel(p.Pos(eq.Pos())), "Byte32.equalWith is byte-for-byte equality of both operands", okEq, "unexpected body")

	c08pollFinal(c, a)
	c08core(c, a)
	c08attest(c, a)
	c08reobs(c, a)
	c08once(c, a)
}

func c08pollFinal(c *Ctx, a *alphAnchors) {
	p, R := a.p, c.R
	ceT := must(p.Named(pkgAlph, "ConfirmedEvent"), "alephium.ConfirmedEvent")
	sites := allocsOf(p, ceT)
	R.Floor("C08.poll-final", len(sites), 1)
	for _, s := range sites {
		al := s.Instr.(*ssa.Alloc)
		key := R.Key("C08.poll-final", shortFn(s.Fn), "alloc:ConfirmedEvent")
		pos := c.sitePos(p, s)
		vals, _ := allocStores(al)
		ev, hdr := termOrNil(vals["event"]), termOrNil(vals["header"])
		fs := facts.At(al, nil)
		// the pending set: the map[string]*UnconfirmedEventsPerBlock whose range loop encloses the
		// allocation (a captured variable of the process closure, or a local/parameter when that
		// code lives elsewhere)
		pendT := "pendingEvents"
		for _, l := range facts.LoopsOf(s.Fn) {
			if !l.Body()[al.Block()] {
				continue
			}
			for _, ins := range l.Header.Instrs {
				if nx, ok := ins.(*ssa.Next); ok {
					if rg, ok := nx.Iter.(*ssa.Range); ok {
						if mt, ok := rg.X.Type().Underlying().(*types.Map); ok && strings.HasSuffix(mt.Elem().String(), "UnconfirmedEventsPerBlock") {
							pendT = facts.Term(rg.X)
						}
					}
				}
			}
		}
		var conf *ssa.Call
		for _, f := range fs {
			if f.Pol {
				if cl := asCall(f.Cond, fname(a.isEventConfirmed)); cl != nil {
					conf = cl
				}
			}
		}
		if conf == nil {
			R.Fail("C08.poll-final", key, pos, "ConfirmedEvent allocation", "no must-hold fact isEventConfirmed(...) == true at the allocation", facts.Atoms(fs)...)
			continue
		}
		args := conf.Call.Args
		var bad []string
		if facts.Term(args[1]) != ev {
			bad = append(bad, "confirmed event "+ev+" is not the one tested "+facts.Term(args[1]))
		}
		if facts.Term(args[2]) != hdr {
			bad = append(bad, "stored header "+hdr+" is not the one tested "+facts.Term(args[2]))
		}
		if facts.Term(args[3]) != "(time.Time).UnixMilli(time.Now())" {
			bad = append(bad, "current time argument is "+facts.Term(args[3]))
		}
		if _, fl := fieldLoad(args[5]); fl != a.isMainnet {
			bad = append(bad, "mainnet flag argument is "+facts.Term(args[5]))
		}
		// height argument is the closure's parameter (the value received from heightC)
		if _, isParam := args[4].(*ssa.Parameter); !isParam && !c08fromHeightC(args[4]) {
			bad = append(bad, "height argument is "+facts.Term(args[4]))
		}
		// header belongs to the block whose hash keys the pending entry, main-chain answer for that key, same iteration
		canon := false
		var canonCall *ssa.Call
		for _, f := range fs {
			if !f.Pol {
				continue
			}
			if u, ok := f.Cond.(*ssa.UnOp); ok && u.Op == token.MUL {
				if ex, ok := u.X.(*ssa.Extract); ok && ex.Index == 0 {
					if cl, ok := ex.Tuple.(*ssa.Call); ok && strings.HasPrefix(facts.Term(cl), "dyn:isBlockInMainChain(next(range("+pendT+"))#1)") {
						canon, canonCall = true, cl
					}
				}
			}
		}
		if !canon {
			bad = append(bad, "no must-hold fact *isBlockInMainChain(<block hash of this pending entry>) == true")
		} else {
			// fresh per pass: the call sits inside the loop over pendingEvents
			inLoop := false
			for _, l := range facts.LoopsOf(s.Fn) {
				if l.Body()[canonCall.Block()] && l.Body()[al.Block()] {
					inLoop = true
				}
			}
			if !inLoop {
				bad = append(bad, "main-chain answer is not obtained inside the per-block loop (stale answer)")
			}
		}
		if hdr != "next(range("+pendT+"))#2.header" || !strings.HasPrefix(ev, "next(range("+pendT+"))#2.events[") {
			bad = append(bad, "event/header are not those of the pending entry being iterated: "+ev+" / "+hdr)
		}
		R.Check("C08.poll-final", key, pos, "a ConfirmedEvent is created only for an event of the iterated pending block with isEventConfirmed(event, block header, now, height, isMainnet) and a main-chain answer for that block obtained in the same pass", len(bad) == 0, strings.Join(bad, "; "), facts.Atoms(fs)...)
	}
	// header of a pending entry is GetBlockHeader(<its key>) — the only store to UnconfirmedEventsPerBlock.header
	hdrF := must(p.FieldOf(pkgAlph, "UnconfirmedEventsPerBlock", "header"), "UnconfirmedEventsPerBlock.header")
	nh := 0
	for _, s := range storesToField(p, hdrF) {
		st := s.Instr.(*ssa.Store)
		if isFreshAlloc(st.Addr) {
			continue
		}
		nh++
		okh := false
		if m := regexp.MustCompile(`^next\(range\((.+)\)\)#2\.header$`).FindStringSubmatch(facts.Term(st.Addr)); m != nil {
			okh = facts.Term(st.Val) == "dyn:getBlockHeader(next(range("+m[1]+"))#1)#0"
		}
		R.Check("C08.poll-final", R.Key("C08.poll-final", shortFn(s.Fn), "store:header"), c.sitePos(p, s), "a pending block's header is the header fetched for that block's hash", okh, facts.Term(st.Addr)+" = "+facts.Term(st.Val))
	}
	R.Floor("C08.poll-final.header", nh, 1)
	// bindings of the function-typed parameters of handleEvents_
	for _, s := range callsTo(p, a.handleEvents_) {
		args := s.Instr.(ssa.CallInstruction).Common().Args
		bind := func(v ssa.Value) string {
			if mc, ok := v.(*ssa.MakeClosure); ok {
				fn := mc.Fn.(*ssa.Function)
				res := ""
				eachInstr(fn, func(i ssa.Instruction) {
					if r, ok := i.(*ssa.Return); ok && len(r.Results) > 0 {
						if ex, ok := r.Results[0].(*ssa.Extract); ok {
							res = facts.Term(ex.Tuple)
						}
					}
				})
				if fn.Synthetic != "" {
					return "bound:" + fn.Name()
				}
				return res
			}
			return facts.Term(v)
		}
		okb := s.Fn == a.handleEvents &&
			bind(args[3]) == "(*N/alephium.Client).IsBlockInMainChain(client,ctx,hash)" &&
			bind(args[4]) == "(*N/alephium.Client).GetBlockHeader(client,ctx,hash)" &&
			strings.Contains(bind(args[5]), "handleConfirmedEvents")
		R.Check("C08.poll-final", R.Key("C08.poll-final", shortFn(s.Fn), "bindings:handleEvents_"), c.sitePos(p, s), "handleEvents_ is wired to the node client's IsBlockInMainChain / GetBlockHeader and to handleConfirmedEvents", okb,
			fmt.Sprintf("isBlockInMainChain=%s getBlockHeader=%s handler=%s", bind(args[3]), bind(args[4]), bind(args[5])))
	}
	// return summary of isEventConfirmed
	for _, name := range []string{"summary"} {
		_ = name
		fn := a.isEventConfirmed
		nTrue := 0
		eachInstr(fn, func(i ssa.Instruction) {
			r, ok := i.(*ssa.Return)
			if !ok {
				return
			}
			if isFalseConst(r.Results[0]) {
				return
			}
			nTrue++
			fs := acceptFacts(r)
			h := "(eventBlockHeader.Height + event.msg.consistencyLevel) <= currentHeight"
			t := "(eventBlockHeader.Timestamp + " + fname(a.getConfDur) + "(isMainnet,(*N/alephium.WormholeMessage).IsTransferTokenVAA(event.msg),event.msg.consistencyLevel)) <= currentTs"
			c.checkFacts(p, "C08.poll-final", fn, "return:true", r, fs, []req{
				{Name: "block height + consistency level <= current height", Pred: func(at string) bool { return at == h }},
				{Name: "block timestamp + confirmation duration <= now", Pred: func(at string) bool { return at == t }},
			})
		})
		R.Check("C08.poll-final", "C08.poll-final/isEventConfirmed/single-accept", c.rel(p.Pos(fn.Pos())), "isEventConfirmed has exactly one `true` return", nTrue == 1, fmt.Sprintf("%d", nTrue))
	}
	// getConfirmationDuration
	minC := must(p.ByPath[pkgAlph].Types.Scope().Lookup("MinimalConsistencyLevel"), "MinimalConsistencyLevel").(*types.Const)
	bt := must(p.ByPath[pkgAlph].Types.Scope().Lookup("BlockTimeMs"), "BlockTimeMs").(*types.Const)
	minV, _ := constant.Int64Val(minC.Val())
	btV, _ := constant.Int64Val(bt.Val())
	R.Check("C08.poll-final", "C08.poll-final/MinimalConsistencyLevel", "", "MinimalConsistencyLevel is the property's 205 and the block interval constant is positive", minV == 205 && btV > 0, fmt.Sprintf("MinimalConsistencyLevel=%d BlockTimeMs=%d", minV, btV))
	nret := 0
	// every way the duration can be produced: a return of `L * BlockTimeMs` where L is the level,
	// the floored level, or a variable (phi) that is one of the two depending on the branch taken
	type alt struct {
		val  ssa.Value
		blk  *ssa.BasicBlock // block the alternative comes from
		edge int             // successor index of blk leading to the merge (-1: the return's own block)
		pos  ssa.Instruction
	}
	var alts []alt
	bad := ""
	eachInstr(a.getConfDur, func(i ssa.Instruction) {
		r, ok := i.(*ssa.Return)
		if !ok {
			return
		}
		mul, ok := strip(r.Results[0]).(*ssa.BinOp)
		if !ok || mul.Op != token.MUL {
			bad = "returns " + facts.Term(r.Results[0])
			return
		}
		L, K := mul.X, mul.Y
		if _, isK := constInt(L); isK {
			L, K = K, L
		}
		if k, isK := constInt(K); !isK || k != btV {
			bad = "returns " + facts.Term(r.Results[0])
			return
		}
		L = strip(L)
		if cv, isCv := L.(*ssa.Convert); isCv {
			L = strip(cv.X)
		}
		if ph, isPhi := L.(*ssa.Phi); isPhi {
			for k, e := range ph.Edges {
				pred := ph.Block().Preds[k]
				ei := 0
				for j, sc := range pred.Succs {
					if sc == ph.Block() {
						ei = j
					}
				}
				alts = append(alts, alt{strip(e), pred, ei, r})
			}
			return
		}
		alts = append(alts, alt{L, r.Block(), -1, r})
	})
	if bad != "" {
		R.Fail("C08.poll-final", "C08.poll-final/getConfirmationDuration/shape", c.rel(p.Pos(a.getConfDur.Pos())), "confirmation duration is <level or floored level> * BlockTimeMs", "undecided: "+bad)
	}
	es, _ := edgesWhere(a.getConfDur, func(at string) bool { return at == "!isMainnet" || at == "!isTransferTokenVAA" })
	for _, al := range alts {
		nret++
		t := facts.Term(al.val)
		var fs []string
		if al.edge >= 0 {
			fs = facts.Atoms(facts.AtEdge(al.blk, al.edge, nil))
		} else {
			fs = facts.Atoms(facts.At(al.pos, nil))
		}
		has := func(x string) bool {
			for _, f := range fs {
				if f == x {
					return true
				}
			}
			return false
		}
		switch t {
		case fmt.Sprintf("N/alephium.maxUint8(eventConsistencyLevel,%d)", minV):
			R.Check("C08.poll-final", R.Key("C08.poll-final", "getConfirmationDuration", "return"), c.rel(p.Pos(instrPos(al.pos))), "the floored duration (max(level, MinimalConsistencyLevel) blocks) is what mainnet token transfers get", has("isMainnet") && has("isTransferTokenVAA"), "floored value used under facts "+strings.Join(fs, ","))
		case "eventConsistencyLevel":
			R.Check("C08.poll-final", R.Key("C08.poll-final", "getConfirmationDuration", "return"), c.rel(p.Pos(instrPos(al.pos))), "confirmation duration is level * BlockTimeMs", true, "")
			cutOK := len(es) >= 2
			if cutOK {
				if al.edge >= 0 {
					isCut := false
					for _, e := range es {
						if e.B == al.blk.Index && e.K == al.edge {
							isCut = true
						}
					}
					cutOK = isCut || facts.PassesAny(al.blk, nil, es...)
				} else {
					cutOK = facts.PassesAny(al.blk, nil, es...)
				}
			}
			R.Check("C08.poll-final", R.Key("C08.poll-final", "getConfirmationDuration", "unfloored-branch"), c.rel(p.Pos(instrPos(al.pos))), "the un-floored duration is used only when not (mainnet and token transfer)", cutOK, "branch structure")
		default:
			R.Check("C08.poll-final", R.Key("C08.poll-final", "getConfirmationDuration", "return"), c.rel(p.Pos(instrPos(al.pos))), "confirmation duration is <level or floored level> * BlockTimeMs", false, "level term "+t)
		}
	}
	R.Floor("C08.poll-final.duration-returns", nret, 2)
	mx := must(p.Func(pkgAlph, "maxUint8"), "maxUint8")
	okmx := true
	eachInstr(mx, func(i ssa.Instruction) {
		if r, ok := i.(*ssa.Return); ok {
			fs := facts.Atoms(acceptFacts(r))
			t := facts.Term(r.Results[0])
			if !(t == "a" && len(fs) == 1 && fs[0] == "b < a" || t == "b" && len(fs) == 1 && fs[0] == "a <= b") {
				okmx = false
			}
		}
	})
	R.Check("C08.poll-final", "C08.poll-final/maxUint8", c.rel(p.Pos(mx.Pos())), "maxUint8 returns the larger operand", okmx, "unexpected body")
}

func c08core(c *Ctx, a *alphAnchors) {
	p, R := a.p, c.R
	// events on the polling path come from GetContractEvents(ctx, w.governanceContractAddress, ...)
	n := 0
	for _, s := range callsNamed(p, pkgAlph, "(*N/alephium.Client).GetContractEvents") {
		n++
		arg := facts.Term(initAlias(s.Instr.(ssa.CallInstruction).Common().Args[2]))
		R.Check("C08.core-contract", R.Key("C08.core-contract", shortFn(s.Fn), "call:GetContractEvents"), c.sitePos(p, s), "polled events are those of the configured core (governance) contract", arg == "w.governanceContractAddress", "address argument = "+arg)
	}
	R.Floor("C08.core-contract", n, 1)
	// handleUnconfirmedEvents is fed only with that call's result
	for _, s := range callsTo(p, a.handleUnconfirmed) {
		av := s.Instr.(ssa.CallInstruction).Common().Args[3]
		arg := facts.Term(av)
		okPage := false
		if ex, isEx := strip(av).(*ssa.Extract); isEx && ex.Index == 0 {
			if gc, isCall := ex.Tuple.(*ssa.Call); isCall && facts.CalleeName(&gc.Call) == "(*N/alephium.Client).GetContractEvents" {
				okPage = facts.Term(gc.Call.Args[0]) == "client" && facts.Term(initAlias(gc.Call.Args[2])) == "w.governanceContractAddress"
			}
		}
		R.Check("C08.core-contract", R.Key("C08.core-contract", shortFn(s.Fn), "call:handleUnconfirmedEvents"), c.sitePos(p, s), "handleUnconfirmedEvents receives the page fetched from the core contract",
			s.Fn == a.fetchEvents && okPage, "argument = "+arg)
	}
	// UnconfirmedEvent allocation sites
	ueT := must(p.Named(pkgAlph, "UnconfirmedEvent"), "alephium.UnconfirmedEvent")
	sites := allocsOf(p, ueT)
	R.Floor("C08.core-contract.UnconfirmedEvent", len(sites), 1)
	for _, s := range sites {
		al := s.Instr.(*ssa.Alloc)
		vals, _ := allocStores(al)
		fs := facts.At(al, nil)
		ev, msg := termOrNil(vals["ContractEvent"]), termOrNil(vals["msg"])
		okA := s.Fn == a.toUnconfirmed &&
			facts.Has(fs, func(at string) bool { return at == "0 == "+ev+".EventIndex" || at == ev+".EventIndex == 0" }) &&
			msg == fname(a.toWormMsg)+"("+ev+".Fields,"+ev+".TxId)#0" &&
			facts.HasAtom(fs, fname(a.toWormMsg)+"("+ev+".Fields,"+ev+".TxId)#1 == nil")
		R.Check("C08.core-contract", R.Key("C08.core-contract", shortFn(s.Fn), "alloc:UnconfirmedEvent"), c.sitePos(p, s), "an UnconfirmedEvent pairs a WormholeMessage-index event with the message decoded from that same event's fields", okA, "event="+ev+" msg="+msg, facts.Atoms(fs)...)
	}
	// the event handed to toUnconfirmedEvent is an element of the fetched page
	for _, s := range callsTo(p, a.toUnconfirmed) {
		arg := s.Instr.(ssa.CallInstruction).Common().Args[1]
		ok := false
		if al, isAl := arg.(*ssa.Alloc); isAl && al.Referrers() != nil {
			for _, r := range *al.Referrers() {
				if st, isSt := r.(*ssa.Store); isSt && st.Addr == al && facts.Term(st.Val) == "events.Events[(phi:rangeindex + 1)]" {
					ok = true
				}
			}
		}
		R.Check("C08.core-contract", R.Key("C08.core-contract", shortFn(s.Fn), "call:toUnconfirmedEvent"), c.sitePos(p, s), "each converted event is a copy of an element of the fetched page", ok && s.Fn == a.handleUnconfirmed, "argument = "+facts.Term(arg))
	}
}

// c08attest: an attestation-shaped message is kept only if validated against the token contract.
func c08attest(c *Ctx, a *alphAnchors) {
	p, R := a.p, c.R
	// the metadata an attestation is compared with is read from the node for every check: every
	// successful return of GetTokenInfo follows a MultiCallContract request of this invocation (a
	// result remembered from an earlier check would let a stale attestation through after the
	// token contract changed, and would differ between guardians)
	if gti := p.Method(pkgAlph, "Client", "GetTokenInfo"); gti != nil {
		nfresh := 0
		for _, r := range acceptingReturns(gti) {
			if _, isGlobal := strip(r.Results[0]).(*ssa.Global); isGlobal {
				// the native token's metadata is a package-level constant, not something remembered
				continue
			}
			nfresh++
			fresh := facts.Before(r, func(i ssa.Instruction) bool {
				cl, ok := i.(*ssa.Call)
				return ok && facts.CalleeName(&cl.Call) == "(*N/alephium.Client).MultiCallContract"
			})
			R.Check("C08.attest", R.Key("C08.attest", shortFn(gti), "fresh-metadata"), c.rel(p.Pos(instrPos(r))), "token metadata is fetched from the node on every call (no cached answer)", fresh, "a successful return is reachable without asking the node: the comparison uses remembered metadata")
		}
		R.Floor("C08.attest.fresh-metadata", nfresh, 1)
	}
	// polling path: append of `unconfirmed` in handleUnconfirmedEvents
	chk := func(fn *ssa.Function, sinkPred func(i ssa.Instruction) (string, bool), construct string) {
		n := 0
		eachInstr(fn, func(i ssa.Instruction) {
			msg, ok := sinkPred(i)
			if !ok {
				return
			}
			n++
			isAtt := "(*N/alephium.WormholeMessage).IsAttestTokenVAA(" + msg + ")"
			val := fname(a.validateAttest) + "(w,ctx," + msg + ") == nil"
			es, ds := edgesWhere(fn, func(at string) bool { return at == "!"+isAtt || at == val })
			ok2 := len(es) >= 2 && facts.PassesAny(i.Block(), nil, es...)
			R.Check("C08.attest", R.Key("C08.attest", shortFn(fn), construct), c.rel(p.Pos(instrPos(i))), "the event is kept only if it is not an attestation or validateAttestToken(msg) == nil for the same message", ok2, fmt.Sprintf("guard edges found: %v", ds))
		})
		R.Floor("C08.attest."+shortFn(fn), n, 1)
	}
	chk(a.handleUnconfirmed, func(i ssa.Instruction) (string, bool) {
		cl, ok := i.(*ssa.Call)
		if !ok || facts.CalleeName(&cl.Call) != "append" {
			return "", false
		}
		el := singleVararg(cl.Call.Args[1])
		if el == nil {
			return "", false
		}
		return facts.Term(el) + ".msg", true
	}, "append:unconfirmedEvents")
	roT := must(p.Named(pkgAlph, "reobservedEvent"), "alephium.reobservedEvent")
	chk(a.getGovEvents, func(i ssa.Instruction) (string, bool) {
		al, ok := i.(*ssa.Alloc)
		if !ok {
			return "", false
		}
		if pt, ok := al.Type().(*types.Pointer); !ok || !types.Identical(pt.Elem(), roT) {
			return "", false
		}
		msg := fname(a.toWormMsg) + "(events.Events[(phi:rangeindex + 1)].Fields,txId)#0"
		for _, f := range facts.At(al, nil) {
			if strings.HasPrefix(f.Atom, fname(a.toWormMsg)+"(") && strings.HasSuffix(f.Atom, "#1 == nil") {
				msg = strings.TrimSuffix(f.Atom, "#1 == nil") + "#0"
			}
		}
		return msg, true
	}, "alloc:reobservedEvent")
	// validateAttestToken: accepting return requires equality of parsed payload and on-chain info
	nacc := 0
	eachInstr(a.validateAttest, func(i ssa.Instruction) {
		r, ok := i.(*ssa.Return)
		if !ok || !isNilConst(r.Results[0]) {
			return
		}
		nacc++
		fs := acceptFacts(r)
		parsed := "N/alephium.parseAttestToken(msg.payload)#0"
		chain := "(*N/alephium.Client).GetTokenInfo(w.client,ctx," + parsed + ".TokenId)#0"
		// the comparison written out field by field (all fields of TokenInfo) counts as the
		// struct comparison
		if tiT := p.Named(pkgAlph, "TokenInfo"); tiT != nil {
			st := tiT.Underlying().(*types.Struct)
			all := st.NumFields() > 0
			for k := 0; k < st.NumFields(); k++ {
				fn := st.Field(k).Name()
				l, rr := parsed+"."+fn, chain+"."+fn
				found := false
				for _, f := range fs {
					a := f.Atom
					if a == facts.CmpAtom(l, token.EQL, rr) || a == facts.CmpAtom(rr, token.EQL, l) ||
						strings.HasSuffix(a, ".equalWith("+l+","+rr+")") || strings.HasSuffix(a, ".equalWith("+rr+","+l+")") ||
						a == "bytes.Equal("+l+"[:],"+rr+"[:])" || a == "bytes.Equal("+rr+"[:],"+l+"[:])" {
						found = true
					}
				}
				if !found {
					all = false
				}
			}
			if all {
				fs = append(fs, facts.Fact{Atom: facts.CmpAtom("*"+parsed, token.EQL, "*"+chain)})
			}
		}
		c.checkFacts(p, "C08.attest", a.validateAttest, "return:nil", r, fs, []req{
			{Name: "payload parsed", Pred: func(at string) bool { return at == "N/alephium.parseAttestToken(msg.payload)#1 == nil" }},
			{Name: "token info fetched from the token contract named in the payload", Pred: func(at string) bool { return at == strings.TrimSuffix(chain, "#0")+"#1 == nil" }},
			{Name: "attested metadata == on-chain metadata (struct equality)", Pred: func(at string) bool {
				return at == facts.CmpAtom("*"+parsed, token.EQL, "*"+chain) || at == facts.CmpAtom("*"+chain, token.EQL, "*"+parsed)
			}},
		})
	})
	R.Floor("C08.attest.validate-accepts", nacc, 1)
}

func c08reobs(c *Ctx, a *alphAnchors) {
	p, R := a.p, c.R
	// (1) reobservedEvent allocation sites
	roT := must(p.Named(pkgAlph, "reobservedEvent"), "alephium.reobservedEvent")
	sites := allocsOf(p, roT)
	R.Floor("C08.reobs.alloc", len(sites), 1)
	for _, s := range sites {
		al := s.Instr.(*ssa.Alloc)
		fs := facts.At(al, nil)
		vals, _ := allocStores(al)
		// the iterated event: learn its term from the event-index fact
		ev := "events.Events[(phi:rangeindex + 1)]"
		for _, f := range fs {
			if strings.HasPrefix(f.Atom, "0 == ") && strings.HasSuffix(f.Atom, ".EventIndex") {
				ev = strings.TrimSuffix(strings.TrimPrefix(f.Atom, "0 == "), ".EventIndex")
			}
		}
		// it must be an element of the fetched list
		isElem := ev == "events.Events[(phi:rangeindex + 1)]"
		if ev == "local:event" {
			eachInstr(s.Fn, func(i ssa.Instruction) {
				if st, ok := i.(*ssa.Store); ok {
					if a2, ok := st.Addr.(*ssa.Alloc); ok && facts.LocalName(a2.Parent(), a2.Comment) == "event" && facts.Term(st.Val) == "(*N/alephium.Client).GetEventsByTxId(client,ctx,txId)#0.Events[(phi:rangeindex + 1)]" {
						isElem = true
					}
				}
			})
		}
		key := func(x string) string { return R.Key("C08.reobs-final", shortFn(s.Fn), "alloc:reobservedEvent:"+x) }
		R.Check("C08.reobs-final", key("element"), c.sitePos(p, s), "the re-observed event is an element of GetEventsByTxId(txId)", isElem, "event term = "+ev)
		pos := c.sitePos(p, s)
		R.Check("C08.reobs-final", key("fn"), pos, "reobservedEvent values are created only by getGovernanceEventsByTxId", s.Fn == a.getGovEvents, fname(s.Fn))
		R.Check("C08.reobs-final", key("event-index"), pos, "re-observed event has the WormholeMessage event index",
			facts.Has(fs, func(at string) bool { return at == "0 == "+ev+".EventIndex" || at == ev+".EventIndex == 0" }), "missing fact EventIndex == WormholeMessageEventIndex", facts.Atoms(fs)...)
		R.Check("C08.reobs-final", key("contract-address"), pos, "re-observed event was emitted by the configured core contract (look-alike events of other contracts in the same transaction are skipped)",
			facts.Has(fs, func(at string) bool {
				return at == facts.CmpAtom(ev+".ContractAddress", token.EQL, "address") || at == facts.CmpAtom("address", token.EQL, ev+".ContractAddress")
			}), "no must-hold fact event.ContractAddress == address at the allocation: the `address` parameter is ignored, so any contract's event with index 0 in the transaction is accepted", facts.Atoms(fs)...)
		R.Check("C08.reobs-final", key("block-hash"), pos, "re-observed event lies in the block whose main-chain membership is checked (the transaction's confirmed block)",
			facts.Has(fs, func(at string) bool {
				return at == facts.CmpAtom(ev+".BlockHash", token.EQL, "blockHash") || at == facts.CmpAtom("blockHash", token.EQL, ev+".BlockHash")
			}), "no must-hold fact event.BlockHash == blockHash: the header/height come from the event's own block while main-chain membership is checked for the transaction's block", facts.Atoms(fs)...)
		hdr := termOrNil(vals["header"])
		R.Check("C08.reobs-final", key("header"), pos, "stored header is the header of the event's block", hdr == "(*N/alephium.Client).GetBlockHeader(client,ctx,"+ev+".BlockHash)#0", "header = "+hdr)
		if mv, has := vals["msg"]; has {
			R.Check("C08.reobs-final", key("msg"), pos, "stored message is the message decoded from the event's fields", termOrNil(mv) == fname(a.toWormMsg)+"("+ev+".Fields,txId)#0", "msg = "+termOrNil(mv))
		}
		conf := termOrNil(vals["confirmations"])
		R.Check("C08.reobs-final", key("confirmations"), pos, "stored confirmation count is the decoded message's consistency level", conf == fname(a.toWormMsg)+"("+ev+".Fields,txId)#0.consistencyLevel", "confirmations = "+conf)
	}
	// call site binds address/blockHash
	for _, s := range callsTo(p, a.getGovEvents) {
		args := s.Instr.(ssa.CallInstruction).Common().Args
		okb := s.Fn == a.handleObsv && facts.Term(args[4]) == "w.governanceContractAddress" && strings.HasSuffix(facts.Term(args[5]), ".Confirmed.BlockHash")
		R.Check("C08.reobs-final", R.Key("C08.reobs-final", shortFn(s.Fn), "call:getGovernanceEventsByTxId"), c.sitePos(p, s), "getGovernanceEventsByTxId is given the configured core contract address and the transaction's confirmed block hash", okb, facts.Term(args[4])+", "+facts.Term(args[5]))
	}
	// (2) the append to `confirmed` in handleObsvRequest
	n := 0
	eachInstr(a.handleObsv, func(i ssa.Instruction) {
		cl, ok := i.(*ssa.Call)
		if !ok || facts.CalleeName(&cl.Call) != "append" {
			return
		}
		el := singleVararg(cl.Call.Args[1])
		if el == nil || !strings.HasSuffix(el.Type().String(), "alephium.reobservedEvent") {
			return
		}
		n++
		e := facts.Term(el)
		fs := facts.At(cl, nil)
		status := "(*N/alephium.Client).GetTransactionStatus(client,ctx,encoding/hex.EncodeToString(<-w.obsvReqC.TxHash[0:32]))"
		_ = status
		reqs := []req{
			{Name: "transaction status fetched and confirmed", Pred: func(at string) bool {
				return strings.HasSuffix(at, ".Confirmed != nil") && strings.Contains(at, "GetTransactionStatus")
			}},
			{Name: "events of the transaction fetched", Pred: func(at string) bool {
				return strings.HasPrefix(at, fname(a.getGovEvents)+"(") && strings.HasSuffix(at, "#1 == nil")
			}},
			{Name: "the transaction's block is on the main chain (checked in this request)", Pred: func(at string) bool {
				return strings.HasPrefix(at, "*(*N/alephium.Client).IsBlockInMainChain(client,ctx,") && strings.HasSuffix(at, ".Confirmed.BlockHash)#0")
			}},
			{Name: "block height + consistency level <= current height", Pred: func(at string) bool {
				return strings.HasPrefix(at, "("+e+".header.Height + "+e+".confirmations) <= *(*N/alephium.Client).GetCurrentHeight(")
			}},
			{Name: "same wall-clock hold as the polling path (block timestamp + getConfirmationDuration(isMainnet, isTransfer, level) <= now)", Pred: func(at string) bool {
				if strings.HasPrefix(at, fname(a.isEventConfirmed)+"(") && strings.Contains(at, "w.isMainnet") {
					return true
				}
				return at == "("+e+".header.Timestamp + "+fname(a.getConfDur)+"(w.isMainnet,(*N/alephium.WormholeMessage).IsTransferTokenVAA("+e+".msg),"+e+".confirmations)) <= (time.Time).UnixMilli(time.Now())"
			}},
		}
		c.checkFacts(p, "C08.reobs-final", a.handleObsv, "append:confirmed", cl, fs, reqs)
		R.Sample(map[string]any{"sink": "confirmed = append(confirmed, " + e + ") in handleObsvRequest", "facts": facts.Atoms(fs)})
	})
	R.Floor("C08.reobs-final", n, 1)
	// handleGovernanceMessages is called only with that list
	for _, s := range callsTo(p, a.handleGov) {
		arg := s.Instr.(ssa.CallInstruction).Common().Args[2]
		okl := s.Fn == a.handleObsv
		for _, leaf := range phiLeaves(arg) {
			if asCall(leaf, "append") == nil {
				if sl, ok := leaf.(*ssa.Slice); !ok || !strings.Contains(facts.Term(sl), "makeslice") {
					okl = false
				}
			}
		}
		R.Check("C08.reobs-final", R.Key("C08.reobs-final", shortFn(s.Fn), "call:handleGovernanceMessages"), c.sitePos(p, s), "handleGovernanceMessages receives only the list built by the guarded appends", okl, "argument = "+facts.Term(arg))
	}
}

func c08once(c *Ctx, a *alphAnchors) {
	p, R := a.p, c.R
	// the cursor: argument `from` of GetContractEvents
	for _, s := range callsNamed(p, pkgAlph, "(*N/alephium.Client).GetContractEvents") {
		from := s.Instr.(ssa.CallInstruction).Common().Args[3]
		var bad []string
		for _, leaf := range c08cursorLeaves(from) {
			t := facts.Term(leaf.v)
			if strings.HasSuffix(t, ".NextStart") && strings.Contains(t, "GetContractEvents") {
				continue
			}
			if strings.HasPrefix(t, "*(*N/alephium.Client).GetContractEventsCount(") {
				// initial value: the count read once at start-up — not the count polled on every
				// tick (a page may reach beyond the polled count; restarting from that count
				// fetches, and forwards, the surplus events a second time)
				inLoop := false
				var cnt *ssa.Call
				var find func(v ssa.Value, d int)
				find = func(v ssa.Value, d int) {
					if d > 4 || cnt != nil {
						return
					}
					switch x := v.(type) {
					case *ssa.UnOp:
						find(x.X, d+1)
					case *ssa.Extract:
						find(x.Tuple, d+1)
					case *ssa.Call:
						cnt = x
					}
				}
				find(leaf.v, 0)
				if leaf.at != nil {
					// obtained through a local helper: where the helper is called decides
					cnt = leaf.at
				}
				if cnt != nil {
					for _, l := range facts.LoopsOf(cnt.Parent()) {
						if l.Body()[cnt.Block()] {
							inLoop = true
						}
					}
				}
				if !inLoop {
					continue
				}
				t += " (the count polled inside the fetch loop, not the start-up count)"
			}
			bad = append(bad, t)
		}
		R.Check("C08.once", R.Key("C08.once", shortFn(s.Fn), "cursor"), c.sitePos(p, s), "the polling cursor only ever takes the start-up count or the NextStart returned by the previous page (monotone; no page is fetched twice)", len(bad) == 0, "other cursor sources: "+strings.Join(bad, ", "))
	}
	// single disposition of a pending event per pass
	evF := must(p.FieldOf(pkgAlph, "UnconfirmedEventsPerBlock", "events"), "UnconfirmedEventsPerBlock.events")
	// the pass over the pending set: the function (handleEvents_ or a function literal in it) that
	// creates ConfirmedEvents
	var pr *ssa.Function
	for _, s := range allocsOf(p, must(p.Named(pkgAlph, "ConfirmedEvent"), "alephium.ConfirmedEvent")) {
		if top(s.Fn) == a.handleEvents_ {
			pr = s.Fn
		}
	}
	if pr == nil {
		R.Fail("C08.once", "C08.once/process", "", "pass over the pending set", "undecided: no function under handleEvents_ creates ConfirmedEvents")
		return
	}
	nst := 0
	eachInstr(pr, func(i ssa.Instruction) {
		st, ok := i.(*ssa.Store)
		if !ok || fieldOfAddr(st.Addr) != evF || isFreshAlloc(st.Addr) || !inPendingPass(st.Block()) {
			return
		}
		nst++
		// stored list = appends guarded by !isEventConfirmed only
		okl := true
		for _, leaf := range phiLeaves(st.Val) {
			ap := asCall(leaf, "append")
			if ap == nil {
				if !strings.Contains(facts.Term(leaf), "makeslice") {
					okl = false
				}
				continue
			}
			has := false
			for _, f := range facts.At(ap, nil) {
				if !f.Pol && asCall(f.Cond, fname(a.isEventConfirmed)) != nil {
					has = true
				}
			}
			if !has {
				okl = false
			}
		}
		R.Check("C08.once", R.Key("C08.once", shortFn(pr), "store:events"), c.rel(p.Pos(st.Pos())), "after a pass a pending block keeps exactly the events that were not yet confirmed (confirmed or dropped events leave the pending set)", okl, "stored list = "+facts.Term(st.Val))
	})
	R.Floor("C08.once.pending-replaced", nst, 1)
}

// c08fromHeightC: v is the value received from the heightC parameter in a select (or by a plain
// receive).
func c08fromHeightC(v ssa.Value) bool {
	switch x := strip(v).(type) {
	case *ssa.Extract:
		if sel, ok := x.Tuple.(*ssa.Select); ok {
			// results: index, recvOk, then one value per receive state in order
			k := 2
			for _, st := range sel.States {
				if st.Dir != types.RecvOnly {
					continue
				}
				if k == x.Index {
					return facts.Term(st.Chan) == "heightC"
				}
				k++
			}
		}
	case *ssa.UnOp:
		return x.Op == token.ARROW && facts.Term(x.X) == "heightC"
	}
	return false
}

// inPendingPass: b lies in a loop that ranges over a map of pending blocks
// (map[string]*UnconfirmedEventsPerBlock) — the per-height pass, as opposed to the filing of newly
// received events.
func inPendingPass(b *ssa.BasicBlock) bool {
	for _, l := range facts.LoopsOf(b.Parent()) {
		if !l.Body()[b] {
			continue
		}
		for _, ins := range l.Header.Instrs {
			if nx, ok := ins.(*ssa.Next); ok {
				if rg, ok := nx.Iter.(*ssa.Range); ok {
					if mt, ok := rg.X.Type().Underlying().(*types.Map); ok && strings.HasSuffix(mt.Elem().String(), "UnconfirmedEventsPerBlock") {
						return true
					}
				}
			}
		}
	}
	return false
}

// c08reobsMsgIsOwn: every reobservedEvent literal sets msg to the result of ToWormholeMessage
// applied to the Fields of the very event stored in the same literal.
func c08reobsMsgIsOwn(p *load.Program, a *alphAnchors) bool {
	reT := must(p.Named(pkgAlph, "reobservedEvent"), "alephium.reobservedEvent")
	n := 0
	for _, s := range allocsOf(p, reT) {
		vals, cnt := allocStores(s.Instr.(*ssa.Alloc))
		ev, msg := termOrNil(vals["ContractEventByTxId"]), termOrNil(vals["msg"])
		if vals["ContractEventByTxId"] == nil || cnt["msg"] != 1 {
			return false
		}
		evT := strings.TrimPrefix(ev, "*")
		if al, ok := vals["ContractEventByTxId"].(*ssa.Alloc); ok {
			// `contractEvent := event; …{&contractEvent, …}`: a private copy of the ranged element
			if w := wholeCopyOf(al); w != nil {
				evT = facts.Term(w)
			}
		}
		if !strings.HasPrefix(msg, fname(a.toWormMsg)+"("+evT+".Fields,") || !strings.HasSuffix(msg, "#0") {
			return false
		}
		n++
	}
	return n > 0
}

type cursorLeaf struct {
	v  ssa.Value
	at *ssa.Call // call of a local function literal through which the value was obtained (nil: direct)
}

// c08cursorLeaves resolves the values the cursor can take: through phis and through the results
// of local function literals (each return statement's operand, remembered with the call site).
func c08cursorLeaves(v ssa.Value) []cursorLeaf {
	var out []cursorLeaf
	seen := map[ssa.Value]bool{}
	var walk func(x ssa.Value, at *ssa.Call, d int)
	walk = func(x ssa.Value, at *ssa.Call, d int) {
		if x == nil || d > 8 || seen[x] {
			return
		}
		seen[x] = true
		switch y := x.(type) {
		case *ssa.Phi:
			for _, e := range y.Edges {
				walk(e, at, d+1)
			}
			return
		case *ssa.Extract:
			if cl, ok := y.Tuple.(*ssa.Call); ok {
				if mc, ok := resolveSpill(cl.Call.Value).(*ssa.MakeClosure); ok {
					site := at
					if site == nil {
						site = cl
					}
					eachInstr(mc.Fn.(*ssa.Function), func(i ssa.Instruction) {
						if r, ok := i.(*ssa.Return); ok && y.Index < len(r.Results) {
							// the failure return of a (value, ok) helper carries a dummy value
							if len(r.Results) == 2 {
								if b, isB := isBoolConstV(r.Results[1]); isB && !b {
									return
								}
							}
							walk(r.Results[y.Index], site, d+1)
						}
					})
					return
				}
			}
		}
		out = append(out, cursorLeaf{x, at})
	}
	walk(v, nil, 0)
	return out
}

func isBoolConstV(v ssa.Value) (val, ok bool) {
	c, isC := v.(*ssa.Const)
	if !isC || c.Value == nil || c.Value.Kind() != constant.Bool {
		return false, false
	}
	return constant.BoolVal(c.Value), true
}
