// Package inline normalises helper functions that did not exist on the reviewed tree back into
// their call sites, at source level, before the rules run.
//
// The rules of this checker were written against the shape of the functions named in the
// properties' anchors. The commonest harmless refactor near such code is "extract a helper": a
// guard, a loop or a literal moves into a new function of the same package and the anchored function
// calls it. Every function name of the reviewed tree is recorded (pinned table, "#functions"); a
// function that is not in that list is new, and each static, same-package call to it that occurs in
// a supported statement form is replaced by the helper's body (parameters bound to temporaries
// holding the argument values, `return` turned into an assignment to result variables and a
// labelled break). The rewritten files are handed to go/packages as an overlay and the program is
// loaded again, so the SSA the rules see has the shape it had before the extraction — for a
// harmless extraction and for a buggy one alike. `//line` directives keep reported positions on the
// original lines. Call sites in unsupported forms are left alone (the rules then judge the call as
// they always did).
package inline

import (
	"bytes"
	"fmt"
	"go/ast"
	"go/parser"
	"go/printer"
	"go/token"
	"go/types"
	"sort"
	"strings"

	"golang.org/x/tools/go/ast/astutil"
	"golang.org/x/tools/go/packages"
)

// Result of one rewriting round.
type Result struct {
	Overlay map[string][]byte // filename -> new content (only files that changed)
	Sites   []string          // description of every inlined call site
	Skipped []string          // call sites of new functions left alone, with the reason
}

type edit struct {
	start, end int // byte offsets in the file; start==end is an insertion
	text       string
	prio       int // order among insertions at the same offset
	group      int // edits of one call site succeed or are dropped together
}

type fileCtx struct {
	pkg     *packages.Package
	file    *ast.File
	name    string
	src     []byte
	tf      *token.File
	edits   []edit
	imports map[string]string // path -> local name available in this file
	addImp  map[string]string // path -> alias to add
	counter *int
}

// siteCounter numbers call sites across rounds (names of temporaries and labels must stay unique
// when a second round rewrites a body produced by the first).
var siteCounter int

// Rewrite computes one round of inlining over the given root packages. isNew reports whether a
// function object is absent from the reviewed tree. readFile returns current file contents
// (overlay-aware).
func Rewrite(pkgs []*packages.Package, isNew func(*types.Func) bool, readFile func(string) ([]byte, error)) (*Result, error) {
	res := &Result{Overlay: map[string][]byte{}}
	for _, pkg := range pkgs {
		if pkg.TypesInfo == nil || pkg.Types == nil {
			continue
		}
		// function declarations of the package
		decls := map[*types.Func]*ast.FuncDecl{}
		declFile := map[*types.Func]*ast.File{}
		anyNew := false
		for _, f := range pkg.Syntax {
			for _, d := range f.Decls {
				if fd, ok := d.(*ast.FuncDecl); ok && fd.Body != nil {
					if obj, ok := pkg.TypesInfo.Defs[fd.Name].(*types.Func); ok {
						decls[obj] = fd
						declFile[obj] = f
						if isNew(obj) {
							anyNew = true
						}
					}
				}
			}
		}
		if !anyNew {
			continue
		}
		for _, f := range pkg.Syntax {
			tf := pkg.Fset.File(f.Pos())
			if tf == nil {
				continue
			}
			src, err := readFile(tf.Name())
			if err != nil {
				return nil, err
			}
			if len(src) != tf.Size() {
				return nil, fmt.Errorf("inline: %s changed size during analysis", tf.Name())
			}
			fc := &fileCtx{pkg: pkg, file: f, name: tf.Name(), src: src, tf: tf, imports: map[string]string{}, addImp: map[string]string{}, counter: &siteCounter}
			for _, im := range f.Imports {
				path := strings.Trim(im.Path.Value, `"`)
				name := ""
				if im.Name != nil {
					name = im.Name.Name
				} else if pn, ok := pkg.TypesInfo.Implicits[im].(*types.PkgName); ok {
					name = pn.Name()
				}
				if name != "" && name != "_" && name != "." {
					fc.imports[path] = name
				}
			}
			fc.scan(decls, declFile, isNew, res)
			if len(fc.edits) == 0 {
				continue
			}
			out, err := fc.apply()
			if err != nil {
				return nil, err
			}
			res.Overlay[fc.name] = out
		}
	}
	return res, nil
}

// ---- scanning -------------------------------------------------------------------------------------

type stmtCtx struct {
	stmt   ast.Stmt   // the statement in a statement list that contains the call
	inList bool       // stmt is an element of a BlockStmt / CaseClause / CommClause list
	ifWrap *ast.IfStmt // the call is in the header of this if statement
}

func (fc *fileCtx) scan(decls map[*types.Func]*ast.FuncDecl, declFile map[*types.Func]*ast.File, isNew func(*types.Func) bool, res *Result) {
	info := fc.pkg.TypesInfo
	for _, d := range fc.file.Decls {
		fd, ok := d.(*ast.FuncDecl)
		if !ok || fd.Body == nil {
			continue
		}
		callerObj, _ := info.Defs[fd.Name].(*types.Func)
		exprDone := map[*ast.CallExpr]bool{}
		// expression form: a helper whose body is `return EXPR`, called with side-effect-free
		// arguments, is replaced by EXPR with the arguments substituted — wherever the call occurs
		ast.Inspect(fd.Body, func(n ast.Node) bool {
			call, ok := n.(*ast.CallExpr)
			if !ok {
				return true
			}
			c2, callee := fc.newCallee(call, isNew, decls)
			if c2 == nil || callee == callerObj {
				return true
			}
			if txt, ok := fc.exprForm(call, callee, decls[callee]); ok {
				*fc.counter++
				fc.edits = append(fc.edits, edit{group: *fc.counter, start: fc.off(call.Pos()), end: fc.off(call.End()), text: txt})
				if fc.tf.Line(call.End()) != fc.tf.Line(call.Pos()) {
					fc.resync(fc.off(call.End()))
				}
				pos := fc.pkg.Fset.Position(call.Pos())
				res.Sites = append(res.Sites, fmt.Sprintf("%s:%d %s (expression)", pos.Filename, pos.Line, callee.Name()))
				exprDone[call] = true
				return false
			}
			return true
		})
		// one site per statement per round: collect statements in lists
		var visitList func(list []ast.Stmt)
		handled := map[ast.Stmt]bool{}
		visitStmt := func(s ast.Stmt) {
			if handled[s] {
				return
			}
			call, callee := fc.firstNewCall(s, isNew, decls)
			if call == nil {
				return
			}
			if callee == callerObj || exprDone[call] {
				return
			}
			handled[s] = true
			why := fc.inlineAt(s, call, callee, decls[callee], declFile[callee])
			pos := fc.pkg.Fset.Position(call.Pos())
			if why != "" {
				res.Skipped = append(res.Skipped, fmt.Sprintf("%s:%d call to %s: %s", pos.Filename, pos.Line, callee.Name(), why))
			} else {
				res.Sites = append(res.Sites, fmt.Sprintf("%s:%d %s", pos.Filename, pos.Line, callee.Name()))
			}
		}
		visitList = func(list []ast.Stmt) {
			for _, s := range list {
				visitStmt(s)
			}
		}
		ast.Inspect(fd.Body, func(n ast.Node) bool {
			switch x := n.(type) {
			case *ast.BlockStmt:
				visitList(x.List)
			case *ast.CaseClause:
				visitList(x.Body)
			case *ast.CommClause:
				visitList(x.Body)
			}
			return true
		})
	}
}

// firstNewCall finds, in the part of statement s that is evaluated unconditionally and exactly once
// when s executes, the lexically first call, provided that it is a static same-package call to a new
// function and nothing with side effects is evaluated before it.
func (fc *fileCtx) firstNewCall(s ast.Stmt, isNew func(*types.Func) bool, decls map[*types.Func]*ast.FuncDecl) (*ast.CallExpr, *types.Func) {
	var exprs []ast.Expr
	switch x := s.(type) {
	case *ast.ExprStmt:
		exprs = []ast.Expr{x.X}
	case *ast.AssignStmt:
		// index/selector expressions on the left are evaluated too; keep it simple: only plain
		// identifiers / selectors without calls on the left
		for _, l := range x.Lhs {
			if hasCall(l) {
				return nil, nil
			}
		}
		exprs = x.Rhs
	case *ast.ReturnStmt:
		exprs = x.Results
	case *ast.DeferStmt:
		return fc.newCallee(x.Call, isNew, decls)
	case *ast.GoStmt:
		return fc.newCallee(x.Call, isNew, decls)
	case *ast.IfStmt:
		if x.Init != nil {
			c, f := fc.firstNewCall(x.Init, isNew, decls)
			if c != nil {
				return c, f
			}
			if stmtHasCall(x.Init) {
				return nil, nil
			}
		}
		exprs = []ast.Expr{x.Cond}
	case *ast.DeclStmt:
		gd, ok := x.Decl.(*ast.GenDecl)
		if !ok || gd.Tok != token.VAR {
			return nil, nil
		}
		for _, sp := range gd.Specs {
			if vs, ok := sp.(*ast.ValueSpec); ok {
				exprs = append(exprs, vs.Values...)
			}
		}
	case *ast.SendStmt:
		exprs = []ast.Expr{x.Chan, x.Value}
	case *ast.RangeStmt:
		exprs = []ast.Expr{x.X}
	case *ast.SwitchStmt:
		if x.Init != nil {
			return nil, nil
		}
		if x.Tag == nil {
			return nil, nil
		}
		exprs = []ast.Expr{x.Tag}
	default:
		return nil, nil
	}
	for _, e := range exprs {
		isTarget := func(c *ast.CallExpr) bool {
			c2, _ := fc.newCallee(c, isNew, decls)
			return c2 != nil
		}
		call, blocked := firstCall(e, fc.pkg.TypesInfo, isTarget)
		if call != nil {
			return fc.newCallee(call, isNew, decls)
		}
		if blocked {
			// other calls come first in this expression. A helper that only computes from its
			// arguments (no writes, no calls beyond pure library functions) may still be hoisted in
			// front of them: nothing it does can be observed by them or depend on them, apart from
			// a mutation of what its arguments point to, which the Go specification leaves
			// unordered with respect to those reads anyway.
			var found *ast.CallExpr
			ast.Inspect(e, func(n ast.Node) bool {
				if found != nil {
					return false
				}
				switch x := n.(type) {
				case *ast.FuncLit:
					return false
				case *ast.BinaryExpr:
					if x.Op == token.LAND || x.Op == token.LOR {
						ast.Inspect(x.X, func(m ast.Node) bool {
							if c, ok := m.(*ast.CallExpr); ok && found == nil && isTarget(c) {
								found = c
							}
							return found == nil
						})
						return false // never from the conditional right-hand side
					}
				case *ast.CallExpr:
					if isTarget(x) {
						found = x
						return false
					}
				}
				return true
			})
			if found != nil {
				c2, callee := fc.newCallee(found, isNew, decls)
				if c2 != nil && readOnlyHelper(decls[callee], fc.pkg.TypesInfo) && argsPure(found, fc.pkg.TypesInfo) {
					return c2, callee
				}
			}
			return nil, nil
		}
	}
	return nil, nil
}

func (fc *fileCtx) newCallee(call *ast.CallExpr, isNew func(*types.Func) bool, decls map[*types.Func]*ast.FuncDecl) (*ast.CallExpr, *types.Func) {
	var id *ast.Ident
	switch f := call.Fun.(type) {
	case *ast.Ident:
		id = f
	case *ast.SelectorExpr:
		id = f.Sel
	default:
		return nil, nil
	}
	obj, ok := fc.pkg.TypesInfo.Uses[id].(*types.Func)
	if !ok || obj.Pkg() != fc.pkg.Types || decls[obj] == nil || !isNew(obj) {
		return nil, nil
	}
	return call, obj
}

func hasCall(e ast.Expr) bool {
	found := false
	ast.Inspect(e, func(n ast.Node) bool {
		if _, ok := n.(*ast.CallExpr); ok {
			found = true
		}
		return !found
	})
	return found
}

func stmtHasCall(s ast.Stmt) bool {
	found := false
	ast.Inspect(s, func(n ast.Node) bool {
		if _, ok := n.(*ast.CallExpr); ok {
			found = true
		}
		return !found
	})
	return found
}

// argsPure: the call's receiver and arguments contain no calls (other than conversions, len, cap).
func argsPure(call *ast.CallExpr, info *types.Info) bool {
	ok := true
	check := func(e ast.Expr) {
		ast.Inspect(e, func(n ast.Node) bool {
			switch x := n.(type) {
			case *ast.CallExpr:
				if tv, isT := info.Types[x.Fun]; isT && tv.IsType() {
					return true
				}
				if id, isId := x.Fun.(*ast.Ident); isId {
					if _, isB := info.Uses[id].(*types.Builtin); isB && (id.Name == "len" || id.Name == "cap") {
						return true
					}
				}
				ok = false
			case *ast.FuncLit:
				ok = false
			case *ast.UnaryExpr:
				if x.Op == token.ARROW {
					ok = false
				}
			}
			return ok
		})
	}
	if sel, isSel := call.Fun.(*ast.SelectorExpr); isSel {
		check(sel.X)
	}
	for _, a := range call.Args {
		check(a)
	}
	return ok
}

// readOnlyHelper: the helper assigns only to its own local variables and calls only functions of
// side-effect-free library packages (or builtins / conversions).
func readOnlyHelper(fd *ast.FuncDecl, info *types.Info) bool {
	if fd == nil || fd.Body == nil {
		return false
	}
	purePkgs := map[string]bool{"time": true, "math": true, "math/big": false, "strings": true, "bytes": true, "strconv": true, "errors": true,
		"encoding/hex": true, "encoding/binary": true, "unicode": true, "unicode/utf8": true, "sort": false, "fmt": true,
		"github.com/ethereum/go-ethereum/common": true}
	local := func(id *ast.Ident) bool {
		obj := info.Defs[id]
		if obj == nil {
			obj = info.Uses[id]
		}
		v, ok := obj.(*types.Var)
		return ok && !v.IsField() && v.Pos() >= fd.Body.Pos() && v.Pos() <= fd.Body.End()
	}
	ok := true
	ast.Inspect(fd.Body, func(n ast.Node) bool {
		switch x := n.(type) {
		case *ast.AssignStmt:
			for _, l := range x.Lhs {
				id, isId := l.(*ast.Ident)
				if !isId || (id.Name != "_" && !local(id)) {
					ok = false
				}
			}
		case *ast.IncDecStmt:
			id, isId := x.X.(*ast.Ident)
			if !isId || !local(id) {
				ok = false
			}
		case *ast.SendStmt, *ast.GoStmt, *ast.DeferStmt, *ast.FuncLit, *ast.RangeStmt:
			// (a range over a channel or map is harmless, but keep the class small)
			if _, isRange := n.(*ast.RangeStmt); !isRange {
				ok = false
			}
		case *ast.UnaryExpr:
			if x.Op == token.ARROW {
				ok = false
			}
		case *ast.CallExpr:
			if tv, isT := info.Types[x.Fun]; isT && tv.IsType() {
				return true
			}
			switch f := x.Fun.(type) {
			case *ast.Ident:
				if _, isB := info.Uses[f].(*types.Builtin); isB {
					switch f.Name {
					case "len", "cap", "make", "new", "append", "min", "max":
						return true
					}
				}
				ok = false
			case *ast.SelectorExpr:
				if pk, isPk := f.X.(*ast.Ident); isPk {
					if pn, isPn := info.Uses[pk].(*types.PkgName); isPn && purePkgs[pn.Imported().Path()] {
						return true
					}
				}
				// methods of values from pure packages (time.Time, binary.ByteOrder …)
				if fn, isFn := info.Uses[f.Sel].(*types.Func); isFn && fn.Pkg() != nil && purePkgs[fn.Pkg().Path()] {
					return true
				}
				ok = false
			default:
				ok = false
			}
		}
		return ok
	})
	return ok
}

// firstCall returns the first call (in evaluation order) of expression e that is evaluated
// unconditionally. blocked is set when a side-effecting construct (another real call, a receive, a
// function literal's creation is fine) precedes it or when the first call sits under the right-hand
// side of && / ||. Conversions and the builtins len/cap/make/new/append-free forms count as pure.
func firstCall(e ast.Expr, info *types.Info, isTarget func(*ast.CallExpr) bool) (call *ast.CallExpr, blocked bool) {
	var walk func(e ast.Expr, cond bool) bool // returns true to stop
	walk = func(e ast.Expr, cond bool) bool {
		switch x := e.(type) {
		case nil:
			return false
		case *ast.ParenExpr:
			return walk(x.X, cond)
		case *ast.UnaryExpr:
			if x.Op == token.ARROW {
				blocked = true
				return true
			}
			return walk(x.X, cond)
		case *ast.BinaryExpr:
			if walk(x.X, cond) {
				return true
			}
			if x.Op == token.LAND || x.Op == token.LOR {
				// a call on the right is evaluated conditionally: it is not a candidate, and it
				// does not precede anything that follows in this statement either — stop looking
				if hasCall(x.Y) {
					blocked = true
					return true
				}
				return false
			}
			return walk(x.Y, cond)
		case *ast.CallExpr:
			// conversion or pure builtin?
			if tv, ok := info.Types[x.Fun]; ok && tv.IsType() {
				for _, a := range x.Args {
					if walk(a, cond) {
						return true
					}
				}
				return false
			}
			if id, ok := x.Fun.(*ast.Ident); ok {
				if _, isB := info.Uses[id].(*types.Builtin); isB {
					switch id.Name {
					case "len", "cap", "new", "make", "min", "max", "real", "imag", "complex":
						for _, a := range x.Args {
							if walk(a, cond) {
								return true
							}
						}
						return false
					}
				}
			}
			// a call to a new helper: its arguments are evaluated first in the inlined form as
			// well, so calls among them do not matter
			if isTarget(x) {
				call = x
				return true
			}
			// arguments and receiver are evaluated before the call itself: a new helper among
			// them comes first; otherwise this call's side effects precede whatever follows
			if sel, ok := x.Fun.(*ast.SelectorExpr); ok {
				if walk(sel.X, cond) {
					return true
				}
			}
			for _, a := range x.Args {
				if walk(a, cond) {
					return true
				}
			}
			blocked = true
			return true
		case *ast.SelectorExpr:
			return walk(x.X, cond)
		case *ast.IndexExpr:
			return walk(x.X, cond) || walk(x.Index, cond)
		case *ast.SliceExpr:
			return walk(x.X, cond) || walk(x.Low, cond) || walk(x.High, cond) || walk(x.Max, cond)
		case *ast.StarExpr:
			return walk(x.X, cond)
		case *ast.TypeAssertExpr:
			return walk(x.X, cond)
		case *ast.CompositeLit:
			for _, el := range x.Elts {
				if kv, ok := el.(*ast.KeyValueExpr); ok {
					if _, isId := kv.Key.(*ast.Ident); !isId {
						if walk(kv.Key, cond) {
							return true
						}
					}
					if walk(kv.Value, cond) {
						return true
					}
					continue
				}
				if walk(el, cond) {
					return true
				}
			}
			return false
		case *ast.KeyValueExpr:
			return walk(x.Value, cond)
		case *ast.FuncLit, *ast.Ident, *ast.BasicLit:
			return false
		}
		return false
	}
	walk(e, false)
	return call, blocked
}

// exprForm: text of the helper's single returned expression with parameters (and receiver)
// replaced by the call's arguments, when that is a faithful replacement of the call.
func (fc *fileCtx) exprForm(call *ast.CallExpr, callee *types.Func, fd *ast.FuncDecl) (string, bool) {
	info := fc.pkg.TypesInfo
	sig := callee.Type().(*types.Signature)
	if sig.TypeParams() != nil || sig.RecvTypeParams() != nil || sig.Variadic() || sig.Results().Len() != 1 {
		return "", false
	}
	if len(fd.Body.List) != 1 || len(call.Args) != sig.Params().Len() {
		return "", false
	}
	ret, ok := fd.Body.List[0].(*ast.ReturnStmt)
	if !ok || len(ret.Results) != 1 {
		return "", false
	}
	if fd.Type.Results != nil && len(fd.Type.Results.List) == 1 && len(fd.Type.Results.List[0].Names) > 0 {
		return "", false // named result
	}
	pure := func(e ast.Expr) bool {
		ok := true
		ast.Inspect(e, func(n ast.Node) bool {
			switch x := n.(type) {
			case *ast.CallExpr:
				if tv, isT := info.Types[x.Fun]; isT && tv.IsType() {
					return true
				}
				if id, isId := x.Fun.(*ast.Ident); isId {
					if _, isB := info.Uses[id].(*types.Builtin); isB && (id.Name == "len" || id.Name == "cap") {
						return true
					}
				}
				ok = false
			case *ast.FuncLit:
				ok = false
			case *ast.UnaryExpr:
				if x.Op == token.ARROW {
					ok = false
				}
			}
			return ok
		})
		return ok
	}
	subst := map[types.Object]string{}
	if fd.Recv != nil && len(fd.Recv.List) == 1 {
		sel, isSel := call.Fun.(*ast.SelectorExpr)
		if !isSel || !pure(sel.X) {
			return "", false
		}
		selInfo := info.Selections[sel]
		if selInfo == nil || len(selInfo.Index()) != 1 {
			return "", false
		}
		rx := fc.text(sel.X)
		_, recvPtr := sig.Recv().Type().(*types.Pointer)
		_, argPtr := info.TypeOf(sel.X).Underlying().(*types.Pointer)
		switch {
		case recvPtr && !argPtr:
			rx = "(&" + rx + ")"
		case !recvPtr && argPtr:
			rx = "(*" + rx + ")"
		default:
			rx = "(" + rx + ")"
		}
		if len(fd.Recv.List[0].Names) == 1 {
			if obj := info.Defs[fd.Recv.List[0].Names[0]]; obj != nil {
				subst[obj] = rx
			}
		}
	} else if _, isSel := call.Fun.(*ast.SelectorExpr); isSel {
		return "", false
	}
	pi := 0
	for _, fld := range fd.Type.Params.List {
		if len(fld.Names) == 0 {
			if !pure(call.Args[pi]) {
				return "", false
			}
			pi++
			continue
		}
		for _, nm := range fld.Names {
			if !pure(call.Args[pi]) {
				return "", false
			}
			// a parameter of interface type bound to a concrete argument changes the static
			// type seen by the expression: keep the conversion explicit
			arg := "(" + fc.text(call.Args[pi]) + ")"
			pt := sig.Params().At(pi).Type()
			if at := info.TypeOf(call.Args[pi]); at != nil && !types.Identical(at, pt) {
				qual := func(p *types.Package) string {
					if p == fc.pkg.Types {
						return ""
					}
					return fc.importName(p.Path(), p.Name())
				}
				arg = "(" + types.TypeString(pt, qual) + ")" + arg
				if _, isPtr := pt.(*types.Pointer); isPtr {
					arg = "((" + types.TypeString(pt, qual) + ")" + "(" + fc.text(call.Args[pi]) + "))"
				}
			}
			if obj := info.Defs[nm]; obj != nil {
				subst[obj] = arg
			}
			pi++
		}
	}
	if why := fc.captureProblem(fd, call.Pos()); why != "" {
		return "", false
	}
	if bodyObstacle(fd, info, callee) != "" {
		return "", false
	}
	// private copy of the expression
	var srcBuf bytes.Buffer
	if err := printer.Fprint(&srcBuf, fc.pkg.Fset, ret.Results[0]); err != nil {
		return "", false
	}
	fset := token.NewFileSet()
	ex, err := parser.ParseExprFrom(fset, "expr.go", srcBuf.String(), 0)
	if err != nil {
		return "", false
	}
	var orig, dup []*ast.Ident
	ast.Inspect(ret.Results[0], func(n ast.Node) bool {
		if id, ok := n.(*ast.Ident); ok {
			orig = append(orig, id)
		}
		return true
	})
	ast.Inspect(ex, func(n ast.Node) bool {
		if id, ok := n.(*ast.Ident); ok {
			dup = append(dup, id)
		}
		return true
	})
	if len(orig) != len(dup) {
		return "", false
	}
	for i, id := range orig {
		if dup[i].Name != id.Name {
			return "", false
		}
		if pn, ok := info.Uses[id].(*types.PkgName); ok {
			dup[i].Name = fc.importName(pn.Imported().Path(), pn.Imported().Name())
			continue
		}
		if obj := info.Uses[id]; obj != nil {
			if txt, ok := subst[obj]; ok {
				dup[i].Name = txt
			}
		}
	}
	var out bytes.Buffer
	if err := printer.Fprint(&out, fset, ex); err != nil {
		return "", false
	}
	txt := strings.ReplaceAll(out.String(), "\n", " ")
	return "(" + txt + ")", true
}

// ---- one call site --------------------------------------------------------------------------------

// inlineAt records the edits that inline `call` (to callee, declared by fd in file calleeFile)
// occurring in statement s. It returns a non-empty reason when the site is left alone.
func (fc *fileCtx) inlineAt(s ast.Stmt, call *ast.CallExpr, callee *types.Func, fd *ast.FuncDecl, calleeFile *ast.File) string {
	info := fc.pkg.TypesInfo
	sig := callee.Type().(*types.Signature)
	if sig.TypeParams() != nil || sig.RecvTypeParams() != nil {
		return "generic function"
	}
	if sig.Variadic() {
		return "variadic function"
	}
	if len(call.Args) != sig.Params().Len() {
		return "argument list is a multi-value call"
	}
	_, isDefer := s.(*ast.DeferStmt)
	_, isGo := s.(*ast.GoStmt)
	// (a deferred helper becomes the body of a deferred function literal: its own defers, and a
	// recover() it calls directly, keep their meaning there)
	if why := bodyObstacle(fd, info, callee); why != "" && !((isDefer || isGo) && why == "helper uses defer") && !(isDefer && why == "helper uses recover") {
		return why
	}
	// the statement must start its line and end its line (we splice whole lines)
	sStart, sEnd := fc.off(s.Pos()), fc.off(s.End())
	ls := lineStart(fc.src, sStart)
	if strings.TrimSpace(string(fc.src[ls:sStart])) != "" {
		return "statement does not start its line"
	}
	*fc.counter++
	k := *fc.counter
	tag := fmt.Sprintf("wvsa%d", k)

	// --- receiver and arguments
	type binding struct{ name, expr string }
	var binds []binding
	if fd.Recv != nil && len(fd.Recv.List) == 1 {
		sel, ok := call.Fun.(*ast.SelectorExpr)
		if !ok {
			return "method value call"
		}
		selInfo := info.Selections[sel]
		if selInfo == nil || len(selInfo.Index()) != 1 {
			return "promoted method"
		}
		rname := "_"
		if len(fd.Recv.List[0].Names) == 1 {
			rname = fd.Recv.List[0].Names[0].Name
		}
		rx := fc.text(sel.X)
		_, recvPtr := sig.Recv().Type().(*types.Pointer)
		_, argPtr := info.TypeOf(sel.X).Underlying().(*types.Pointer)
		switch {
		case recvPtr && !argPtr:
			rx = "&(" + rx + ")"
		case !recvPtr && argPtr:
			rx = "*(" + rx + ")"
		}
		binds = append(binds, binding{rname, rx})
	} else if _, isSel := call.Fun.(*ast.SelectorExpr); isSel {
		return "qualified call"
	}
	qual := func(p *types.Package) string {
		if p == fc.pkg.Types {
			return ""
		}
		return fc.importName(p.Path(), p.Name())
	}
	pi := 0
	for _, fld := range fd.Type.Params.List {
		names := fld.Names
		if len(names) == 0 {
			names = []*ast.Ident{{Name: "_"}}
		}
		for _, nm := range names {
			ax := fc.text(call.Args[pi])
			// an untyped constant (or nil) takes the parameter's type, not its default type
			// (`math.MaxUint64` bound to a uint64 parameter would overflow int)
			if tv, ok := fc.pkg.TypesInfo.Types[call.Args[pi]]; ok && (tv.Value != nil || tv.IsNil()) {
				ax = "(" + types.TypeString(sig.Params().At(pi).Type(), qual) + ")(" + ax + ")"
			}
			binds = append(binds, binding{nm.Name, ax})
			pi++
		}
	}
	// --- results
	type resv struct{ name, typ string }
	var results []resv
	ri := 0
	if fd.Type.Results != nil {
		for _, fld := range fd.Type.Results.List {
			names := fld.Names
			if len(names) == 0 {
				names = []*ast.Ident{nil}
			}
			for _, nm := range names {
				name := fmt.Sprintf("%sr%d", tag, ri)
				if nm != nil && nm.Name != "_" {
					name = nm.Name
				}
				results = append(results, resv{name, types.TypeString(sig.Results().At(ri).Type(), qual)})
				ri++
			}
		}
	}
	// --- name capture: package-level and universe names used by the body must mean the same
	// thing at the call site
	if why := fc.captureProblem(fd, s.Pos()); why != "" {
		return why
	}
	// --- body text with returns rewritten
	label := tag + "L"
	asClosure := false
	switch s.(type) {
	case *ast.DeferStmt, *ast.GoStmt:
		asClosure = true
	}
	var resNames []string
	for _, r := range results {
		resNames = append(resNames, r.name)
	}
	var resKinds []string
	for i := 0; i < sig.Results().Len(); i++ {
		k := ""
		switch t := sig.Results().At(i).Type().Underlying().(type) {
		case *types.Basic:
			if t.Info()&types.IsBoolean != 0 {
				k = "bool"
			}
		case *types.Interface:
			// only the error result of the (value, error) idiom: refining pointers would turn a
			// value the caller merely passes on into a phi with nil
			if sig.Results().At(i).Type().String() == "error" {
				k = "nilable"
			}
		}
		resKinds = append(resKinds, k)
	}
	body, err := fc.bodyText(fd, calleeFile, resNames, resKinds, label, tag, asClosure)
	if err != nil {
		return "cannot print body: " + err.Error()
	}
	calleePos := fc.pkg.Fset.Position(fd.Body.Lbrace)

	// --- assemble the inlined block
	var b strings.Builder
	argNames := make([]string, len(binds))
	if len(binds) > 0 {
		var an, ax []string
		for i, bd := range binds {
			argNames[i] = fmt.Sprintf("%sa%d", tag, i)
			an = append(an, argNames[i])
			ax = append(ax, bd.expr)
		}
		fmt.Fprintf(&b, "%s := %s\n", strings.Join(an, ", "), strings.Join(ax, ", "))
	}
	emitBody := func(indentOpen string) {
		if len(binds) > 0 {
			var pn []string
			for _, bd := range binds {
				pn = append(pn, bd.name)
			}
			allBlank := true
			for _, n := range pn {
				if n != "_" {
					allBlank = false
				}
			}
			if allBlank {
				fmt.Fprintf(&b, "_ = %s\n", strings.Join(argNames, "\n_ = "))
			} else {
				fmt.Fprintf(&b, "%s := %s\n", strings.Join(pn, ", "), strings.Join(argNames, ", "))
				for _, n := range pn {
					if n != "_" {
						fmt.Fprintf(&b, "_ = %s\n", n)
					}
				}
			}
		}
	}
	// what the statement becomes
	singleTmp := "" // name of the temporary that replaces the call expression inside s
	switch x := s.(type) {
	case *ast.DeferStmt, *ast.GoStmt:
		kw := "defer"
		if _, ok := x.(*ast.GoStmt); ok {
			kw = "go"
		}
		fmt.Fprintf(&b, "%s func() {\n", kw)
		emitBody("")
		for _, r := range results {
			fmt.Fprintf(&b, "var %s %s\n_ = %s\n", r.name, r.typ, r.name)
		}
		fmt.Fprintf(&b, "//line %s:%d\n%s\n}()\n", calleePos.Filename, calleePos.Line, body)
		fc.replaceLines(s, b.String())
		return ""
	}
	// is the call the whole right-hand side of an assignment / the whole expression statement /
	// the whole return list?
	whole := false
	var lhs []ast.Expr
	define := false
	isReturn := false
	var ifInit *ast.IfStmt
	formStmt := s
	if ifs, ok := s.(*ast.IfStmt); ok && ifs.Init != nil && call.Pos() >= ifs.Init.Pos() && call.End() <= ifs.Init.End() {
		ifInit = ifs
		formStmt = ifs.Init
	}
	switch x := formStmt.(type) {
	case *ast.ExprStmt:
		whole = ast.Unparen(x.X) == ast.Expr(call)
	case *ast.AssignStmt:
		if len(x.Rhs) == 1 && ast.Unparen(x.Rhs[0]) == ast.Expr(call) && (x.Tok == token.DEFINE || x.Tok == token.ASSIGN) {
			whole, lhs, define = true, x.Lhs, x.Tok == token.DEFINE
		}
	case *ast.ReturnStmt:
		if len(x.Results) == 1 && ast.Unparen(x.Results[0]) == ast.Expr(call) {
			whole, isReturn = true, true
		}
	}
	if !whole && len(results) != 1 {
		return "multi-value call inside a larger expression"
	}
	if whole && len(lhs) > 0 && len(lhs) != len(results) {
		return "assignment count mismatch"
	}
	// declarations of variables the statement defines
	if whole && define {
		for i, l := range lhs {
			id, ok := l.(*ast.Ident)
			if !ok {
				return "non-identifier on the left of :="
			}
			if id.Name == "_" {
				continue
			}
			if obj := info.Defs[id]; obj != nil {
				fmt.Fprintf(&b, "var %s %s\n", id.Name, results[i].typ)
			}
		}
	}
	b.WriteString("{\n")
	emitBody("")
	for _, r := range results {
		fmt.Fprintf(&b, "var %s %s\n_ = %s\n", r.name, r.typ, r.name)
	}
	fmt.Fprintf(&b, "%s:\nfor {\n//line %s:%d\n%s\nbreak %s\n}\n", label, calleePos.Filename, calleePos.Line, body, label)
	switch {
	case whole && isReturn:
		fmt.Fprintf(&b, "return %s\n}\n", strings.Join(resNames, ", "))
		fc.replaceLines(s, b.String())
		return ""
	case whole && len(lhs) > 0:
		var ls []string
		for _, l := range lhs {
			ls = append(ls, fc.text(l))
		}
		fmt.Fprintf(&b, "%s = %s\n}\n", strings.Join(ls, ", "), strings.Join(resNames, ", "))
		if ifInit != nil {
			fc.wrapIf(ifInit, b.String())
			return ""
		}
		fc.replaceLines(s, b.String())
		return ""
	case whole:
		b.WriteString("}\n")
		if ifInit != nil {
			fc.wrapIf(ifInit, b.String())
			return ""
		}
		fc.replaceLines(s, b.String())
		return ""
	}
	if ifInit != nil {
		return "call inside an if-init clause that is not a plain assignment"
	}
	// the call is part of a larger expression: compute it into a temporary declared before s
	singleTmp = tag + "v"
	pre := fmt.Sprintf("var %s %s\n", singleTmp, results[0].typ)
	fmt.Fprintf(&b, "%s = %s\n}\n", singleTmp, resNames[0])
	text := pre + b.String()
	if ifs, ok := s.(*ast.IfStmt); ok && ifs.Init != nil {
		// variables of the init clause may be used by the call: open a block, run the init,
		// compute the temporary, then test
		iStart, cStart := fc.off(ifs.Pos()), fc.off(ifs.Cond.Pos())
		initText := fc.text(ifs.Init)
		// if the call is inside the init itself, the init has been handled as its own statement
		if call.Pos() >= ifs.Init.Pos() && call.End() <= ifs.Init.End() {
			return "call inside an if-init clause that is not a plain assignment"
		}
		line := fc.tf.Line(ifs.Pos())
		head := "{\n" + initText + "\n" + text + fmt.Sprintf("//line %s:%d\n", fc.name, line) + "if "
		fc.edits = append(fc.edits, edit{group: *fc.counter, start: iStart, end: cStart, text: head})
		fc.edits = append(fc.edits, edit{group: *fc.counter, start: fc.off(call.Pos()), end: fc.off(call.End()), text: singleTmp})
		fc.edits = append(fc.edits, edit{group: *fc.counter, start: sEnd, end: sEnd, text: "\n}"})
		fc.resync(sEnd)
		return ""
	}
	line := fc.tf.Line(s.Pos())
	fc.edits = append(fc.edits, edit{group: *fc.counter, start: ls, end: ls, text: text + fmt.Sprintf("//line %s:%d\n", fc.name, line)})
	fc.edits = append(fc.edits, edit{group: *fc.counter, start: fc.off(call.Pos()), end: fc.off(call.End()), text: singleTmp})
	if fc.tf.Line(call.End()) != fc.tf.Line(call.Pos()) {
		fc.resync(sEnd)
	}
	return ""
}

// wrapIf turns `if INIT; COND {…}` into `{ <text replacing INIT>; if COND {…} }`.
func (fc *fileCtx) wrapIf(ifs *ast.IfStmt, text string) {
	iStart, cStart, sEnd := fc.off(ifs.Pos()), fc.off(ifs.Cond.Pos()), fc.off(ifs.End())
	line := fc.tf.Line(ifs.Cond.Pos())
	fc.edits = append(fc.edits, edit{group: *fc.counter, start: iStart, end: cStart, text: "{\n" + text + fmt.Sprintf("//line %s:%d\n", fc.name, line) + "if "})
	fc.edits = append(fc.edits, edit{group: *fc.counter, start: sEnd, end: sEnd, text: "\n}"})
	fc.resync(sEnd)
}

// replaceLines replaces statement s (whole lines) by text and resynchronises line numbers.
func (fc *fileCtx) replaceLines(s ast.Stmt, text string) {
	sStart, sEnd := fc.off(s.Pos()), fc.off(s.End())
	ls := lineStart(fc.src, sStart)
	le := lineEnd(fc.src, sEnd)
	nextLine := fc.tf.Line(s.End()) + 1
	fc.edits = append(fc.edits, edit{group: *fc.counter, start: ls, end: le, text: text + fmt.Sprintf("//line %s:%d", fc.name, nextLine)})
}

// resync inserts a //line directive after the line that contains offset off.
func (fc *fileCtx) resync(off int) {
	le := lineEnd(fc.src, off)
	line := fc.tf.Line(fc.tf.Pos(off)) + 1
	fc.edits = append(fc.edits, edit{group: *fc.counter, start: le, end: le, text: fmt.Sprintf("\n//line %s:%d", fc.name, line), prio: 9})
}

func lineStart(src []byte, off int) int {
	for off > 0 && src[off-1] != '\n' {
		off--
	}
	return off
}

func lineEnd(src []byte, off int) int {
	for off < len(src) && src[off] != '\n' {
		off++
	}
	return off
}

func (fc *fileCtx) off(p token.Pos) int { return fc.tf.Offset(p) }

func (fc *fileCtx) text(n ast.Node) string {
	return string(fc.src[fc.off(n.Pos()):fc.off(n.End())])
}

func (fc *fileCtx) importName(path, defName string) string {
	if n, ok := fc.imports[path]; ok {
		return n
	}
	if n, ok := fc.addImp[path]; ok {
		return n
	}
	n := fmt.Sprintf("wvsaimp%d_%s", len(fc.addImp), defName)
	fc.addImp[path] = n
	return n
}

// bodyObstacle lists constructs that make a body unsuitable for inlining.
func bodyObstacle(fd *ast.FuncDecl, info *types.Info, self *types.Func) string {
	why := ""
	var walk func(n ast.Node) bool
	walk = func(n ast.Node) bool {
		switch x := n.(type) {
		case *ast.FuncLit:
			return false
		case *ast.DeferStmt:
			why = "helper uses defer"
		case *ast.BranchStmt:
			if x.Tok == token.GOTO {
				why = "helper uses goto"
			}
		case *ast.CallExpr:
			if id, ok := x.Fun.(*ast.Ident); ok {
				if _, isB := info.Uses[id].(*types.Builtin); isB && id.Name == "recover" {
					why = "helper uses recover"
				}
			}
		case *ast.Ident:
			if info.Uses[x] == types.Object(self) {
				why = "recursive helper"
			}
		}
		return why == ""
	}
	ast.Inspect(fd.Body, walk)
	return why
}

// captureProblem: a package-level or universe name used by the helper's body is shadowed at the
// call site.
func (fc *fileCtx) captureProblem(fd *ast.FuncDecl, at token.Pos) string {
	info := fc.pkg.TypesInfo
	inner := fc.pkg.Types.Scope().Innermost(at)
	if inner == nil {
		return "no scope at call site"
	}
	why := ""
	ast.Inspect(fd.Body, func(n ast.Node) bool {
		id, ok := n.(*ast.Ident)
		if !ok || why != "" {
			return why == ""
		}
		obj := info.Uses[id]
		if obj == nil {
			return true
		}
		if _, isPkg := obj.(*types.PkgName); isPkg {
			return true // rewritten to the caller file's import name
		}
		if obj.Parent() == fc.pkg.Types.Scope() || obj.Parent() == types.Universe {
			_, found := inner.LookupParent(id.Name, at)
			if found != nil && found != obj {
				why = "name " + id.Name + " is shadowed at the call site"
			}
		}
		return true
	})
	return why
}

// bodyText prints the helper's body (without the outer braces) with: returns rewritten into
// assignments to the result variables followed by `break label` (or a plain return inside a
// closure), labels made unique, and imported package names rewritten to the names in use in the
// caller's file.
func (fc *fileCtx) bodyText(fd *ast.FuncDecl, calleeFile *ast.File, results []string, resKinds []string, label, tag string, asClosure bool) (string, error) {
	info := fc.pkg.TypesInfo
	ctf := fc.pkg.Fset.File(fd.Pos())
	// re-parse a private copy of the body
	var srcBuf bytes.Buffer
	if err := printer.Fprint(&srcBuf, fc.pkg.Fset, fd.Body); err != nil {
		return "", err
	}
	_ = ctf
	wrapped := "package p\nfunc _() " + srcBuf.String() + "\n"
	fset := token.NewFileSet()
	pf, err := parser.ParseFile(fset, "body.go", wrapped, parser.ParseComments)
	if err != nil {
		return "", err
	}
	cp := pf.Decls[0].(*ast.FuncDecl).Body
	// pair identifiers of the copy with the originals (same order)
	var orig, dup []*ast.Ident
	ast.Inspect(fd.Body, func(n ast.Node) bool {
		if id, ok := n.(*ast.Ident); ok {
			orig = append(orig, id)
		}
		return true
	})
	ast.Inspect(cp, func(n ast.Node) bool {
		if id, ok := n.(*ast.Ident); ok {
			dup = append(dup, id)
		}
		return true
	})
	if len(orig) != len(dup) {
		return "", fmt.Errorf("identifier count mismatch after re-parse (%d vs %d)", len(orig), len(dup))
	}
	for i, id := range orig {
		if dup[i].Name != id.Name {
			return "", fmt.Errorf("identifier order mismatch after re-parse")
		}
		if pn, ok := info.Uses[id].(*types.PkgName); ok {
			dup[i].Name = fc.importName(pn.Imported().Path(), pn.Imported().Name())
		}
	}
	// labels
	labels := map[string]bool{}
	ast.Inspect(cp, func(n ast.Node) bool {
		if ls, ok := n.(*ast.LabeledStmt); ok {
			labels[ls.Label.Name] = true
		}
		return true
	})
	ast.Inspect(cp, func(n ast.Node) bool {
		switch x := n.(type) {
		case *ast.LabeledStmt:
			x.Label.Name = x.Label.Name + "_" + tag
		case *ast.BranchStmt:
			if x.Label != nil && labels[x.Label.Name] {
				x.Label.Name = x.Label.Name + "_" + tag
			}
		}
		return true
	})
	// returns (not inside function literals)
	depth := 0
	var stack []ast.Node
	// knownNonNilHere: the return sits directly in `if id != nil { … }`
	guardedNonNil := func(id string) bool {
		for i := len(stack) - 2; i >= 0; i-- { // stack top is the return statement itself
			if ifs, ok := stack[i].(*ast.IfStmt); ok {
				if be, ok := ifs.Cond.(*ast.BinaryExpr); ok && be.Op == token.NEQ {
					if x, ok := be.X.(*ast.Ident); ok && x.Name == id {
						if y, ok := be.Y.(*ast.Ident); ok && y.Name == "nil" {
							// only when we are in the then-branch
							if i+1 < len(stack) && stack[i+1] == ast.Node(ifs.Body) {
								return true
							}
						}
					}
				}
				return false
			}
			if _, ok := stack[i].(*ast.BlockStmt); !ok {
				return false
			}
		}
		return false
	}
	astutil.Apply(cp, func(c *astutil.Cursor) bool {
		if c.Node() != nil {
			stack = append(stack, c.Node())
		}
		switch x := c.Node().(type) {
		case *ast.FuncLit:
			depth++
			_ = x
		case *ast.ReturnStmt:
			if depth > 0 {
				return true
			}
			var list []ast.Stmt
			if len(x.Results) > 0 {
				if len(results) == 0 {
					return true
				}
				var lhs []ast.Expr
				for _, r := range results {
					lhs = append(lhs, ast.NewIdent(r))
				}
				singleBool := !asClosure && len(results) == 1 && len(x.Results) == 1 && len(resKinds) == 1 && resKinds[0] == "bool"
				if id, ok := x.Results[0].(*ast.Ident); ok && (id.Name == "true" || id.Name == "false") {
					singleBool = false
				}
				if singleBool {
					// `return a || b` becomes `if a || b { r = true } else { r = false }`: the
					// compiler's short-circuit control flow then gives every comparison its own
					// branch edge, exactly as if the condition had been written at the call site
					list = append(list, &ast.IfStmt{Cond: x.Results[0],
						Body: &ast.BlockStmt{List: []ast.Stmt{&ast.AssignStmt{Lhs: lhs, Tok: token.ASSIGN, Rhs: []ast.Expr{ast.NewIdent("true")}}}},
						Else: &ast.BlockStmt{List: []ast.Stmt{&ast.AssignStmt{Lhs: lhs, Tok: token.ASSIGN, Rhs: []ast.Expr{ast.NewIdent("false")}}}}})
				} else {
					list = append(list, &ast.AssignStmt{Lhs: lhs, Tok: token.ASSIGN, Rhs: x.Results})
				}
				// make the returned truth value / nil-ness explicit in control flow, so that the
				// test the caller applies to the result after the join can be threaded back to
				// this return: `r = E` becomes `r = E; if r { r = true } else { r = false }`
				// (booleans) or `if r != nil { r = r } else { r = nil }` (errors, pointers)
				if !asClosure && !singleBool {
					for i, r := range results {
						if i >= len(resKinds) {
							break
						}
						if len(x.Results) == len(results) {
							if id, ok := x.Results[i].(*ast.Ident); ok && (id.Name == "true" || id.Name == "false" || id.Name == "nil" || guardedNonNil(id.Name)) {
								continue
							}
							if ce, ok := x.Results[i].(*ast.CallExpr); ok {
								if se, ok := ce.Fun.(*ast.SelectorExpr); ok {
									if pk, ok := se.X.(*ast.Ident); ok && (pk.Name == "errors" && se.Sel.Name == "New" || pk.Name == "fmt" && se.Sel.Name == "Errorf" || pk.Name == "status" && (se.Sel.Name == "Error" || se.Sel.Name == "Errorf")) {
										continue
									}
								}
							}
						}
						switch resKinds[i] {
						case "bool":
							list = append(list, &ast.IfStmt{Cond: ast.NewIdent(r),
								Body: &ast.BlockStmt{List: []ast.Stmt{&ast.AssignStmt{Lhs: []ast.Expr{ast.NewIdent(r)}, Tok: token.ASSIGN, Rhs: []ast.Expr{ast.NewIdent("true")}}}},
								Else: &ast.BlockStmt{List: []ast.Stmt{&ast.AssignStmt{Lhs: []ast.Expr{ast.NewIdent(r)}, Tok: token.ASSIGN, Rhs: []ast.Expr{ast.NewIdent("false")}}}}})
						case "nilable":
							list = append(list, &ast.IfStmt{Cond: &ast.BinaryExpr{X: ast.NewIdent(r), Op: token.NEQ, Y: ast.NewIdent("nil")},
								Body: &ast.BlockStmt{List: []ast.Stmt{&ast.AssignStmt{Lhs: []ast.Expr{ast.NewIdent(r)}, Tok: token.ASSIGN, Rhs: []ast.Expr{ast.NewIdent(r)}}}},
								Else: &ast.BlockStmt{List: []ast.Stmt{&ast.AssignStmt{Lhs: []ast.Expr{ast.NewIdent(r)}, Tok: token.ASSIGN, Rhs: []ast.Expr{ast.NewIdent("nil")}}}}})
						}
					}
				}
			}
			if asClosure {
				list = append(list, &ast.ReturnStmt{})
			} else {
				list = append(list, &ast.BranchStmt{Tok: token.BREAK, Label: ast.NewIdent(label)})
			}
			c.Replace(&ast.BlockStmt{List: list})
			stack = stack[:len(stack)-1]
			return false
		}
		return true
	}, func(c *astutil.Cursor) bool {
		if c.Node() != nil && len(stack) > 0 {
			stack = stack[:len(stack)-1]
		}
		if _, ok := c.Node().(*ast.FuncLit); ok {
			depth--
		}
		return true
	})
	var out bytes.Buffer
	cfg := printer.Config{Mode: printer.UseSpaces | printer.TabIndent, Tabwidth: 8}
	if err := cfg.Fprint(&out, fset, cp); err != nil {
		return "", err
	}
	txt := strings.TrimSpace(out.String())
	txt = strings.TrimPrefix(txt, "{")
	txt = strings.TrimSuffix(txt, "}")
	return strings.Trim(txt, "\n"), nil
}

// apply produces the new file content.
func (fc *fileCtx) apply() ([]byte, error) {
	// imports to add
	if len(fc.addImp) > 0 {
		var paths []string
		for p := range fc.addImp {
			paths = append(paths, p)
		}
		sort.Strings(paths)
		var b strings.Builder
		for _, p := range paths {
			fmt.Fprintf(&b, "import %s %q\n", fc.addImp[p], p)
		}
		// after the last import declaration (or the package clause)
		at := fc.off(fc.file.Name.End())
		for _, d := range fc.file.Decls {
			if gd, ok := d.(*ast.GenDecl); ok && gd.Tok == token.IMPORT {
				at = fc.off(gd.End())
			}
		}
		le := lineEnd(fc.src, at)
		line := fc.tf.Line(fc.tf.Pos(le)) + 1
		fc.edits = append(fc.edits, edit{group: 0, start: le, end: le, text: "\n" + b.String() + fmt.Sprintf("//line %s:%d", fc.name, line)})
	}
	// drop every call site whose span intersects the span of a site that starts earlier (a call
	// nested in a statement that is itself being rewritten): the next round sees it
	type span struct{ lo, hi int }
	spans := map[int]*span{}
	var order []int
	for _, e := range fc.edits {
		if e.group == 0 {
			continue
		}
		sp := spans[e.group]
		if sp == nil {
			sp = &span{e.start, e.end}
			spans[e.group] = sp
			order = append(order, e.group)
		}
		if e.start < sp.lo {
			sp.lo = e.start
		}
		if e.end > sp.hi {
			sp.hi = e.end
		}
	}
	sort.SliceStable(order, func(i, j int) bool {
		a, b := spans[order[i]], spans[order[j]]
		if a.lo != b.lo {
			return a.lo < b.lo
		}
		return a.hi > b.hi
	})
	var accepted []*span
	dropped := map[int]bool{}
	for _, g := range order {
		sp := spans[g]
		clash := false
		for _, a := range accepted {
			if sp.lo <= a.hi && a.lo <= sp.hi {
				clash = true
			}
		}
		if clash {
			dropped[g] = true
		} else {
			accepted = append(accepted, sp)
		}
	}
	var kept []edit
	for _, e := range fc.edits {
		if !dropped[e.group] {
			kept = append(kept, e)
		}
	}
	fc.edits = kept
	sort.SliceStable(fc.edits, func(i, j int) bool {
		if fc.edits[i].start != fc.edits[j].start {
			return fc.edits[i].start < fc.edits[j].start
		}
		if (fc.edits[i].end == fc.edits[i].start) != (fc.edits[j].end == fc.edits[j].start) {
			return fc.edits[i].end == fc.edits[i].start // insertions before replacements at the same offset
		}
		return fc.edits[i].prio < fc.edits[j].prio
	})
	var out bytes.Buffer
	cur := 0
	for _, e := range fc.edits {
		if e.start < cur {
			return nil, fmt.Errorf("inline: overlapping edits in %s at offset %d", fc.name, e.start)
		}
		out.Write(fc.src[cur:e.start])
		out.WriteString(e.text)
		cur = e.end
	}
	out.Write(fc.src[cur:])
	return out.Bytes(), nil
}
