package cparse

import (
	"fmt"
	"strings"
)

// Statements -----------------------------------------------------------------------------------

type Stmt interface{}

type Let struct {
	Names []string // tuple destructuring gives several
	X     Expr
	Line  int
}
type Assign struct {
	Target Expr
	Op     string // "=", "+=", …
	X      Expr
	Line   int
}
type ExprStmt struct {
	X    Expr
	Line int
}
type For struct {
	Init, Post Stmt
	Cond       Expr
	Body       []Stmt
	Line       int
}
type If struct {
	Cond       Expr
	Then, Else []Stmt
	Line       int
}
type Return struct {
	Xs   []Expr
	Line int
}
type Emit struct {
	Name string
	Args []Expr
	Line int
}
type While struct {
	Cond Expr
	Body []Stmt
	Line int
}

type Func struct {
	Name   string
	Params []string
	Body   []Stmt
	Line   int
}

type Event struct {
	Name   string
	Fields []string
}

type Contract struct {
	Name   string
	Fields []string
	Consts map[string]Expr
	Enums  map[string]map[string]Expr
	Events map[string]Event
	Funcs  map[string]*Func
}

// ParseRalph parses a Ralph source file into its contracts.
func ParseRalph(src string) (map[string]*Contract, error) {
	toks, err := Lex(src, true)
	if err != nil {
		return nil, err
	}
	p := &Parser{T: toks, Ralph: true}
	out := map[string]*Contract{}
	for p.peek().K != EOF {
		t := p.next()
		if t.K != IDENT {
			continue
		}
		switch t.S {
		case "Contract", "TxScript", "Interface":
			c, err := p.ralphContract()
			if err != nil {
				return nil, err
			}
			out[c.Name] = c
		}
	}
	return out, nil
}

func (p *Parser) paramNames() ([]string, error) {
	if err := p.expect("("); err != nil {
		return nil, err
	}
	var names []string
	depth := 1
	expectName := true
	for depth > 0 {
		t := p.next()
		if t.K == EOF {
			return nil, fmt.Errorf("unbalanced parameter list")
		}
		switch {
		case t.K == OP && (t.S == "(" || t.S == "["):
			depth++
		case t.K == OP && (t.S == ")" || t.S == "]"):
			depth--
		case t.K == OP && t.S == "," && depth == 1:
			expectName = true
		case t.K == OP && t.S == "@": // @unused
			p.next()
		case t.K == IDENT && expectName && depth == 1:
			if t.S == "mut" {
				continue
			}
			if p.is(":") {
				names = append(names, t.S)
				expectName = false
			}
		}
	}
	return names, nil
}

func (p *Parser) ralphContract() (*Contract, error) {
	nt := p.next()
	if nt.K != IDENT {
		return nil, fmt.Errorf("line %d: contract name expected", nt.Line)
	}
	c := &Contract{Name: nt.S, Consts: map[string]Expr{}, Enums: map[string]map[string]Expr{}, Events: map[string]Event{}, Funcs: map[string]*Func{}}
	if p.is("(") {
		f, err := p.paramNames()
		if err != nil {
			return nil, err
		}
		c.Fields = f
	}
	// extends/implements clauses up to "{"
	for !p.is("{") {
		if p.peek().K == EOF {
			return nil, fmt.Errorf("contract %s: body not found", c.Name)
		}
		if p.is("(") {
			if err := p.skipBalanced("(", ")"); err != nil {
				return nil, err
			}
			continue
		}
		p.next()
	}
	p.next() // {
	for !p.is("}") {
		t := p.next()
		switch {
		case t.K == EOF:
			return nil, fmt.Errorf("contract %s: unterminated body", c.Name)
		case t.K == OP && t.S == "@":
			p.next() // using
			if p.is("(") {
				if err := p.skipBalanced("(", ")"); err != nil {
					return nil, err
				}
			}
		case t.K == IDENT && t.S == "event":
			n := p.next()
			f, err := p.paramNames()
			if err != nil {
				return nil, err
			}
			c.Events[n.S] = Event{n.S, f}
		case t.K == IDENT && t.S == "const":
			n := p.next()
			if err := p.expect("="); err != nil {
				return nil, err
			}
			e, err := p.Expr()
			if err != nil {
				return nil, err
			}
			c.Consts[n.S] = e
		case t.K == IDENT && t.S == "enum":
			n := p.next()
			if err := p.expect("{"); err != nil {
				return nil, err
			}
			m := map[string]Expr{}
			for !p.is("}") {
				k := p.next()
				if err := p.expect("="); err != nil {
					return nil, err
				}
				e, err := p.Expr()
				if err != nil {
					return nil, err
				}
				m[k.S] = e
			}
			p.next()
			c.Enums[n.S] = m
		case t.K == IDENT && t.S == "pub":
			// followed by fn
		case t.K == IDENT && t.S == "fn":
			n := p.next()
			f := &Func{Name: n.S, Line: n.Line}
			ps, err := p.paramNames()
			if err != nil {
				return nil, err
			}
			f.Params = ps
			// return types: -> ( ... ) or -> T
			if p.accept("->") {
				if p.is("(") {
					if err := p.skipBalanced("(", ")"); err != nil {
						return nil, err
					}
				} else {
					p.next()
				}
			}
			if p.is("{") {
				b, err := p.ralphBlock()
				if err != nil {
					return nil, fmt.Errorf("fn %s.%s: %w", c.Name, f.Name, err)
				}
				f.Body = b
			}
			c.Funcs[f.Name] = f
		default:
			// TxScript bodies contain statements directly; they are not needed
			if t.K == OP && t.S == "{" {
				p.P--
				if err := p.skipBalanced("{", "}"); err != nil {
					return nil, err
				}
			}
		}
	}
	p.next()
	return c, nil
}

func (p *Parser) ralphBlock() ([]Stmt, error) {
	if err := p.expect("{"); err != nil {
		return nil, err
	}
	var out []Stmt
	for !p.is("}") {
		if p.peek().K == EOF {
			return nil, fmt.Errorf("unterminated block")
		}
		s, err := p.ralphStmt()
		if err != nil {
			return nil, err
		}
		out = append(out, s)
	}
	p.next()
	return out, nil
}

func (p *Parser) ralphStmt() (Stmt, error) {
	t := p.peek()
	line := t.Line
	if t.K == IDENT {
		switch t.S {
		case "let":
			p.next()
			var names []string
			if p.accept("(") {
				for !p.is(")") {
					n := p.next()
					if n.S == "mut" {
						n = p.next()
					}
					names = append(names, n.S)
					p.accept(",")
				}
				p.next()
			} else {
				n := p.next()
				if n.S == "mut" {
					n = p.next()
				}
				names = []string{n.S}
			}
			if err := p.expect("="); err != nil {
				return nil, err
			}
			e, err := p.Expr()
			if err != nil {
				return nil, err
			}
			return Let{names, e, line}, nil
		case "return":
			p.next()
			var xs []Expr
			for !p.is("}") {
				e, err := p.Expr()
				if err != nil {
					return nil, err
				}
				xs = append(xs, e)
				if !p.accept(",") {
					break
				}
			}
			return Return{xs, line}, nil
		case "emit":
			p.next()
			n := p.next()
			a, err := p.args()
			if err != nil {
				return nil, err
			}
			return Emit{n.S, a, line}, nil
		case "for":
			p.next()
			if err := p.expect("("); err != nil {
				return nil, err
			}
			init, err := p.ralphStmt()
			if err != nil {
				return nil, err
			}
			if err := p.expect(";"); err != nil {
				return nil, err
			}
			cond, err := p.Expr()
			if err != nil {
				return nil, err
			}
			if err := p.expect(";"); err != nil {
				return nil, err
			}
			post, err := p.ralphStmt()
			if err != nil {
				return nil, err
			}
			if err := p.expect(")"); err != nil {
				return nil, err
			}
			body, err := p.ralphBlock()
			if err != nil {
				return nil, err
			}
			return For{init, post, cond, body, line}, nil
		case "while":
			p.next()
			cond, err := p.Expr()
			if err != nil {
				return nil, err
			}
			body, err := p.ralphBlock()
			if err != nil {
				return nil, err
			}
			return While{cond, body, line}, nil
		case "if":
			p.next()
			cond, err := p.Expr()
			if err != nil {
				return nil, err
			}
			then, err := p.ralphBlock()
			if err != nil {
				return nil, err
			}
			var els []Stmt
			if p.accept("else") {
				if p.is("if") {
					s, err := p.ralphStmt()
					if err != nil {
						return nil, err
					}
					els = []Stmt{s}
				} else {
					els, err = p.ralphBlock()
					if err != nil {
						return nil, err
					}
				}
			}
			return If{cond, then, els, line}, nil
		}
	}
	e, err := p.Expr()
	if err != nil {
		return nil, err
	}
	if p.is("=") {
		p.next()
		x, err := p.Expr()
		if err != nil {
			return nil, err
		}
		return Assign{e, "=", x, line}, nil
	}
	return ExprStmt{e, line}, nil
}

// ---- Solidity ----------------------------------------------------------------------------------

// ParseSolidityFunc finds `function name(` in src and parses its body.
func ParseSolidityFunc(src, name string) (*Func, error) {
	toks, err := Lex(src, false)
	if err != nil {
		return nil, err
	}
	p := &Parser{T: toks}
	for i := 0; i+2 < len(toks); i++ {
		if toks[i].K == IDENT && toks[i].S == "function" && toks[i+1].S == name && toks[i+2].S == "(" {
			p.P = i + 2
			f := &Func{Name: name, Line: toks[i].Line}
			// parameter names: last identifier before each comma / closing paren
			end := p.matching(p.P, "(", ")")
			if end < 0 {
				return nil, fmt.Errorf("function %s: unbalanced parameters", name)
			}
			last := ""
			for k := p.P + 1; k <= end; k++ {
				if toks[k].K == IDENT {
					last = toks[k].S
				}
				if toks[k].S == "," || k == end {
					if last != "" {
						f.Params = append(f.Params, last)
					}
					last = ""
				}
			}
			p.P = end + 1
			for !p.is("{") {
				if p.peek().K == EOF || p.is(";") {
					return nil, fmt.Errorf("function %s has no body", name)
				}
				if p.is("(") {
					if err := p.skipBalanced("(", ")"); err != nil {
						return nil, err
					}
					continue
				}
				p.next()
			}
			b, err := p.solBlock()
			if err != nil {
				return nil, fmt.Errorf("function %s: %w", name, err)
			}
			f.Body = b
			return f, nil
		}
	}
	return nil, fmt.Errorf("function %s not found", name)
}

func (p *Parser) solBlock() ([]Stmt, error) {
	if err := p.expect("{"); err != nil {
		return nil, err
	}
	var out []Stmt
	for !p.is("}") {
		if p.peek().K == EOF {
			return nil, fmt.Errorf("unterminated block")
		}
		s, err := p.solStmt(true)
		if err != nil {
			return nil, err
		}
		if s != nil {
			out = append(out, s)
		}
	}
	p.next()
	return out, nil
}

var solTypeWords = map[string]bool{"memory": true, "storage": true, "calldata": true, "payable": true}

// solStmt parses one statement; semi says whether a trailing ';' is required.
func (p *Parser) solStmt(semi bool) (Stmt, error) {
	t := p.peek()
	line := t.Line
	end := func() error {
		if semi {
			return p.expect(";")
		}
		return nil
	}
	if t.K == IDENT {
		switch t.S {
		case "for":
			p.next()
			if err := p.expect("("); err != nil {
				return nil, err
			}
			init, err := p.solStmt(true)
			if err != nil {
				return nil, err
			}
			cond, err := p.Expr()
			if err != nil {
				return nil, err
			}
			if err := p.expect(";"); err != nil {
				return nil, err
			}
			post, err := p.solStmt(false)
			if err != nil {
				return nil, err
			}
			if err := p.expect(")"); err != nil {
				return nil, err
			}
			body, err := p.solBlock()
			if err != nil {
				return nil, err
			}
			return For{init, post, cond, body, line}, nil
		case "if":
			p.next()
			cond, err := p.Expr()
			if err != nil {
				return nil, err
			}
			var then []Stmt
			if p.is("{") {
				then, err = p.solBlock()
			} else {
				var s Stmt
				s, err = p.solStmt(true)
				then = []Stmt{s}
			}
			if err != nil {
				return nil, err
			}
			var els []Stmt
			if p.accept("else") {
				if p.is("{") {
					els, err = p.solBlock()
				} else {
					var s Stmt
					s, err = p.solStmt(true)
					els = []Stmt{s}
				}
				if err != nil {
					return nil, err
				}
			}
			return If{cond, then, els, line}, nil
		case "return":
			p.next()
			var xs []Expr
			if !p.is(";") {
				e, err := p.Expr()
				if err != nil {
					return nil, err
				}
				xs = append(xs, e)
			}
			return Return{xs, line}, end()
		}
	}
	// tuple destructuring declaration: (bool a, string memory b) = f(...);
	if p.is("(") {
		j := p.matching(p.P, "(", ")")
		if j > 0 && j+1 < len(p.T) && p.T[j+1].S == "=" {
			var names []string
			last := ""
			for k := p.P + 1; k <= j; k++ {
				if p.T[k].K == IDENT && !solTypeWords[p.T[k].S] {
					last = p.T[k].S
				}
				if p.T[k].S == "," || k == j {
					names = append(names, last)
					last = ""
				}
			}
			p.P = j + 2
			e, err := p.Expr()
			if err != nil {
				return nil, err
			}
			return Let{names, e, line}, end()
		}
	}
	// declaration: TYPE [memory] name = expr;   (TYPE may be dotted / array)
	save := p.P
	if t.K == IDENT {
		k := p.P
		for k < len(p.T) && (p.T[k].K == IDENT || p.T[k].S == "." || p.T[k].S == "[" || p.T[k].S == "]") {
			k++
		}
		// tokens p.P..k-1 are the candidate "type words + name"
		nIdentsAtEnd := 0
		for m := k - 1; m >= p.P && p.T[m].K == IDENT; m-- {
			nIdentsAtEnd++
		}
		if k < len(p.T) && (p.T[k].S == "=" || p.T[k].S == ";") && nIdentsAtEnd >= 2 {
			name := p.T[k-1].S
			p.P = k
			if p.accept("=") {
				e, err := p.Expr()
				if err != nil {
					return nil, err
				}
				return Let{[]string{name}, e, line}, end()
			}
			return Let{[]string{name}, nil, line}, end()
		}
	}
	p.P = save
	e, err := p.Expr()
	if err != nil {
		return nil, err
	}
	for _, op := range []string{"=", "+=", "-=", "*=", "/="} {
		if p.is(op) {
			p.next()
			x, err := p.Expr()
			if err != nil {
				return nil, err
			}
			return Assign{e, op, x, line}, end()
		}
	}
	if p.is("++") || p.is("--") {
		op := p.next().S
		return Assign{e, op, nil, line}, end()
	}
	return ExprStmt{e, line}, end()
}

// Render renders a statement list compactly (used in evidence samples and diagnostics).
func Render(ss []Stmt) []string {
	var out []string
	for _, s := range ss {
		switch x := s.(type) {
		case Let:
			v := "<none>"
			if x.X != nil {
				v = x.X.String()
			}
			out = append(out, fmt.Sprintf("let %s = %s", strings.Join(x.Names, ","), v))
		case Assign:
			v := ""
			if x.X != nil {
				v = x.X.String()
			}
			out = append(out, fmt.Sprintf("%s %s %s", x.Target.String(), x.Op, v))
		case ExprStmt:
			out = append(out, x.X.String())
		case Return:
			var a []string
			for _, e := range x.Xs {
				a = append(a, e.String())
			}
			out = append(out, "return "+strings.Join(a, ", "))
		case Emit:
			out = append(out, "emit "+x.Name)
		case For:
			out = append(out, "for {")
			out = append(out, Render(x.Body)...)
			out = append(out, "}")
		case If:
			out = append(out, "if "+x.Cond.String()+" {")
			out = append(out, Render(x.Then)...)
			if x.Else != nil {
				out = append(out, "} else {")
				out = append(out, Render(x.Else)...)
			}
			out = append(out, "}")
		}
	}
	return out
}
