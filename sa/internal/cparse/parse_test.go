package cparse

import (
	"os"
	"path/filepath"
	"strings"
	"testing"
)

func TestParseRepoContracts(t *testing.T) {
	root := "/repo/alephium/contracts"
	n := 0
	filepath.Walk(root, func(p string, fi os.FileInfo, err error) error {
		if err != nil || fi.IsDir() || !strings.HasSuffix(p, ".ral") {
			return nil
		}
		b, _ := os.ReadFile(p)
		cs, err := ParseRalph(string(b))
		if err != nil {
			t.Errorf("%s: %v", p, err)
			return nil
		}
		for _, c := range cs {
			n += len(c.Funcs)
		}
		return nil
	})
	t.Logf("parsed %d functions", n)
	b, _ := os.ReadFile("/repo/ethereum/contracts/Messages.sol")
	for _, fn := range []string{"parseVM", "quorum", "verifyVM", "verifySignatures"} {
		f, err := ParseSolidityFunc(string(b), fn)
		if err != nil {
			t.Fatal(err)
		}
		t.Logf("%s(%v):\n  %s", fn, f.Params, strings.Join(Render(f.Body), "\n  "))
	}
	b, _ = os.ReadFile("/repo/alephium/contracts/governance.ral")
	cs, _ := ParseRalph(string(b))
	g := cs["Governance"]
	t.Logf("events %v consts %v enums %v", g.Events, g.Consts, g.Enums)
	t.Logf("parseAndVerifyVAA:\n  %s", strings.Join(Render(g.Funcs["parseAndVerifyVAA"].Body), "\n  "))
}
