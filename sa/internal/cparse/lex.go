// Package cparse is a tokenizer, expression parser and statement parser for the subset of
// Ralph (*.ral) and Solidity used by the contract-side rules (DESIGN §4, E5). It is total on
// its subset and returns an error (=> undecided) on anything else. No compiler for either
// language exists in the sandbox.
package cparse

import (
	"fmt"
	"math/big"
	"strings"
)

type Kind int

const (
	EOF Kind = iota
	IDENT
	NUM
	HEX // Ralph #bytes
	STR
	OP
)

type Tok struct {
	K    Kind
	S    string
	Line int
}

func (t Tok) String() string { return t.S }

func isIdStart(c byte) bool {
	return c == '_' || c >= 'a' && c <= 'z' || c >= 'A' && c <= 'Z'
}
func isIdChar(c byte) bool { return isIdStart(c) || c >= '0' && c <= '9' }
func isHexDigit(c byte) bool {
	return c >= '0' && c <= '9' || c >= 'a' && c <= 'f' || c >= 'A' && c <= 'F'
}

var ops3 = []string{"<<=", ">>=", "|**|"}
var ops2 = []string{"**", "++", "+=", "-=", "*=", "/=", "==", "!=", "<=", ">=", "&&", "||", "->", "<<", ">>", "=>", "--", "|+|", "|-|", "|*|"}

// Lex tokenizes Ralph or Solidity source. In Ralph mode `name!` directly followed by `(` is a
// single identifier token (builtin call) and `#hex` is a byte-vector literal.
func Lex(src string, ralph bool) ([]Tok, error) {
	var out []Tok
	line := 1
	i := 0
	n := len(src)
	for i < n {
		c := src[i]
		switch {
		case c == '\n':
			line++
			i++
		case c == ' ' || c == '\t' || c == '\r':
			i++
		case c == '/' && i+1 < n && src[i+1] == '/':
			for i < n && src[i] != '\n' {
				i++
			}
		case c == '/' && i+1 < n && src[i+1] == '*':
			j := strings.Index(src[i+2:], "*/")
			if j < 0 {
				return nil, fmt.Errorf("line %d: unterminated comment", line)
			}
			line += strings.Count(src[i:i+2+j+2], "\n")
			i += 2 + j + 2
		case isIdStart(c):
			j := i
			for j < n && isIdChar(src[j]) {
				j++
			}
			if ralph && j+1 < n && src[j] == '!' && (src[j+1] == '(' || src[j+1] == '{') {
				j++
			}
			out = append(out, Tok{IDENT, src[i:j], line})
			i = j
		case c >= '0' && c <= '9':
			j := i
			if c == '0' && j+1 < n && (src[j+1] == 'x' || src[j+1] == 'X') {
				j += 2
				for j < n && (isHexDigit(src[j]) || src[j] == '_') {
					j++
				}
			} else {
				for j < n && (src[j] >= '0' && src[j] <= '9' || src[j] == '_') {
					j++
				}
				// Ralph suffixes like 1e18 / 1 alph are not used in the files we read
			}
			out = append(out, Tok{NUM, strings.ReplaceAll(src[i:j], "_", ""), line})
			i = j
		case c == '#' && ralph:
			j := i + 1
			for j < n && isHexDigit(src[j]) {
				j++
			}
			out = append(out, Tok{HEX, src[i+1 : j], line})
			i = j
		case c == '"':
			j := i + 1
			for j < n && src[j] != '"' {
				if src[j] == '\\' {
					j++
				}
				j++
			}
			if j >= n {
				return nil, fmt.Errorf("line %d: unterminated string", line)
			}
			out = append(out, Tok{STR, src[i+1 : j], line})
			i = j + 1
		default:
			matched := false
			for _, set := range [][]string{ops3, ops2} {
				for _, op := range set {
					if strings.HasPrefix(src[i:], op) {
						out = append(out, Tok{OP, op, line})
						i += len(op)
						matched = true
						break
					}
				}
				if matched {
					break
				}
			}
			if !matched {
				out = append(out, Tok{OP, string(c), line})
				i++
			}
		}
	}
	out = append(out, Tok{EOF, "", line})
	return out, nil
}

// ---- expressions ---------------------------------------------------------------------------

type Expr interface{ String() string }

type Num struct{ V *big.Int }
type HexLit struct{ Hex string }
type Str struct{ S string }
type Ident struct{ Name string }
type Call struct {
	Fn   Expr
	Args []Expr
}
type Member struct {
	X    Expr
	Name string
}
type Index struct{ X, I Expr }
type Bin struct {
	Op   string
	X, Y Expr
}
type Un struct {
	Op string
	X  Expr
}
type Opaque struct{ Text string } // constructs outside the subset inside an expression

func (e Num) String() string    { return e.V.String() }
func (e HexLit) String() string { return "#" + e.Hex }
func (e Str) String() string    { return "\"" + e.S + "\"" }
func (e Ident) String() string  { return e.Name }
func (e Call) String() string {
	var a []string
	for _, x := range e.Args {
		a = append(a, x.String())
	}
	return e.Fn.String() + "(" + strings.Join(a, ", ") + ")"
}
func (e Member) String() string { return e.X.String() + "." + e.Name }
func (e Index) String() string  { return e.X.String() + "[" + e.I.String() + "]" }
func (e Bin) String() string    { return "(" + e.X.String() + " " + e.Op + " " + e.Y.String() + ")" }
func (e Un) String() string     { return e.Op + e.X.String() }
func (e Opaque) String() string { return "<" + e.Text + ">" }

type Parser struct {
	T     []Tok
	P     int
	Ralph bool
}

func (p *Parser) peek() Tok { return p.T[p.P] }
func (p *Parser) next() Tok {
	t := p.T[p.P]
	if p.P < len(p.T)-1 {
		p.P++
	}
	return t
}
func (p *Parser) is(s string) bool { return p.peek().K != STR && p.peek().S == s && p.peek().K != EOF }
func (p *Parser) accept(s string) bool {
	if p.is(s) {
		p.next()
		return true
	}
	return false
}
func (p *Parser) expect(s string) error {
	if !p.accept(s) {
		return fmt.Errorf("line %d: expected %q, found %q", p.peek().Line, s, p.peek().S)
	}
	return nil
}

var binPrec = map[string]int{
	"||": 1, "&&": 2,
	"==": 3, "!=": 3, "<": 4, "<=": 4, ">": 4, ">=": 4,
	"|": 5, "^": 5, "&": 6, "<<": 7, ">>": 7,
	"+": 8, "-": 8, "++": 8, "|+|": 8, "|-|": 8,
	"*": 9, "/": 9, "%": 9, "|*|": 9, "**": 10, "|**|": 10,
}

func (p *Parser) Expr() (Expr, error) { return p.binary(1) }

func (p *Parser) binary(min int) (Expr, error) {
	x, err := p.unary()
	if err != nil {
		return nil, err
	}
	for {
		t := p.peek()
		if t.K != OP {
			return x, nil
		}
		op := t.S
		if !p.Ralph && op == "++" {
			return x, nil // postfix increment in Solidity, handled by statements
		}
		pr, ok := binPrec[op]
		if !ok || pr < min {
			return x, nil
		}
		p.next()
		y, err := p.binary(pr + 1)
		if err != nil {
			return nil, err
		}
		x = Bin{op, x, y}
	}
}

func (p *Parser) unary() (Expr, error) {
	t := p.peek()
	if t.K == OP && (t.S == "!" || t.S == "-" || t.S == "~") {
		p.next()
		x, err := p.unary()
		if err != nil {
			return nil, err
		}
		if t.S == "-" {
			if n, ok := x.(Num); ok {
				return Num{new(big.Int).Neg(n.V)}, nil
			}
		}
		return Un{t.S, x}, nil
	}
	return p.postfix()
}

// skipBalanced skips a balanced bracket group starting at the current token.
func (p *Parser) skipBalanced(open, close string) error {
	if err := p.expect(open); err != nil {
		return err
	}
	depth := 1
	for depth > 0 {
		t := p.next()
		if t.K == EOF {
			return fmt.Errorf("unbalanced %s", open)
		}
		if t.K == OP && t.S == open {
			depth++
		}
		if t.K == OP && t.S == close {
			depth--
		}
	}
	return nil
}

// matching returns the index of the token closing the bracket opened at index i.
func (p *Parser) matching(i int, open, close string) int {
	depth := 0
	for j := i; j < len(p.T); j++ {
		if p.T[j].K == OP && p.T[j].S == open {
			depth++
		}
		if p.T[j].K == OP && p.T[j].S == close {
			depth--
			if depth == 0 {
				return j
			}
		}
	}
	return -1
}

func (p *Parser) args() ([]Expr, error) {
	if err := p.expect("("); err != nil {
		return nil, err
	}
	var out []Expr
	for !p.is(")") {
		e, err := p.Expr()
		if err != nil {
			return nil, err
		}
		out = append(out, e)
		if !p.accept(",") {
			break
		}
	}
	return out, p.expect(")")
}

func (p *Parser) postfix() (Expr, error) {
	x, err := p.primary()
	if err != nil {
		return nil, err
	}
	for {
		switch {
		case p.is("("):
			a, err := p.args()
			if err != nil {
				return nil, err
			}
			x = Call{x, a}
		case p.Ralph && p.is("{"):
			// asset annotation f{payer -> ALPH: amount}(args): only when the matching } is followed by (
			j := p.matching(p.P, "{", "}")
			if j < 0 || j+1 >= len(p.T) || p.T[j+1].S != "(" {
				return x, nil
			}
			// make sure it looks like an annotation (contains "->")
			isAnn := false
			for k := p.P; k < j; k++ {
				if p.T[k].S == "->" {
					isAnn = true
				}
			}
			if !isAnn {
				return x, nil
			}
			p.P = j + 1
		case p.is("."):
			p.next()
			t := p.next()
			if t.K != IDENT {
				return nil, fmt.Errorf("line %d: expected member name", t.Line)
			}
			x = Member{x, t.S}
		case p.is("["):
			p.next()
			if p.is("]") { // Solidity T[] in `new T[](n)`
				p.next()
				x = Opaque{x.String() + "[]"}
				continue
			}
			i, err := p.Expr()
			if err != nil {
				return nil, err
			}
			if err := p.expect("]"); err != nil {
				return nil, err
			}
			x = Index{x, i}
		default:
			return x, nil
		}
	}
}

func (p *Parser) primary() (Expr, error) {
	t := p.next()
	switch t.K {
	case NUM:
		v := new(big.Int)
		s := t.S
		base := 10
		if strings.HasPrefix(s, "0x") || strings.HasPrefix(s, "0X") {
			s, base = s[2:], 16
		}
		if _, ok := v.SetString(s, base); !ok {
			return nil, fmt.Errorf("line %d: bad number %q", t.Line, t.S)
		}
		if p.Ralph && p.peek().K == IDENT && p.peek().S == "alph" {
			p.next()
			v.Mul(v, new(big.Int).Exp(big.NewInt(10), big.NewInt(18), nil))
		}
		return Num{v}, nil
	case HEX:
		return HexLit{strings.ToLower(t.S)}, nil
	case STR:
		return Str{t.S}, nil
	case IDENT:
		if t.S == "new" && !p.Ralph {
			// new T[](n)
			e, err := p.postfix()
			if err != nil {
				return nil, err
			}
			return Opaque{"new " + e.String()}, nil
		}
		if t.S == "if" && p.Ralph {
			// if-expression: if (c) a else b
			c, err := p.Expr()
			if err != nil {
				return nil, err
			}
			a, err := p.Expr()
			if err != nil {
				return nil, err
			}
			if err := p.expect("else"); err != nil {
				return nil, err
			}
			b, err := p.Expr()
			if err != nil {
				return nil, err
			}
			return Opaque{"if " + c.String() + " " + a.String() + " else " + b.String()}, nil
		}
		return Ident{t.S}, nil
	case OP:
		if t.S == "(" {
			e, err := p.Expr()
			if err != nil {
				return nil, err
			}
			if p.is(",") { // tuple
				parts := []string{e.String()}
				for p.accept(",") {
					x, err := p.Expr()
					if err != nil {
						return nil, err
					}
					parts = append(parts, x.String())
				}
				if err := p.expect(")"); err != nil {
					return nil, err
				}
				return Opaque{"tuple(" + strings.Join(parts, ", ") + ")"}, nil
			}
			return e, p.expect(")")
		}
	}
	return nil, fmt.Errorf("line %d: unexpected token %q", t.Line, t.S)
}
