// Package load drives go/packages by hand and builds go/ssa for every repository package,
// ignoring the transitive IllTyped bit caused by the quic-go qtls sentinel (DESIGN §2).
package load

import (
	"fmt"
	"go/ast"
	"go/token"
	"go/types"
	"os"
	"path/filepath"
	"sort"
	"strings"
	"time"

	"golang.org/x/tools/go/packages"
	"golang.org/x/tools/go/ssa"

	"wvsa/internal/facts"
	"wvsa/internal/inline"
)

// AllowedErrPkg is the only package that may report type errors (deliberate compile-time sentinel).
const AllowedErrPkg = "github.com/lucas-clemente/quic-go/internal/qtls"

type Program struct {
	Dir      string
	Module   string // module path of the roots
	Fset     *token.FileSet
	Roots    []*packages.Package
	ByPath   map[string]*packages.Package
	SSA      *ssa.Program
	SSAPkg   map[string]*ssa.Package
	Visited  int
	ErrPkgs  []string
	LoadTime time.Duration
	Whole    bool
	// rootSet marks packages whose function bodies are available.
	rootSet map[*packages.Package]bool
	// helper normalisation (see Options.Reviewed)
	InlinedSites  []string
	InlineSkipped []string
	InlineNote    string
	Hidden        map[*ssa.Function]bool
}

type Options struct {
	Dir      string
	Patterns []string
	Whole    bool              // LoadAllSyntax (bodies for every dependency)
	Overlay  map[string][]byte // absolute path -> content (checker self-test only)
	MinRoots int
	Env      []string
	// Reviewed, when non-nil, reports whether a function (canonical name) existed on the reviewed
	// tree; functions that did not are inlined back into their same-package call sites
	// (internal/inline) before the program is handed to the rules.
	Reviewed func(name string) bool
}

// Load loads the program and, when o.Reviewed is set, normalises new helper functions away.
func Load(o Options) (*Program, error) {
	p, err := load1(o)
	if err != nil || o.Reviewed == nil {
		return p, err
	}
	t0 := time.Now()
	overlay := map[string][]byte{}
	for k, v := range o.Overlay {
		overlay[k] = v
	}
	read := func(name string) ([]byte, error) {
		if b, ok := overlay[name]; ok {
			return b, nil
		}
		return os.ReadFile(name)
	}
	var sites, skipped []string
	for round := 0; round < 4; round++ {
		var roots []*packages.Package
		for _, r := range p.Roots {
			if r.Module != nil && r.Module.Main {
				roots = append(roots, r)
			}
		}
		cur := p
		isNew := func(obj *types.Func) bool {
			fn := cur.SSA.FuncValue(obj)
			if fn == nil {
				return false
			}
			return !o.Reviewed(facts.FuncName(fn))
		}
		res, err := inline.Rewrite(roots, isNew, read)
		if err != nil {
			p.InlineNote = "helper normalisation abandoned: " + err.Error()
			break
		}
		skipped = res.Skipped
		if len(res.Overlay) == 0 {
			break
		}
		for k, v := range res.Overlay {
			overlay[k] = v
		}
		o2 := o
		o2.Overlay = overlay
		p2, err := load1(o2)
		if err != nil {
			// never let the normaliser turn a loadable tree into an unloadable one: fall back to
			// the program as written
			p.InlineNote = "helper normalisation abandoned (rewritten source does not load): " + err.Error()
			if os.Getenv("WVSA_INLINE_DEBUG") != "" {
				for k, v := range res.Overlay {
					os.WriteFile("/tmp/wvsa_inline_"+filepath.Base(k), v, 0o644)
				}
			}
			break
		}
		sites = append(sites, res.Sites...)
		p = p2
	}
	p.InlinedSites, p.InlineSkipped = sites, skipped
	// helpers whose every use was inlined are no longer part of the program the rules look at
	if len(sites) > 0 {
		p.Hidden = map[*ssa.Function]bool{}
		refs := map[*ssa.Function]int{}
		for _, f := range p.SrcFuncs("") {
			for _, b := range f.Blocks {
				for _, ins := range b.Instrs {
					var ops []*ssa.Value
					for _, op := range ins.Operands(ops) {
						if op == nil || *op == nil {
							continue
						}
						if g, ok := (*op).(*ssa.Function); ok && g != f {
							refs[g]++
							// a method value refers to its method through a synthetic wrapper
							if strings.HasPrefix(g.Synthetic, "bound method wrapper") {
								for _, wb := range g.Blocks {
									for _, wi := range wb.Instrs {
										if ci, isCall := wi.(ssa.CallInstruction); isCall {
											if m := ci.Common().StaticCallee(); m != nil {
												refs[m]++
											}
										}
									}
								}
							}
						}
					}
				}
			}
		}
		for _, f := range p.SrcFuncs("") {
			if f.Parent() == nil && f.Object() != nil && !o.Reviewed(facts.FuncName(f)) && refs[f] == 0 {
				p.Hidden[f] = true
			}
		}
	}
	p.LoadTime += time.Since(t0)
	return p, nil
}

func load1(o Options) (*Program, error) {
	t0 := time.Now()
	mode := packages.LoadSyntax | packages.NeedModule
	if o.Whole {
		mode = packages.LoadAllSyntax | packages.NeedModule
	}
	env := append(os.Environ(), "GOFLAGS=-mod=mod", "GOPROXY=off", "GOSUMDB=off", "GOTOOLCHAIN=local", "GOWORK=off")
	env = append(env, o.Env...)
	cfg := &packages.Config{Mode: mode, Dir: o.Dir, Tests: false, Env: env, Overlay: o.Overlay}
	before := modSums(o.Dir)
	pkgs, err := packages.Load(cfg, o.Patterns...)
	if err != nil {
		return nil, fmt.Errorf("packages.Load(%s): %w", o.Dir, err)
	}
	if after := modSums(o.Dir); after != before {
		return nil, fmt.Errorf("go.mod/go.sum under %s changed during load", o.Dir)
	}
	if len(pkgs) < o.MinRoots {
		return nil, fmt.Errorf("only %d root packages loaded from %s, floor %d", len(pkgs), o.Dir, o.MinRoots)
	}
	p := &Program{Dir: o.Dir, Roots: pkgs, ByPath: map[string]*packages.Package{}, SSAPkg: map[string]*ssa.Package{}, Whole: o.Whole, rootSet: map[*packages.Package]bool{}}
	if len(pkgs) == 0 {
		return nil, fmt.Errorf("no packages")
	}
	p.Fset = pkgs[0].Fset
	for _, r := range pkgs {
		p.rootSet[r] = true
		if r.Module != nil && p.Module == "" && r.Module.Main {
			p.Module = r.Module.Path
		}
	}
	var problems []string
	p.SSA = ssa.NewProgram(p.Fset, ssa.InstantiateGenerics)
	packages.Visit(pkgs, nil, func(pk *packages.Package) {
		p.Visited++
		p.ByPath[pk.PkgPath] = pk
		if len(pk.Errors) > 0 {
			p.ErrPkgs = append(p.ErrPkgs, pk.PkgPath)
			if pk.PkgPath != AllowedErrPkg {
				problems = append(problems, fmt.Sprintf("%s: %v", pk.PkgPath, pk.Errors[0]))
			}
		}
		if pk.Types == nil {
			problems = append(problems, pk.PkgPath+": no type information")
			return
		}
		// Only root packages (or every package in whole-program mode) carry type-checked bodies;
		// dependencies type-checked from source without bodies must not be built from syntax.
		if pk.TypesInfo != nil && len(pk.Syntax) > 0 && (o.Whole || p.rootSet[pk]) {
			p.SSAPkg[pk.PkgPath] = p.SSA.CreatePackage(pk.Types, pk.Syntax, pk.TypesInfo, true)
		} else {
			p.SSAPkg[pk.PkgPath] = p.SSA.CreatePackage(pk.Types, nil, nil, true)
		}
	})
	if len(problems) > 0 {
		sort.Strings(problems)
		return nil, fmt.Errorf("UNDECIDED: type errors outside the allow-list: %s", strings.Join(problems, "; "))
	}
	if o.Whole {
		p.SSA.Build()
	} else {
		for _, r := range pkgs {
			p.SSAPkg[r.PkgPath].Build()
		}
	}
	// ordered local variable names per top-level function (for rename-robust terms)
	for _, r := range pkgs {
		if r.TypesInfo == nil {
			continue
		}
		for _, f := range r.Syntax {
			for _, d := range f.Decls {
				fd, ok := d.(*ast.FuncDecl)
				if !ok || fd.Body == nil {
					continue
				}
				obj, _ := r.TypesInfo.Defs[fd.Name].(*types.Func)
				if obj == nil {
					continue
				}
				sf := p.SSA.FuncValue(obj)
				if sf == nil {
					continue
				}
				var names []string
				seen := map[string]bool{}
				ast.Inspect(fd.Body, func(n ast.Node) bool {
					id, ok := n.(*ast.Ident)
					if !ok {
						return true
					}
					if v, ok := r.TypesInfo.Defs[id].(*types.Var); ok && v != nil && !v.IsField() && id.Name != "_" && !seen[id.Name] {
						seen[id.Name] = true
						names = append(names, id.Name)
					}
					return true
				})
				facts.CurrentLocals[facts.FuncName(sf)] = names
			}
		}
	}
	for _, r := range pkgs {
		for _, f := range r.Syntax {
			ast.Inspect(f, func(n ast.Node) bool {
				record := func(lhs []ast.Expr, rhs []ast.Expr) {
					if len(lhs) != len(rhs) {
						return
					}
					for i, e := range rhs {
						ce, ok := e.(*ast.CallExpr)
						if !ok {
							continue
						}
						if id, ok := ce.Fun.(*ast.Ident); ok && id.Name == "make" {
							if l, ok := lhs[i].(*ast.Ident); ok {
								facts.LocalNames[ce.Lparen] = l.Name
							}
						}
					}
				}
				switch x := n.(type) {
				case *ast.AssignStmt:
					record(x.Lhs, x.Rhs)
				case *ast.ValueSpec:
					var lhs []ast.Expr
					for _, nm := range x.Names {
						lhs = append(lhs, nm)
					}
					record(lhs, x.Values)
				}
				return true
			})
		}
	}
	p.LoadTime = time.Since(t0)
	return p, nil
}

func modSums(dir string) string {
	s := ""
	for _, n := range []string{"go.mod", "go.sum"} {
		b, err := os.ReadFile(filepath.Join(dir, n))
		if err == nil {
			s += fmt.Sprintf("%s:%d:%x;", n, len(b), fnv(b))
		}
	}
	return s
}

func fnv(b []byte) uint64 {
	h := uint64(14695981039346656037)
	for _, c := range b {
		h ^= uint64(c)
		h *= 1099511628211
	}
	return h
}

// IsRoot reports whether the package was loaded with function bodies from the working tree.
func (p *Program) IsRoot(path string) bool {
	pk := p.ByPath[path]
	return pk != nil && p.rootSet[pk]
}

func (p *Program) Pkg(path string) *ssa.Package { return p.SSAPkg[path] }

// Func returns a package-level function.
func (p *Program) Func(pkg, name string) *ssa.Function {
	sp := p.SSAPkg[pkg]
	if sp == nil {
		return nil
	}
	return sp.Func(name)
}

// Method returns the method `name` declared on named type `typ` (pointer or value receiver).
func (p *Program) Method(pkg, typ, name string) *ssa.Function {
	n := p.Named(pkg, typ)
	if n == nil {
		return nil
	}
	for i := 0; i < n.NumMethods(); i++ {
		if n.Method(i).Name() == name {
			return p.SSA.FuncValue(n.Method(i))
		}
	}
	return nil
}

// Named returns the named type object.
func (p *Program) Named(pkg, typ string) *types.Named {
	pk := p.ByPath[pkg]
	if pk == nil || pk.Types == nil {
		return nil
	}
	o := pk.Types.Scope().Lookup(typ)
	if o == nil {
		return nil
	}
	n, _ := o.Type().(*types.Named)
	return n
}

// FieldOf returns the *types.Var for field `name` of struct type pkg.typ.
func (p *Program) FieldOf(pkg, typ, name string) *types.Var {
	n := p.Named(pkg, typ)
	if n == nil {
		return nil
	}
	st, ok := n.Underlying().(*types.Struct)
	if !ok {
		return nil
	}
	for i := 0; i < st.NumFields(); i++ {
		if st.Field(i).Name() == name {
			return st.Field(i)
		}
	}
	return nil
}

// SrcFuncs returns every function with a body (including anonymous functions and methods)
// declared in root packages whose path has the given prefix ("" = all roots). Sorted by position.
func (p *Program) SrcFuncs(prefix string) []*ssa.Function {
	var out []*ssa.Function
	seen := map[*ssa.Function]bool{}
	var add func(f *ssa.Function)
	add = func(f *ssa.Function) {
		if f == nil || seen[f] || len(f.Blocks) == 0 || p.Hidden[f] {
			return
		}
		seen[f] = true
		out = append(out, f)
		for _, a := range f.AnonFuncs {
			add(a)
		}
	}
	for _, r := range p.Roots {
		if !strings.HasPrefix(r.PkgPath, prefix) {
			continue
		}
		sp := p.SSAPkg[r.PkgPath]
		if sp == nil {
			continue
		}
		for _, m := range sp.Members {
			switch m := m.(type) {
			case *ssa.Function:
				add(m)
			case *ssa.Type:
				for _, recv := range []types.Type{m.Type(), types.NewPointer(m.Type())} {
					ms := p.SSA.MethodSets.MethodSet(recv)
					for i := 0; i < ms.Len(); i++ {
						if o, ok := ms.At(i).Obj().(*types.Func); ok && o.Pkg() == r.Types {
							add(p.SSA.FuncValue(o))
						}
					}
				}
			}
		}
	}
	sort.Slice(out, func(i, j int) bool {
		pi, pj := p.Fset.Position(out[i].Pos()), p.Fset.Position(out[j].Pos())
		if pi.Filename != pj.Filename {
			return pi.Filename < pj.Filename
		}
		if pi.Offset != pj.Offset {
			return pi.Offset < pj.Offset
		}
		return out[i].String() < out[j].String()
	})
	return out
}

// Pos renders a position relative to the repository root when possible.
func (p *Program) Pos(pos token.Pos) string {
	if !pos.IsValid() {
		return "-"
	}
	ps := p.Fset.Position(pos)
	return fmt.Sprintf("%s:%d", ps.Filename, ps.Line)
}

// FileOf returns the syntax tree of the root file containing pos.
func (p *Program) FileOf(pos token.Pos) *ast.File {
	for _, r := range p.Roots {
		for _, f := range r.Syntax {
			if f.Pos() <= pos && pos <= f.End() {
				return f
			}
		}
	}
	return nil
}
