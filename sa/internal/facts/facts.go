package facts

import (
	"go/token"
	"go/types"
	"sort"
	"strings"

	"golang.org/x/tools/go/ssa"
)

// Edge identifies the K-th successor edge of block B.
type Edge struct{ B, K int }

type Cuts map[Edge]bool

func (c Cuts) with(e ...Edge) Cuts {
	n := Cuts{}
	for k := range c {
		n[k] = true
	}
	for _, x := range e {
		n[x] = true
	}
	return n
}

// Fact is a branch condition with the polarity that holds on every path considered.
type Fact struct {
	Cond ssa.Value
	Pol  bool
	Atom string // canonical rendering, e.g. "a <= b", "x != nil", "!f(y)#1"
	If   *ssa.BasicBlock
	Via  *ssa.Call // set when the fact was obtained by expanding a boolean helper call
}

// R resolves a value that occurs in the fact's condition to the caller's vocabulary: a parameter
// of the expanded helper is replaced by the corresponding argument of the call.
func (f Fact) R(v ssa.Value) ssa.Value {
	for d := 0; d < 3 && f.Via != nil; d++ {
		prm, ok := v.(*ssa.Parameter)
		if !ok {
			return v
		}
		callee := f.Via.Call.StaticCallee()
		if callee == nil || prm.Parent() != callee {
			return v
		}
		for k, q := range callee.Params {
			if q == prm && k < len(f.Via.Call.Args) {
				return f.Via.Call.Args[k]
			}
		}
		return v
	}
	return v
}

// reach returns the set of blocks reachable from start with the cut edges removed.
// Blocks listed in `stop` are entered but not left.
func reach(start *ssa.BasicBlock, cuts Cuts, stop map[*ssa.BasicBlock]bool) map[*ssa.BasicBlock]bool {
	seen := map[*ssa.BasicBlock]bool{}
	// mask[b]: which successor edges of b have been released so far (bit k = k-th successor).
	// A block that ends in a test of a phi defined in the same block ("did the inlined helper
	// return an error?") releases, for each way it is entered, only the successors that the value
	// carried on that entry edge can select — jump threading, so that a join followed by a re-test
	// does not merge the helper's success and failure paths.
	mask := map[*ssa.BasicBlock]uint{}
	type item struct {
		b    *ssa.BasicBlock
		bits uint
	}
	all := func(b *ssa.BasicBlock) uint { return (1 << uint(len(b.Succs))) - 1 }
	st := []item{{start, all(start)}}
	for len(st) > 0 {
		it := st[len(st)-1]
		st = st[:len(st)-1]
		b := it.b
		newBits := it.bits &^ mask[b]
		if seen[b] && newBits == 0 {
			continue
		}
		seen[b] = true
		mask[b] |= it.bits
		if stop[b] {
			continue
		}
		sm := staticMask(b)
		for k, s := range b.Succs {
			if newBits&(1<<uint(k)) == 0 || sm&(1<<uint(k)) == 0 || cuts[Edge{b.Index, k}] {
				continue
			}
			st = append(st, item{s, threadMask(b, s)})
		}
	}
	return seen
}

// staticMask removes the successor of a nil test whose operand can never be nil (a sentinel error,
// a freshly built error): `if errFull != nil {…} else {…}` has no else in practice.
func staticMask(b *ssa.BasicBlock) uint {
	full := uint(1<<uint(len(b.Succs))) - 1
	iff, ok := lastIf(b)
	if !ok || len(b.Succs) != 2 {
		return full
	}
	c, pol := iff.Cond, true
	for {
		if u, ok := c.(*ssa.UnOp); ok && u.Op == token.NOT {
			c, pol = u.X, !pol
			continue
		}
		break
	}
	// a constant condition (a helper's boolean parameter bound to a literal at the call site)
	if v, isK := isBoolConst(c); isK {
		if v == pol {
			return 1
		}
		return 2
	}
	bo, ok := c.(*ssa.BinOp)
	if !ok || (bo.Op != token.EQL && bo.Op != token.NEQ) {
		return full
	}
	x, y := bo.X, bo.Y
	if isNilConst(x) {
		x, y = y, x
	}
	if !isNilConst(y) || !IntrinsicNonNil(x) {
		return full
	}
	// the test `x != nil` is always true (`x == nil` always false)
	always := (bo.Op == token.NEQ) == pol
	if always {
		return 1 // only the true successor
	}
	return 2
}

// threadMask: the successors of block j that can be taken when j is entered from pred.
func threadMask(pred, j *ssa.BasicBlock) uint {
	full := uint(1<<uint(len(j.Succs))) - 1
	iff, ok := lastIf(j)
	if !ok || len(j.Succs) != 2 || len(j.Preds) < 2 {
		return full
	}
	pi := -1
	for k, p := range j.Preds {
		if p == pred {
			if pi >= 0 {
				return full // the same block on two edges: do not distinguish
			}
			pi = k
		}
	}
	if pi < 0 {
		return full
	}
	t, f := decidePhiTest(iff.Cond, j, pi, pred)
	m := uint(0)
	if t {
		m |= 1
	}
	if f {
		m |= 2
	}
	if m == 0 {
		return full
	}
	return m
}

// decidePhiTest evaluates condition c of block j for entry edge pi: can it be true, can it be false?
func decidePhiTest(c ssa.Value, j *ssa.BasicBlock, pi int, pred *ssa.BasicBlock) (canTrue, canFalse bool) {
	switch x := c.(type) {
	case *ssa.UnOp:
		if x.Op == token.NOT {
			t, f := decidePhiTest(x.X, j, pi, pred)
			return f, t
		}
	case *ssa.Phi:
		if x.Block() != j || pi >= len(x.Edges) {
			return true, true
		}
		if v, ok := isBoolConst(x.Edges[pi]); ok {
			return v, !v
		}
	case *ssa.BinOp:
		if x.Op != token.EQL && x.Op != token.NEQ {
			return true, true
		}
		a, b := x.X, x.Y
		if isNilConst(a) {
			a, b = b, a
		}
		ph, ok := a.(*ssa.Phi)
		if !ok || !isNilConst(b) || ph.Block() != j || pi >= len(ph.Edges) {
			return true, true
		}
		v := ph.Edges[pi]
		isNil, known := false, false
		switch {
		case isNilConst(v):
			isNil, known = true, true
		case knownNonNil(v, pred):
			isNil, known = false, true
		}
		if !known {
			return true, true
		}
		eq := x.Op == token.EQL
		if isNil == eq {
			return true, false
		}
		return false, true
	}
	return true, true
}

// knownNonNil: value v cannot be nil when control is in block b — it is a freshly built value, or
// b is reached only through a branch that tested v != nil.
func knownNonNil(v ssa.Value, b *ssa.BasicBlock) bool {
	switch x := v.(type) {
	case *ssa.MakeInterface, *ssa.Alloc, *ssa.MakeMap, *ssa.MakeSlice, *ssa.MakeChan, *ssa.MakeClosure, *ssa.Function:
		return true
	case *ssa.Call:
		n := CalleeName(&x.Call)
		if strings.HasPrefix(n, "fmt.Errorf") || strings.HasPrefix(n, "errors.New") {
			return true
		}
	}
	for hops := 0; hops < 6 && b != nil; hops++ {
		if len(b.Preds) != 1 {
			return false
		}
		q := b.Preds[0]
		if iff, ok := lastIf(q); ok && len(q.Succs) == 2 && q.Succs[0] != q.Succs[1] {
			pol := q.Succs[0] == b
			c := iff.Cond
			for {
				if u, ok := c.(*ssa.UnOp); ok && u.Op == token.NOT {
					c, pol = u.X, !pol
					continue
				}
				break
			}
			if bo, ok := c.(*ssa.BinOp); ok && (bo.Op == token.EQL || bo.Op == token.NEQ) {
				x, y := bo.X, bo.Y
				if isNilConst(x) {
					x, y = y, x
				}
				if x == v && isNilConst(y) && (bo.Op == token.NEQ) == pol {
					return true
				}
			}
		}
		b = q
	}
	return false
}

// ThreadedValue resolves a phi that merges the results of an inlined helper's return statements
// to the single value it can have at its uses: when the block that defines the phi ends in a
// threadable test (see reach), every use of the phi lies behind one successor of that test, and
// the entry edges that can select that successor all carry the same value, that value is returned.
func ThreadedValue(v ssa.Value) ssa.Value {
	ph, ok := v.(*ssa.Phi)
	if !ok {
		return v
	}
	if a, ok := threadedCache[ph]; ok {
		if a == nil {
			return v
		}
		return a
	}
	threadedCache[ph] = nil
	if a := getOrCreate(ph); a != nil {
		threadedCache[ph] = a
		return a
	}
	if a := onlyFeasible(ph); a != nil {
		threadedCache[ph] = a
		return a
	}
	j := ph.Block()
	iff, ok := lastIf(j)
	if !ok || len(j.Succs) != 2 || ph.Referrers() == nil {
		return v
	}
	for k, s := range j.Succs {
		if len(s.Preds) != 1 {
			continue
		}
		// all uses behind successor k?
		allBehind := true
		for _, r := range *ph.Referrers() {
			if _, isDbg := r.(*ssa.DebugRef); isDbg {
				continue
			}
			// the test at the end of j itself (`phi != nil`) is not a use behind a successor
			if rv, isV := r.(ssa.Value); isV && r.Block() == j && rv.Referrers() != nil && len(*rv.Referrers()) == 1 && (*rv.Referrers())[0] == ssa.Instruction(iff) {
				continue
			}
			rb := r.Block()
			if up, isPhi := r.(*ssa.Phi); isPhi {
				// a phi uses its operand on the incoming edge: the predecessor must be behind s
				okEdge := false
				for pi2, e := range up.Edges {
					if e == ssa.Value(ph) && s.Dominates(up.Block().Preds[pi2]) {
						okEdge = true
					}
				}
				if !okEdge {
					allBehind = false
				}
				continue
			}
			if rb == nil || !s.Dominates(rb) {
				allBehind = false
			}
		}
		if !allBehind {
			continue
		}
		var val ssa.Value
		single := true
		for pi, p := range j.Preds {
			if threadMask(p, j)&(1<<uint(k)) == 0 {
				continue
			}
			e := ph.Edges[pi]
			if val == nil {
				val = e
			} else if val != e {
				single = false
			}
		}
		if single && val != nil && val != ssa.Value(ph) {
			threadedCache[ph] = val
			return val
		}
	}
	return v
}

var threadedCache = map[*ssa.Phi]ssa.Value{}

// Reachable reports whether target is reachable from the function entry under the cuts.
func Reachable(target *ssa.BasicBlock, cuts Cuts) bool {
	fn := target.Parent()
	return reach(fn.Blocks[0], cuts, nil)[target]
}

// Specialise returns cuts that fix a boolean parameter (by name) to the given value.
func Specialise(fn *ssa.Function, param string, val bool) Cuts {
	c := Cuts{}
	for _, b := range fn.Blocks {
		if iff, ok := lastIf(b); ok {
			cond, v := iff.Cond, val
			for {
				if u, ok := cond.(*ssa.UnOp); ok && u.Op == token.NOT {
					cond, v = u.X, !v
					continue
				}
				break
			}
			if p, ok := cond.(*ssa.Parameter); ok && p.Name() == param {
				if v {
					c[Edge{b.Index, 1}] = true
				} else {
					c[Edge{b.Index, 0}] = true
				}
			}
		}
	}
	return c
}

func lastIf(b *ssa.BasicBlock) (*ssa.If, bool) {
	if len(b.Instrs) == 0 {
		return nil, false
	}
	iff, ok := b.Instrs[len(b.Instrs)-1].(*ssa.If)
	return iff, ok
}

// Between returns the facts that hold on every path from start to target (cut-edge test),
// expanded through negation and boolean phis. start==nil means the function entry.
func Between(start, target *ssa.BasicBlock, base Cuts) []Fact {
	fn := target.Parent()
	if start == nil {
		start = fn.Blocks[0]
	}
	var out []Fact
	if !reach(start, base, nil)[target] {
		return nil
	}
	for _, gb := range fn.Blocks {
		iff, ok := lastIf(gb)
		if !ok || len(gb.Succs) != 2 || gb.Succs[0] == gb.Succs[1] {
			continue
		}
		for k := 0; k < 2; k++ {
			if base[Edge{gb.Index, k}] {
				continue
			}
			if !reach(start, base.with(Edge{gb.Index, k}), nil)[target] {
				out = append(out, expand(iff.Cond, k == 0, gb, base, 0)...)
			}
		}
	}
	return dedup(out)
}

// At returns the must-hold facts at an instruction (every path from the entry to its block).
func At(instr ssa.Instruction, base Cuts) []Fact { return Between(nil, instr.Block(), base) }

// AtBlockEnd returns the facts on every path from entry to block b followed by its K-th edge.
func AtEdge(b *ssa.BasicBlock, k int, base Cuts) []Fact {
	out := Between(nil, b, base)
	if iff, ok := lastIf(b); ok && len(b.Succs) == 2 && b.Succs[0] != b.Succs[1] {
		out = append(out, expand(iff.Cond, k == 0, b, base, 0)...)
	}
	return dedup(out)
}

func dedup(in []Fact) []Fact {
	// two tests with the same rendering made at different branch points are different facts
	type key struct {
		a  string
		at *ssa.BasicBlock
	}
	seen := map[key]bool{}
	var out []Fact
	for _, f := range in {
		k := key{f.Atom, f.If}
		if !seen[k] {
			seen[k] = true
			out = append(out, f)
		}
	}
	sort.SliceStable(out, func(i, j int) bool { return out[i].Atom < out[j].Atom })
	return out
}

func isBoolConst(v ssa.Value) (val, ok bool) {
	c, ok := v.(*ssa.Const)
	if !ok || c.Value == nil {
		return false, false
	}
	if b, ok := c.Type().Underlying().(*types.Basic); !ok || b.Info()&types.IsBoolean == 0 {
		return false, false
	}
	return c.Value.ExactString() == "true", true
}

// expand turns (cond, pol) into atomic facts: !x flips polarity; a boolean phi whose other
// edges are the constant !pol is decomposed into the facts of its single live edge.
func expand(cond ssa.Value, pol bool, at *ssa.BasicBlock, base Cuts, depth int) []Fact {
	if depth > 8 {
		return []Fact{{Cond: cond, Pol: pol, Atom: Atom(cond, pol), If: at}}
	}
	switch x := cond.(type) {
	case *ssa.UnOp:
		if x.Op == token.NOT {
			return expand(x.X, !pol, at, base, depth+1)
		}
	case *ssa.Phi:
		live := -1
		n := 0
		for i, e := range x.Edges {
			if c, ok := isBoolConst(e); ok && c != pol {
				continue // this edge cannot have produced `pol`
			}
			live = i
			n++
		}
		if n == 1 {
			pred := x.Block().Preds[live]
			var out []Fact
			if c, ok := isBoolConst(x.Edges[live]); !ok || c != pol {
				out = append(out, expand(x.Edges[live], pol, at, base, depth+1)...)
			}
			// facts needed to arrive at the phi block through that predecessor edge
			for k, s := range pred.Succs {
				if s == x.Block() {
					out = append(out, AtEdge(pred, k, base)...)
					break
				}
			}
			out = append(out, Fact{Cond: cond, Pol: pol, Atom: Atom(cond, pol), If: at})
			return out
		}
	}
	out := []Fact{{Cond: cond, Pol: pol, Atom: Atom(cond, pol), If: at}}
	if cl, ok := cond.(*ssa.Call); ok {
		out = append(out, expandPredicate(cl, pol, at, depth, false)...)
	}
	// `helper(args) == nil` for a helper returning only an error: the facts on every way the
	// helper returns nil
	if b, ok := cond.(*ssa.BinOp); ok && (b.Op == token.EQL || b.Op == token.NEQ) {
		x, y := b.X, b.Y
		if isNilConst(x) {
			x, y = y, x
		}
		if cl, isCall := x.(*ssa.Call); isCall && isNilConst(y) && (b.Op == token.EQL) == pol {
			out = append(out, expandPredicate(cl, true, at, depth, true)...)
		}
	}
	return out
}

func isNilConst(v ssa.Value) bool {
	c, ok := v.(*ssa.Const)
	return ok && c.Value == nil
}

// ModulePrefix limits predicate expansion to functions of the analysed repository.
var ModulePrefix = "github.com/alephium/wormhole-fork/"

var predDepth = 0

// expandPredicate: the condition is the result of a call to a boolean helper of the repository
// whose body is available (`if !w.isFinal(ev) { return }`). The facts that hold on EVERY way the
// helper can return `pol` are added, rendered with the helper's parameters replaced by the call's
// arguments, so that moving a guard into a helper does not hide it from the rules.
func expandPredicate(cl *ssa.Call, pol bool, at *ssa.BasicBlock, depth int, errNil bool) []Fact {
	ways := predicateWays(cl, pol, errNil)
	if len(ways) == 0 {
		return nil
	}
	acc := ways[0]
	for _, w := range ways[1:] {
		acc = intersect(acc, w)
	}
	var out []Fact
	for _, f := range acc {
		out = append(out, Fact{Cond: f.Cond, Pol: f.Pol, Atom: f.Atom, If: at, Via: cl})
	}
	return out
}

// predicateWays lists, for a call to a boolean (or error-returning) helper of the repository, the
// ways the helper can return pol (nil): one conjunction of facts per way, rendered in the caller's
// vocabulary.
func predicateWays(cl *ssa.Call, pol bool, errNil bool) [][]Fact {
	callee := cl.Call.StaticCallee()
	if callee == nil || len(callee.Blocks) == 0 || callee.Pkg == nil || !strings.HasPrefix(callee.Pkg.Pkg.Path(), ModulePrefix) {
		return nil
	}
	if callee.Signature.Results().Len() != 1 || predDepth >= 2 {
		return nil
	}
	if rt := callee.Signature.Results().At(0).Type(); errNil != (rt.String() == "error") || (!errNil && !isBoolType(rt)) {
		return nil
	}
	if len(cl.Call.Args) != len(callee.Params) {
		return nil
	}
	predDepth++
	defer func() { predDepth-- }()
	saved := map[*ssa.Parameter]ssa.Value{}
	for k, prm := range callee.Params {
		if old, ok := paramBinding[prm]; ok {
			saved[prm] = old
		}
		paramBinding[prm] = cl.Call.Args[k]
	}
	defer func() {
		for _, prm := range callee.Params {
			if old, ok := saved[prm]; ok {
				paramBinding[prm] = old
			} else {
				delete(paramBinding, prm)
			}
		}
	}()
	var ways [][]Fact
	for _, b := range callee.Blocks {
		if len(b.Instrs) == 0 {
			continue
		}
		r, ok := b.Instrs[len(b.Instrs)-1].(*ssa.Return)
		if !ok || len(r.Results) != 1 || b.Comment == "recover" {
			continue
		}
		v := r.Results[0]
		if errNil {
			// ways the helper returns a nil error; a non-constant result may or may not be nil
			// and contributes no facts (it makes the intersection empty)
			if isNilConst(v) {
				ways = append(ways, At(r, nil))
			} else if _, isMI := v.(*ssa.MakeInterface); isMI {
				// a freshly built error value is never nil
			} else if cc, isCall := v.(*ssa.Call); isCall && strings.HasPrefix(CalleeName(&cc.Call), "fmt.Errorf") || isCall && strings.HasPrefix(CalleeName(&cc.Call), "errors.New") {
				// never nil
			} else {
				ways = append(ways, nil)
			}
			continue
		}
		if c, isC := isBoolConst(v); isC {
			if c == pol {
				ways = append(ways, At(r, nil))
			}
			continue
		}
		here := At(r, nil)
		for _, conj := range DNF(v, pol) {
			ways = append(ways, append(append([]Fact{}, conj...), here...))
		}
	}
	for i := range ways {
		for k := range ways[i] {
			ways[i][k].Via = cl
		}
	}
	return ways
}

func isBoolType(t types.Type) bool {
	b, ok := t.Underlying().(*types.Basic)
	return ok && b.Info()&types.IsBoolean != 0
}

var invOp = map[token.Token]token.Token{token.EQL: token.NEQ, token.NEQ: token.EQL, token.LSS: token.GEQ,
	token.GEQ: token.LSS, token.LEQ: token.GTR, token.GTR: token.LEQ}

// Atom renders a condition with polarity as a canonical string using only ==, !=, <, <=.
func Atom(cond ssa.Value, pol bool) string {
	if b, ok := cond.(*ssa.BinOp); ok {
		if _, isCmp := invOp[b.Op]; isCmp {
			op := b.Op
			if !pol {
				op = invOp[op]
			}
			return CmpAtom(Term(b.X), op, Term(b.Y))
		}
	}
	if u, ok := cond.(*ssa.UnOp); ok && u.Op == token.NOT {
		return Atom(u.X, !pol)
	}
	t := Term(cond)
	if pol {
		return t
	}
	return "!" + t
}

// CmpAtom canonicalises "x op y".
func CmpAtom(x string, op token.Token, y string) string {
	switch op {
	case token.GTR:
		x, y, op = y, x, token.LSS
	case token.GEQ:
		x, y, op = y, x, token.LEQ
	case token.EQL, token.NEQ:
		if x == "nil" || (y != "nil" && y < x) {
			x, y = y, x
		}
	}
	return x + " " + op.String() + " " + y
}

// Has reports whether some fact's atom satisfies pred.
func Has(fs []Fact, pred func(atom string) bool) bool {
	for _, f := range fs {
		if pred(f.Atom) {
			return true
		}
	}
	return false
}

// HasAtom reports whether the exact atom is present.
func HasAtom(fs []Fact, atom string) bool {
	return Has(fs, func(a string) bool { return a == atom })
}

// Atoms lists the atoms (sorted).
func Atoms(fs []Fact) []string {
	var out []string
	seen := map[string]bool{}
	for _, f := range fs {
		if seen[f.Atom] {
			continue
		}
		seen[f.Atom] = true
		out = append(out, f.Atom)
	}
	sort.Strings(out)
	return out
}

func Join(fs []Fact) string { return strings.Join(Atoms(fs), " ; ") }

// PassesAny reports whether every path from entry to target uses at least one of the edges.
func PassesAny(target *ssa.BasicBlock, base Cuts, edges ...Edge) bool {
	return !Reachable(target, base.with(edges...))
}

// instrIndex returns the index of instr in its block.
func instrIndex(instr ssa.Instruction) int {
	for i, x := range instr.Block().Instrs {
		if x == instr {
			return i
		}
	}
	return -1
}

// MustPassAfter reports whether every path from just after `from` to any function exit
// (Return; panics are ignored as exits) executes an instruction satisfying pred. It returns
// a witness exit when it does not.
func MustPassAfter(from ssa.Instruction, pred func(ssa.Instruction) bool) (bool, ssa.Instruction) {
	type pos struct {
		b *ssa.BasicBlock
		i int
	}
	seen := map[*ssa.BasicBlock]bool{}
	st := []pos{{from.Block(), instrIndex(from) + 1}}
	for len(st) > 0 {
		p := st[len(st)-1]
		st = st[:len(st)-1]
		hit := false
		for i := p.i; i < len(p.b.Instrs); i++ {
			ins := p.b.Instrs[i]
			if pred(ins) {
				hit = true
				break
			}
			if r, ok := ins.(*ssa.Return); ok {
				return false, r
			}
		}
		if hit {
			continue
		}
		for _, s := range p.b.Succs {
			if !seen[s] {
				seen[s] = true
				st = append(st, pos{s, 0})
			}
		}
	}
	return true, nil
}

// Before reports whether on every path from the entry to `b` some instruction satisfying pred
// executes before `b` (order rule).
func Before(b ssa.Instruction, pred func(ssa.Instruction) bool) bool {
	fn := b.Parent()
	// same block, earlier instruction
	bi := instrIndex(b)
	for i := 0; i < bi; i++ {
		if pred(b.Block().Instrs[i]) {
			return true
		}
	}
	stop := map[*ssa.BasicBlock]bool{}
	for _, blk := range fn.Blocks {
		if blk == b.Block() {
			continue
		}
		for _, ins := range blk.Instrs {
			if pred(ins) {
				stop[blk] = true
				break
			}
		}
	}
	if stop[fn.Blocks[0]] {
		return true
	}
	return !reach(fn.Blocks[0], nil, stop)[b.Block()]
}

// Loop describes a natural loop by its header and back-edge sources.
type Loop struct {
	Header  *ssa.BasicBlock
	Latches []*ssa.BasicBlock
}

// LoopOf returns the innermost natural loop whose header dominates b and which contains b.
func LoopsOf(fn *ssa.Function) []Loop {
	var out []Loop
	for _, h := range fn.Blocks {
		var l []*ssa.BasicBlock
		for _, p := range h.Preds {
			if h.Dominates(p) {
				l = append(l, p)
			}
		}
		if len(l) > 0 {
			out = append(out, Loop{Header: h, Latches: l})
		}
	}
	return out
}

// Body returns the blocks of the loop.
func (l Loop) Body() map[*ssa.BasicBlock]bool {
	body := map[*ssa.BasicBlock]bool{l.Header: true}
	st := append([]*ssa.BasicBlock{}, l.Latches...)
	for len(st) > 0 {
		b := st[len(st)-1]
		st = st[:len(st)-1]
		if body[b] {
			continue
		}
		body[b] = true
		st = append(st, b.Preds...)
	}
	return body
}

// IterationFacts returns the facts that hold on every path from the loop header to each of
// its latches, i.e. in every completed iteration.
func (l Loop) IterationFacts(base Cuts) []Fact {
	var acc []Fact
	first := true
	for _, lt := range l.Latches {
		// a latch whose back edge is excluded by the caller is not a way to complete an iteration
		excluded := true
		for k, s := range lt.Succs {
			if s == l.Header && !base[Edge{lt.Index, k}] {
				excluded = false
			}
		}
		if excluded {
			continue
		}
		// cut the back edges so that "header -> latch" is a single iteration
		cuts := base.with()
		for _, x := range l.Latches {
			for k, s := range x.Succs {
				if s == l.Header {
					cuts[Edge{x.Index, k}] = true
				}
			}
		}
		fs := Between(l.Header, lt, cuts)
		// the latch's own branch towards the header is part of the completed iteration
		if iff, ok := lastIf(lt); ok && len(lt.Succs) == 2 && lt.Succs[0] != lt.Succs[1] {
			for k, s := range lt.Succs {
				if s == l.Header {
					fs = dedup(append(fs, expand(iff.Cond, k == 0, lt, base, 0)...))
				}
			}
		}
		if first {
			acc = fs
			first = false
		} else {
			acc = intersect(acc, fs)
		}
	}
	return acc
}

func intersect(a, b []Fact) []Fact {
	m := map[string]bool{}
	for _, f := range b {
		m[f.Atom] = true
	}
	var out []Fact
	for _, f := range a {
		if m[f.Atom] {
			out = append(out, f)
		}
	}
	return out
}

// Intersect is the exported intersection of fact lists by atom.
func Intersect(a, b []Fact) []Fact { return intersect(a, b) }

// ---- correlated-branch refinement ------------------------------------------------------------

// relSet encodes a comparison between an ordered operand pair as a subset of {lt, eq, gt}.
const (
	relLT = 1
	relEQ = 2
	relGT = 4
)

// condRel decomposes (cond, pol) into an operand pair and the relation set it asserts; for a
// plain boolean value v it returns (v, nil, eq-set for true / lt|gt-set for false).
func condRel(cond ssa.Value, pol bool) (x, y ssa.Value, rel int, ok bool) {
	for {
		u, isU := cond.(*ssa.UnOp)
		if isU && u.Op == token.NOT {
			cond, pol = u.X, !pol
			continue
		}
		break
	}
	if b, isB := cond.(*ssa.BinOp); isB {
		r := 0
		switch b.Op {
		case token.EQL:
			r = relEQ
		case token.NEQ:
			r = relLT | relGT
		case token.LSS:
			r = relLT
		case token.LEQ:
			r = relLT | relEQ
		case token.GTR:
			r = relGT
		case token.GEQ:
			r = relGT | relEQ
		default:
			return nil, nil, 0, false
		}
		if !pol {
			r = (relLT | relEQ | relGT) &^ r
		}
		return b.X, b.Y, r, true
	}
	// boolean value: treat as (v == true)
	r := relEQ
	if !pol {
		r = relLT | relGT
	}
	return cond, nil, r, true
}

func swapRel(r int) int {
	s := r & relEQ
	if r&relLT != 0 {
		s |= relGT
	}
	if r&relGT != 0 {
		s |= relLT
	}
	return s
}

func sameConst(a, b ssa.Value) bool {
	ca, ok1 := a.(*ssa.Const)
	cb, ok2 := b.(*ssa.Const)
	if !ok1 || !ok2 {
		return false
	}
	if ca.Value == nil || cb.Value == nil {
		return ca.Value == nil && cb.Value == nil && types.Identical(ca.Type(), cb.Type())
	}
	return ca.Value.ExactString() == cb.Value.ExactString()
}

func sameVal(a, b ssa.Value) bool {
	if a == b {
		return true
	}
	if a == nil || b == nil {
		return false
	}
	return sameConst(a, b)
}

// definedAbove reports whether v is stable below anchor: a constant, parameter, free variable,
// global address, or an instruction whose block dominates the anchor (or is the anchor).
func definedAbove(v ssa.Value, anchor *ssa.BasicBlock) bool {
	switch x := v.(type) {
	case nil:
		return true
	case *ssa.Const, *ssa.Parameter, *ssa.FreeVar, *ssa.Global, *ssa.Function, *ssa.Builtin:
		return true
	case ssa.Instruction:
		b := x.Block()
		return b == anchor || b.Dominates(anchor)
	}
	return false
}

// AtRefined computes must-hold facts at instr like At, and additionally prunes CFG edges that
// contradict an already established fact over the very same SSA operand values (correlated
// branches such as `a == nil && b == nil` followed later by `b != nil`). The pruning is done
// per anchor block A that dominates the sink: only paths from the last execution of A to the
// sink are considered (in-edges of A are cut), and only conditions whose operands are defined
// at or above A take part, so the operand values are the same dynamic values on the whole
// suffix. The union over all anchors is returned.
func AtRefined(instr ssa.Instruction, base Cuts) []Fact {
	sink := instr.Block()
	fn := sink.Parent()
	all := At(instr, base)
	for a := sink; a != nil; a = a.Idom() {
		cuts := base.with()
		for _, p := range a.Preds {
			for k, s := range p.Succs {
				if s == a {
					cuts[Edge{p.Index, k}] = true
				}
			}
		}
		var fs []Fact
		for iter := 0; iter < 8; iter++ {
			fs = Between(a, sink, cuts)
			changed := false
			for _, b := range fn.Blocks {
				iff, ok := lastIf(b)
				if !ok || len(b.Succs) != 2 || b.Succs[0] == b.Succs[1] {
					continue
				}
				for k := 0; k < 2; k++ {
					e := Edge{b.Index, k}
					if cuts[e] {
						continue
					}
					ex, ey, er, ok := condRel(iff.Cond, k == 0)
					if !ok || !definedAbove(ex, a) || !definedAbove(ey, a) {
						continue
					}
					for _, f := range fs {
						fx, fy, fr, ok := condRel(f.Cond, f.Pol)
						if !ok {
							continue
						}
						contra := false
						if sameVal(ex, fx) && (ey == nil && fy == nil || sameVal(ey, fy)) {
							contra = er&fr == 0
						} else if ey != nil && fy != nil && sameVal(ex, fy) && sameVal(ey, fx) {
							contra = er&swapRel(fr) == 0
						}
						if contra {
							cuts[e] = true
							changed = true
							break
						}
					}
				}
			}
			if !changed {
				break
			}
		}
		all = append(all, fs...)
		if a == fn.Blocks[0] {
			break
		}
	}
	return dedup(all)
}

// DNF expands a boolean condition whose value is built from phis (switch-case and assignment
// forms of && / ||) into a disjunction of conjunctions of facts: each disjunct corresponds to one
// way control can have flowed through the phi network to produce `pol`, and carries the must-hold
// facts of the predecessor edge it came through.
func DNF(cond ssa.Value, pol bool) [][]Fact {
	return expandPhiFacts(dnf(cond, pol, nil, 0), 0)
}

// expandPhiFacts replaces, in every conjunction, a path fact whose condition is itself a boolean
// phi (a flag such as `allOK` set on some branches) by the ways that phi can have that value.
func expandPhiFacts(in [][]Fact, depth int) [][]Fact {
	if depth > 3 {
		return in
	}
	var out [][]Fact
	changed := false
	for _, conj := range in {
		idx := -1
		for k, f := range conj {
			if ph, ok := f.Cond.(*ssa.Phi); ok && !loopCarriedPhi(ph) && allBoolish(ph) {
				idx = k
				break
			}
		}
		if idx < 0 {
			out = append(out, conj)
			continue
		}
		changed = true
		f := conj[idx]
		rest := append(append([]Fact{}, conj[:idx]...), conj[idx+1:]...)
		for _, sub := range dnf(f.Cond, f.Pol, f.If, 0) {
			out = append(out, dedup(append(append([]Fact{}, rest...), sub...)))
		}
	}
	if changed && len(out) < 64 {
		return expandPhiFacts(out, depth+1)
	}
	return out
}

func allBoolish(ph *ssa.Phi) bool {
	b, ok := ph.Type().Underlying().(*types.Basic)
	return ok && b.Info()&types.IsBoolean != 0
}

// loopCarriedPhi: some edge of the phi depends on the phi itself.
func loopCarriedPhi(ph *ssa.Phi) bool {
	seen := map[ssa.Value]bool{}
	var dep func(v ssa.Value, d int) bool
	dep = func(v ssa.Value, d int) bool {
		if v == ssa.Value(ph) {
			return true
		}
		if d > 6 || seen[v] {
			return false
		}
		seen[v] = true
		if x, ok := v.(*ssa.Phi); ok {
			for _, e := range x.Edges {
				if dep(e, d+1) {
					return true
				}
			}
		}
		return false
	}
	for _, e := range ph.Edges {
		if dep(e, 0) {
			return true
		}
	}
	return false
}

func dnf(cond ssa.Value, pol bool, at *ssa.BasicBlock, depth int) [][]Fact {
	if depth > 8 {
		return [][]Fact{{{Cond: cond, Pol: pol, Atom: Atom(cond, pol), If: at}}}
	}
	switch x := cond.(type) {
	case *ssa.UnOp:
		if x.Op == token.NOT {
			return dnf(x.X, !pol, at, depth+1)
		}
	case *ssa.Call:
		if ways := predicateWays(x, pol, false); len(ways) > 0 {
			var out [][]Fact
			for _, w := range ways {
				out = append(out, append([]Fact{{Cond: cond, Pol: pol, Atom: Atom(cond, pol), If: at}}, w...))
			}
			return out
		}
	case *ssa.Phi:
		var out [][]Fact
		for i, e := range x.Edges {
			pred := x.Block().Preds[i]
			ei := 0
			for k, s := range pred.Succs {
				if s == x.Block() {
					ei = k
				}
			}
			edgeFacts := AtEdge(pred, ei, nil)
			if c, ok := isBoolConst(e); ok {
				if c != pol {
					continue
				}
				out = append(out, append([]Fact{}, edgeFacts...))
				continue
			}
			for _, conj := range dnf(e, pol, pred, depth+1) {
				out = append(out, append(append([]Fact{}, conj...), edgeFacts...))
			}
		}
		return out
	}
	return [][]Fact{{{Cond: cond, Pol: pol, Atom: Atom(cond, pol), If: at}}}
}

// BeforeFrom reports whether every path from block start to instruction b — ignoring the cut
// edges — passes an instruction satisfying pred (start's own instructions count).
func BeforeFrom(start *ssa.BasicBlock, b ssa.Instruction, cuts Cuts, pred func(ssa.Instruction) bool) bool {
	fn := b.Parent()
	bi := instrIndex(b)
	for i := 0; i < bi; i++ {
		if pred(b.Block().Instrs[i]) {
			return true
		}
	}
	stop := map[*ssa.BasicBlock]bool{}
	for _, blk := range fn.Blocks {
		if blk == b.Block() {
			continue
		}
		for _, ins := range blk.Instrs {
			if pred(ins) {
				stop[blk] = true
				break
			}
		}
	}
	if stop[start] {
		return true
	}
	return !reach(start, cuts, stop)[b.Block()]
}

// KnownNonNil is the exported form of knownNonNil.
func KnownNonNil(v ssa.Value, b *ssa.BasicBlock) bool { return knownNonNil(v, b) }

// IntrinsicNonNil: v can never be nil, wherever it is used — a freshly built value, the result of
// fmt.Errorf / errors.New, or a load of a package-level variable that is only ever assigned such
// values (sentinel errors).
func IntrinsicNonNil(v ssa.Value) bool {
	switch x := v.(type) {
	case *ssa.MakeInterface, *ssa.Alloc, *ssa.MakeMap, *ssa.MakeSlice, *ssa.MakeChan, *ssa.MakeClosure, *ssa.Function:
		return true
	case *ssa.Call:
		n := CalleeName(&x.Call)
		return strings.HasPrefix(n, "fmt.Errorf") || strings.HasPrefix(n, "errors.New") || strings.HasPrefix(n, "google.golang.org/grpc/status.Error")
	case *ssa.UnOp:
		if x.Op != token.MUL {
			return false
		}
		g, ok := x.X.(*ssa.Global)
		if !ok || g.Pkg == nil {
			return false
		}
		if r, ok := sentinelCache[g]; ok {
			return r
		}
		sentinelCache[g] = false
		stores, good := 0, true
		for _, m := range g.Pkg.Members {
			fn, ok := m.(*ssa.Function)
			if !ok {
				continue
			}
			var visit func(f *ssa.Function)
			visit = func(f *ssa.Function) {
				for _, b := range f.Blocks {
					for _, ins := range b.Instrs {
						if st, ok := ins.(*ssa.Store); ok && st.Addr == ssa.Value(g) {
							stores++
							if !IntrinsicNonNil(st.Val) {
								good = false
							}
						}
					}
				}
				for _, a := range f.AnonFuncs {
					visit(a)
				}
			}
			visit(fn)
		}
		// methods are not package members: a store from a method would be missed, so require the
		// variable to be unexported-or-exported but written at least once in init and nowhere
		// else among package-level functions; methods are scanned through the program's method sets
		res := stores >= 1 && good
		sentinelCache[g] = res
		return res
	}
	return false
}

var sentinelCache = map[*ssa.Global]bool{}

// CountedLoopIndex recognises the index variable of a classic counted loop
// `for i := 0; i < B; i++`: a phi in a loop header with the edges {0, phi+1} whose header test is
// `phi < B`. Such an index plays the role of the (rangeindex+1) value of a `range` loop and is
// rendered and treated the same way.
func CountedLoopIndex(v ssa.Value) (bound ssa.Value, ok bool) {
	ph, isPhi := v.(*ssa.Phi)
	if !isPhi || len(ph.Edges) != 2 {
		return nil, false
	}
	zero, step := false, false
	for _, e := range ph.Edges {
		if c, isC := e.(*ssa.Const); isC && c.Value != nil && c.Value.ExactString() == "0" {
			zero = true
			continue
		}
		if b, isB := e.(*ssa.BinOp); isB && b.Op == token.ADD && b.X == v {
			if c, isC := b.Y.(*ssa.Const); isC && c.Value != nil && c.Value.ExactString() == "1" {
				step = true
			}
		}
	}
	if !zero || !step {
		return nil, false
	}
	iff, isIf := lastIf(ph.Block())
	if !isIf {
		return nil, false
	}
	bo, isB := iff.Cond.(*ssa.BinOp)
	if !isB || bo.Op != token.LSS || bo.X != v {
		return nil, false
	}
	return bo.Y, true
}

// AccumulatorFacts: ph is a boolean flag carried around a loop ("allOK := true; for … { if !p(x)
// { allOK = false } }"): it enters the loop as the constant pol and inside the loop is only ever
// kept or set to !pol. Then "ph == pol after the loop" implies that no iteration took an edge that
// sets it to !pol, and the result is the set of facts that hold in every iteration that avoids
// those edges. ok is false when ph does not have that shape.
func AccumulatorFacts(ph *ssa.Phi, pol bool) ([]Fact, bool) {
	var loop *Loop
	for _, l := range LoopsOf(ph.Parent()) {
		if l.Header == ph.Block() {
			l := l
			loop = &l
		}
	}
	if loop == nil {
		return nil, false
	}
	body := loop.Body()
	cuts := Cuts{}
	okShape := true
	seen := map[*ssa.Phi]bool{}
	var visit func(v ssa.Value, from *ssa.BasicBlock, to *ssa.BasicBlock)
	visit = func(v ssa.Value, from, to *ssa.BasicBlock) {
		if v == ssa.Value(ph) {
			return
		}
		if c, isC := isBoolConst(v); isC {
			if c == pol {
				okShape = false // re-armed inside the loop: not monotone
				return
			}
			for k, sc := range from.Succs {
				if sc == to {
					cuts[Edge{from.Index, k}] = true
				}
			}
			return
		}
		m, isPhi := v.(*ssa.Phi)
		if !isPhi || !body[m.Block()] {
			okShape = false
			return
		}
		if seen[m] {
			return
		}
		seen[m] = true
		for j, e := range m.Edges {
			visit(e, m.Block().Preds[j], m.Block())
		}
	}
	entry := false
	for i, e := range ph.Edges {
		pred := ph.Block().Preds[i]
		if !body[pred] {
			if c, isC := isBoolConst(e); !isC || c != pol {
				return nil, false
			}
			entry = true
			continue
		}
		visit(e, pred, ph.Block())
	}
	if !okShape || !entry || len(cuts) == 0 {
		return nil, false
	}
	return loop.IterationFacts(cuts), true
}

// getOrCreate recognises `e := m[k]; if e == nil { e = &T{…}; m[k] = e }`: the phi that merges the
// looked-up entry with the freshly created one that has just been stored under the same key of the
// same map denotes m[k] on both edges; the lookup is returned as its canonical form.
func getOrCreate(ph *ssa.Phi) ssa.Value {
	if len(ph.Edges) != 2 {
		return nil
	}
	for li := 0; li < 2; li++ {
		var lk *ssa.Lookup
		switch x := ph.Edges[li].(type) {
		case *ssa.Lookup:
			lk = x
		case *ssa.Extract:
			if l2, ok := x.Tuple.(*ssa.Lookup); ok && x.Index == 0 {
				lk = l2
			}
		}
		if lk == nil {
			continue
		}
		if _, isMap := lk.X.Type().Underlying().(*types.Map); !isMap {
			continue
		}
		al, ok := ph.Edges[1-li].(*ssa.Alloc)
		if !ok || !al.Heap || al.Referrers() == nil {
			continue
		}
		// the created value is stored under the looked-up key of the looked-up map, in a block that
		// dominates the edge it arrives on
		stored := false
		pred := ph.Block().Preds[1-li]
		mt, kt := Term(lk.X), Term(lk.Index)
		for _, r := range *al.Referrers() {
			mu, ok := r.(*ssa.MapUpdate)
			if !ok || mu.Value != ssa.Value(al) {
				continue
			}
			if Term(mu.Map) == mt && Term(mu.Key) == kt && (mu.Block() == pred || mu.Block().Dominates(pred)) {
				stored = true
			}
		}
		if !stored {
			continue
		}
		// nothing else is put under that map on the lookup's own edge
		clean := true
		lp := ph.Block().Preds[li]
		for _, ins := range lp.Instrs {
			if mu, ok := ins.(*ssa.MapUpdate); ok && Term(mu.Map) == mt {
				clean = false
			}
		}
		if clean {
			return ph.Edges[li]
		}
	}
	return nil
}

// onlyFeasible: all but one incoming edge of the phi come over branches that can never be taken
// (a helper's boolean parameter bound to a literal at the call site and tested inside the inlined
// body): the phi is the value of the one edge that can.
func onlyFeasible(ph *ssa.Phi) ssa.Value {
	fn := ph.Parent()
	if fn == nil || len(fn.Blocks) == 0 || len(ph.Edges) < 2 {
		return nil
	}
	live := reach(fn.Blocks[0], nil, nil)
	var val ssa.Value
	n := 0
	for k, e := range ph.Edges {
		pred := ph.Block().Preds[k]
		if !live[pred] {
			continue
		}
		// the edge pred -> block itself may be the dead arm of a constant test
		sm := staticMask(pred)
		okEdge := false
		for q, sc := range pred.Succs {
			if sc == ph.Block() && sm&(1<<uint(q)) != 0 {
				okEdge = true
			}
		}
		if !okEdge {
			continue
		}
		n++
		val = e
	}
	if n == 1 && val != ssa.Value(ph) {
		return val
	}
	return nil
}
