// Package facts: SSA value -> normalised term strings, and must-hold branch facts at an
// instruction computed by cut-edge reachability (DESIGN §4, E1).
package facts

import (
	"fmt"
	"go/constant"
	"go/token"
	"go/types"
	"sort"
	"strings"

	"golang.org/x/tools/go/ssa"
)

var shorten = strings.NewReplacer(
	"github.com/alephium/wormhole-fork/node/pkg/proto/", "N/proto/",
	"github.com/alephium/wormhole-fork/node/pkg/", "N/",
	"github.com/alephium/wormhole-fork/node/cmd/", "N/cmd/",
	"github.com/alephium/wormhole-fork/explorer-backend/", "X/",
	"github.com/ethereum/go-ethereum/", "geth/",
	"github.com/alephium/go-sdk", "alphsdk",
	"github.com/dgraph-io/badger/v3", "badger",
)

// LocalNames maps the position of a `make(...)` call (its left parenthesis) to the name of the
// local variable it initialises; filled by the loader from the syntax trees of root packages so
// that anonymous maps and channels can be told apart in terms.
var LocalNames = map[token.Pos]string{}

// PinnedParams maps a function's canonical name to the names its parameters (receiver first) had on
// the reviewed tree, and "<name>#free" to the names of a closure's captured variables. Terms render
// parameters and captured variables by these pinned names (by position) as long as the arity is
// unchanged, so that renaming a parameter or receiver does not change any term. Loaded by the driver
// from /verif/sa/pinned_params.json; missing entries fall back to the current names.
var PinnedParams = map[string][]string{}

// sameNames: the two lists hold the same names (in any order): nothing was renamed, and a
// positional mapping would only mis-assign names when the order changed.
func sameNames(a []string, b []string) bool {
	if len(a) != len(b) {
		return false
	}
	m := map[string]int{}
	for _, x := range a {
		m[x]++
	}
	for _, x := range b {
		m[x]--
		if m[x] < 0 {
			return false
		}
	}
	return true
}

func pinnedName(fn *ssa.Function, v ssa.Value, free bool) string {
	if fn == nil {
		return v.Name()
	}
	key := FuncName(fn)
	if free {
		key += "#free"
		var cur []string
		for _, fv := range fn.FreeVars {
			cur = append(cur, fv.Name())
		}
		if names, ok := PinnedParams[key]; ok && len(names) == len(fn.FreeVars) && !sameNames(names, cur) {
			for i, fv := range fn.FreeVars {
				if fv == v {
					return names[i]
				}
			}
		}
		return v.Name()
	}
	var curp []string
	for _, p := range fn.Params {
		curp = append(curp, p.Name())
	}
	if names, ok := PinnedParams[key]; ok && len(names) == len(fn.Params) && !sameNames(names, curp) {
		for i, p := range fn.Params {
			if p == v {
				return names[i]
			}
		}
	}
	return v.Name()
}

// PinnedLocals maps a top-level function's canonical name to the names its local variables had on the
// reviewed tree, in order of declaration; CurrentLocals holds the same list for the tree being
// analysed (filled by the loader from the syntax tree). When both lists have the same length a
// local is rendered by the pinned name at its position, so renaming a local does not change terms.
// PinnedFuncs lists the canonical names of the repository's functions on the reviewed tree.
var PinnedFuncs = map[string]bool{}

var (
	PinnedLocals  = map[string][]string{}
	CurrentLocals = map[string][]string{}
)

// LocalName returns the pinned name of local variable `name` of function fn (or name itself).
func LocalName(fn *ssa.Function, name string) string {
	if fn == nil || name == "" {
		return name
	}
	for fn.Parent() != nil {
		fn = fn.Parent()
	}
	key := FuncName(fn)
	cur, pin := CurrentLocals[key], PinnedLocals[key]
	if len(cur) == 0 || len(cur) != len(pin) || sameNames(cur, pin) {
		return name
	}
	for i, n := range cur {
		if n == name {
			return pin[i]
		}
	}
	return name
}

// Short shortens well-known import path prefixes in rendered names.
func Short(s string) string { return shorten.Replace(s) }

// FuncName is the canonical name of a function used inside terms.
func FuncName(f *ssa.Function) string {
	if f == nil {
		return "?"
	}
	return Short(f.String())
}

// Term renders an SSA value as a normalised, alias-free expression string.
// paramBinding maps parameters of a callee to the argument values of the call being expanded.
var paramBinding = map[*ssa.Parameter]ssa.Value{}

func Term(v ssa.Value) string { return term(v, 0, map[ssa.Value]bool{}) }

func isNarrowing(from, to types.Type) bool {
	fb, ok1 := from.Underlying().(*types.Basic)
	tb, ok2 := to.Underlying().(*types.Basic)
	if !ok1 || !ok2 {
		return false
	}
	if fb.Info()&types.IsInteger == 0 || tb.Info()&types.IsInteger == 0 {
		return false
	}
	flo, fhi := IntRange(fb)
	tlo, thi := IntRange(tb)
	return constant.Compare(flo, token.LSS, tlo) || constant.Compare(fhi, token.GTR, thi)
}

// IntRange returns the inclusive range of a basic integer type (int/uint taken as 64 bit).
func IntRange(b *types.Basic) (lo, hi constant.Value) {
	bits := map[types.BasicKind]uint{types.Int8: 8, types.Int16: 16, types.Int32: 32, types.Int64: 64, types.Int: 64,
		types.Uint8: 8, types.Uint16: 16, types.Uint32: 32, types.Uint64: 64, types.Uint: 64, types.Uintptr: 64,
		types.UntypedInt: 64, types.UntypedRune: 32}
	n, ok := bits[b.Kind()]
	if !ok {
		n = 64
	}
	one := constant.MakeInt64(1)
	if b.Info()&types.IsUnsigned != 0 {
		return constant.MakeInt64(0), constant.BinaryOp(constant.Shift(one, token.SHL, n), token.SUB, one)
	}
	h := constant.Shift(one, token.SHL, n-1)
	return constant.UnaryOp(token.SUB, h, 0), constant.BinaryOp(h, token.SUB, one)
}

func fieldName(t types.Type, i int) string {
	if p, ok := t.Underlying().(*types.Pointer); ok {
		t = p.Elem()
	}
	if st, ok := t.Underlying().(*types.Struct); ok && i < st.NumFields() {
		return st.Field(i).Name()
	}
	return fmt.Sprintf("f%d", i)
}

func term(v ssa.Value, depth int, onstack map[ssa.Value]bool) string {
	if v == nil {
		return "nil"
	}
	if depth > 40 {
		return "…"
	}
	switch x := v.(type) {
	case *ssa.Const:
		if x.Value == nil {
			if _, ok := x.Type().Underlying().(*types.Basic); ok {
				return "zero"
			}
			return "nil"
		}
		return x.Value.ExactString()
	case *ssa.Parameter:
		if b, ok := paramBinding[x]; ok && !onstack[x] {
			// rendering a callee's fact in the caller's vocabulary (predicate expansion)
			onstack[x] = true
			defer delete(onstack, x)
			return term(b, depth+1, onstack)
		}
		return pinnedName(x.Parent(), x, false)
	case *ssa.FreeVar:
		return pinnedName(x.Parent(), x, true)
	case *ssa.Global:
		return Short(x.Pkg.Pkg.Path()) + "." + x.Name()
	case *ssa.Function:
		return "func:" + FuncName(x)
	case *ssa.Builtin:
		return x.Name()
	case *ssa.UnOp:
		switch x.Op {
		case token.MUL:
			// load; a load of a FieldAddr/IndexAddr is rendered as the access path itself
			switch x.X.(type) {
			case *ssa.FieldAddr, *ssa.IndexAddr:
				return term(x.X, depth+1, onstack)
			case *ssa.FreeVar:
				// a captured variable is held by reference; its load is the variable itself
				return term(x.X, depth+1, onstack)
			case *ssa.Alloc:
				if pv := SpilledParam(x.X.(*ssa.Alloc)); pv != nil {
					return term(pv, depth+1, onstack)
				}
				return term(x.X, depth+1, onstack)
			}
			return "*" + term(x.X, depth+1, onstack)
		case token.ARROW:
			return "<-" + term(x.X, depth+1, onstack)
		}
		return x.Op.String() + "(" + term(x.X, depth+1, onstack) + ")"
	case *ssa.FieldAddr:
		return term(x.X, depth+1, onstack) + "." + fieldName(x.X.Type(), x.Field)
	case *ssa.Field:
		return term(x.X, depth+1, onstack) + "." + fieldName(x.X.Type(), x.Field)
	case *ssa.IndexAddr:
		return term(x.X, depth+1, onstack) + "[" + term(x.Index, depth+1, onstack) + "]"
	case *ssa.Index:
		return term(x.X, depth+1, onstack) + "[" + term(x.Index, depth+1, onstack) + "]"
	case *ssa.Lookup:
		return term(x.X, depth+1, onstack) + "[" + term(x.Index, depth+1, onstack) + "]"
	case *ssa.Extract:
		return term(x.Tuple, depth+1, onstack) + "#" + fmt.Sprint(x.Index)
	case *ssa.Call:
		return callTerm(&x.Call, depth, onstack) + callOrdinal(x)
	case *ssa.BinOp:
		return "(" + term(x.X, depth+1, onstack) + " " + x.Op.String() + " " + term(x.Y, depth+1, onstack) + ")"
	case *ssa.Phi:
		if _, ok := CountedLoopIndex(x); ok {
			return "(phi:rangeindex + 1)"
		}
		if a := ThreadedValue(x); a != ssa.Value(x) && !onstack[x] {
			onstack[x] = true
			defer delete(onstack, x)
			return term(a, depth+1, onstack)
		}
		if onstack[x] || depth > 6 || loopCarried(x) {
			// loop-carried values are rendered by name so that the term does not depend on
			// where the cycle is entered
			return "phi:" + LocalName(x.Parent(), x.Comment)
		}
		onstack[x] = true
		var es []string
		seenV := map[ssa.Value]bool{}
		for _, e := range x.Edges {
			if seenV[e] {
				continue
			}
			seenV[e] = true
			es = append(es, term(e, depth+1, onstack))
		}
		delete(onstack, x)
		sort.Strings(es)
		if len(es) == 1 {
			return es[0]
		}
		return "phi{" + strings.Join(es, "|") + "}"
	case *ssa.Convert:
		if isNarrowing(x.X.Type(), x.Type()) {
			return "narrow:" + types.TypeString(x.Type(), func(p *types.Package) string { return p.Name() }) + "(" + term(x.X, depth+1, onstack) + ")"
		}
		return term(x.X, depth+1, onstack)
	case *ssa.ChangeType:
		return term(x.X, depth+1, onstack)
	case *ssa.ChangeInterface:
		return term(x.X, depth+1, onstack)
	case *ssa.MakeInterface:
		return term(x.X, depth+1, onstack)
	case *ssa.SliceToArrayPointer:
		return term(x.X, depth+1, onstack)
	case *ssa.Slice:
		if al, ok := x.X.(*ssa.Alloc); ok && al.Comment == "varargs" && al.Referrers() != nil {
			// variadic argument array: render the element stores
			elems := map[string]string{}
			var keys []string
			for _, r := range *al.Referrers() {
				if ia, ok := r.(*ssa.IndexAddr); ok && ia.Referrers() != nil {
					for _, rr := range *ia.Referrers() {
						if st, ok := rr.(*ssa.Store); ok && st.Addr == ia {
							k := term(ia.Index, depth+1, onstack)
							if _, dup := elems[k]; !dup {
								keys = append(keys, k)
							}
							elems[k] = term(st.Val, depth+1, onstack)
						}
					}
				}
			}
			sort.Strings(keys)
			var es []string
			for _, k := range keys {
				es = append(es, elems[k])
			}
			return "[" + strings.Join(es, ",") + "]"
		}
		lo, hi := "", ""
		if x.Low != nil {
			lo = term(x.Low, depth+1, onstack)
		}
		if x.High != nil {
			hi = term(x.High, depth+1, onstack)
		}
		if lo == "" && hi == "" {
			return term(x.X, depth+1, onstack) + "[:]"
		}
		return term(x.X, depth+1, onstack) + "[" + lo + ":" + hi + "]"
	case *ssa.Alloc:
		if x.Comment != "" {
			return "local:" + LocalName(x.Parent(), x.Comment)
		}
		return "local:" + x.Name()
	case *ssa.TypeAssert:
		return "assert:" + types.TypeString(x.AssertedType, func(p *types.Package) string { return p.Name() }) + "(" + term(x.X, depth+1, onstack) + ")"
	case *ssa.MakeClosure:
		return "closure:" + FuncName(x.Fn.(*ssa.Function))
	case *ssa.MakeMap:
		if n := LocalNames[x.Pos()]; n != "" {
			return "map:" + LocalName(x.Parent(), n)
		}
		return "makemap"
	case *ssa.MakeSlice:
		return "makeslice(" + term(x.Len, depth+1, onstack) + ")"
	case *ssa.MakeChan:
		if n := LocalNames[x.Pos()]; n != "" {
			return "chan:" + LocalName(x.Parent(), n)
		}
		return "makechan"
	case *ssa.Select:
		return "select"
	case *ssa.Range:
		return "range(" + term(x.X, depth+1, onstack) + ")"
	case *ssa.Next:
		return "next(" + term(x.Iter, depth+1, onstack) + ")"
	}
	return fmt.Sprintf("<%T>", v)
}

// CalleeName returns the canonical name of the function called by a call, "invoke:<iface>.<m>"
// for interface method calls, the builtin name, or "dyn" for calls of function values.
func CalleeName(c *ssa.CallCommon) string {
	if f := c.StaticCallee(); f != nil {
		return FuncName(f)
	}
	if b, ok := c.Value.(*ssa.Builtin); ok {
		return b.Name()
	}
	if c.IsInvoke() {
		return "invoke:" + Short(types.TypeString(c.Value.Type(), nil)) + "." + c.Method.Name()
	}
	return "dyn"
}

func callTerm(c *ssa.CallCommon, depth int, onstack map[ssa.Value]bool) string {
	var args []string
	if c.IsInvoke() {
		args = append(args, term(c.Value, depth+1, onstack))
	}
	for _, a := range c.Args {
		args = append(args, term(a, depth+1, onstack))
	}
	name := CalleeName(c)
	if name == "dyn" {
		name = "dyn:" + term(c.Value, depth+1, onstack)
	}
	return name + "(" + strings.Join(args, ",") + ")"
}

// SpilledParam returns the parameter (or free variable) p when the allocation is merely the
// heap/stack home of p: it is stored exactly once, from p, and no closure that captures it
// writes to it. A load of such an allocation equals p.
func SpilledParam(a *ssa.Alloc) ssa.Value {
	if a.Referrers() == nil {
		return nil
	}
	var val ssa.Value
	n := 0
	for _, r := range *a.Referrers() {
		switch x := r.(type) {
		case *ssa.Store:
			if x.Addr == a {
				n++
				val = x.Val
			}
		case *ssa.MakeClosure:
			fn := x.Fn.(*ssa.Function)
			for i, b := range x.Bindings {
				if b == a && freeVarWritten(fn, fn.FreeVars[i], 0) {
					return nil
				}
			}
		}
	}
	if n != 1 {
		return nil
	}
	switch val.(type) {
	case *ssa.Parameter, *ssa.FreeVar:
		return val
	}
	return nil
}

func freeVarWritten(fn *ssa.Function, fv *ssa.FreeVar, depth int) bool {
	if fv.Referrers() == nil {
		return false
	}
	if depth > 4 {
		return true
	}
	for _, r := range *fv.Referrers() {
		switch x := r.(type) {
		case *ssa.Store:
			if x.Addr == fv {
				return true
			}
		case *ssa.MakeClosure:
			g := x.Fn.(*ssa.Function)
			for i, b := range x.Bindings {
				if b == fv && freeVarWritten(g, g.FreeVars[i], depth+1) {
					return true
				}
			}
		}
	}
	return false
}

// loopCarried reports whether the phi (transitively, through phis, arithmetic and append)
// depends on itself.
func loopCarried(p *ssa.Phi) bool {
	seen := map[ssa.Value]bool{}
	var walk func(v ssa.Value, d int) bool
	walk = func(v ssa.Value, d int) bool {
		if d > 6 || v == nil || seen[v] {
			return false
		}
		seen[v] = true
		switch x := v.(type) {
		case *ssa.Phi:
			for _, e := range x.Edges {
				if e == p || walk(e, d+1) {
					return true
				}
			}
		case *ssa.BinOp:
			return x.X == p || x.Y == p || walk(x.X, d+1) || walk(x.Y, d+1)
		case *ssa.Convert:
			return x.X == p || walk(x.X, d+1)
		case *ssa.Call:
			if b, ok := x.Call.Value.(*ssa.Builtin); ok && b.Name() == "append" && len(x.Call.Args) > 0 {
				return x.Call.Args[0] == p || walk(x.Call.Args[0], d+1)
			}
		}
		return false
	}
	return walk(p, 0)
}

// Distinct call instructions of one function that render to the same text (same callee, same
// argument terms — e.g. two reads of the chain head) are told apart by an ordinal suffix @k in
// block order, so that term equality never identifies two different call results.
var (
	ordCache    = map[*ssa.Function]map[*ssa.Call]string{}
	ordBuilding = map[*ssa.Function]bool{}
)

func callOrdinal(c *ssa.Call) string {
	fn := c.Parent()
	if fn == nil || ordBuilding[fn] {
		return ""
	}
	m, ok := ordCache[fn]
	if !ok {
		ordBuilding[fn] = true
		groups := map[string][]*ssa.Call{}
		for _, b := range fn.Blocks {
			for _, i := range b.Instrs {
				if cl, ok := i.(*ssa.Call); ok {
					if _, isB := cl.Call.Value.(*ssa.Builtin); isB {
						continue
					}
					if pureCallee(CalleeName(&cl.Call)) {
						continue // equal arguments give equal results: no need to tell instances apart
					}
					k := callTerm(&cl.Call, 0, map[ssa.Value]bool{})
					groups[k] = append(groups[k], cl)
				}
			}
		}
		delete(ordBuilding, fn)
		m = map[*ssa.Call]string{}
		for _, g := range groups {
			if len(g) < 2 {
				continue
			}
			for k, cl := range g {
				if k > 0 {
					m[cl] = fmt.Sprintf("@%d", k+1)
				}
			}
		}
		ordCache[fn] = m
	}
	return m[c]
}

var purePrefixes = []string{"encoding/hex.", "geth/common.BytesTo", "geth/common.HexTo", "geth/crypto.Keccak256", "(geth/common.Hash).", "(geth/common.Address).",
	"strings.", "fmt.Sprintf", "fmt.Sprint", "math/big.NewInt", "(N/vaa.Address).", "(N/vaa.ChainID).", "N/processor.CalculateQuorum", "encoding/binary.", "(encoding/binary.",
	"go.uber.org/zap."}

func pureCallee(name string) bool {
	for _, p := range purePrefixes {
		if strings.HasPrefix(name, p) {
			return true
		}
	}
	return false
}

// CellOfFreeVar: the allocation a captured variable is bound to, followed outwards through
// enclosing function literals that merely pass the capture on.
func CellOfFreeVar(fv *ssa.FreeVar, depth int) *ssa.Alloc {
	fn := fv.Parent()
	if fn == nil || fn.Parent() == nil || depth > 4 {
		return nil
	}
	idx := -1
	for k, q := range fn.FreeVars {
		if q == fv {
			idx = k
		}
	}
	var out *ssa.Alloc
	for _, b := range fn.Parent().Blocks {
		for _, i := range b.Instrs {
			if mc, isMC := i.(*ssa.MakeClosure); isMC && mc.Fn == ssa.Value(fn) && idx >= 0 && idx < len(mc.Bindings) {
				switch bd := mc.Bindings[idx].(type) {
				case *ssa.Alloc:
					out = bd
				case *ssa.FreeVar:
					out = CellOfFreeVar(bd, depth+1)
				}
			}
		}
	}
	return out
}

var initOnlyCache = map[*ssa.Alloc]ssa.Value{}
var initOnlyDone = map[*ssa.Alloc]bool{}

// InitOnlyCell: the heap cell of a named local that is captured by a function literal, written
// exactly once — by the initialisation that follows its declaration in the same block — and
// otherwise only read (in the declaring function and every literal nested in it). Such a variable
// is an alias of its initialiser; the initialiser is returned. nil for anything else (a parameter
// spill, a variable assigned anywhere else, a variable whose address escapes otherwise).
func InitOnlyCell(a *ssa.Alloc) ssa.Value {
	if initOnlyDone[a] {
		return initOnlyCache[a]
	}
	initOnlyDone[a] = true
	if !a.Heap || a.Comment == "" || a.Comment == "complit" || a.Comment == "varargs" || a.Comment == "makeslice" || a.Referrers() == nil {
		return nil
	}
	if _, isStruct := a.Type().(*types.Pointer).Elem().Underlying().(*types.Struct); isStruct {
		return nil // field-wise initialisation
	}
	if _, isArr := a.Type().(*types.Pointer).Elem().Underlying().(*types.Array); isArr {
		return nil
	}
	var init *ssa.Store
	captured := false
	for _, r := range *a.Referrers() {
		switch x := r.(type) {
		case *ssa.Store:
			if x.Addr != ssa.Value(a) || init != nil {
				return nil
			}
			init = x
		case *ssa.MakeClosure:
			captured = true
		case *ssa.UnOp:
			if x.Op != token.MUL {
				return nil
			}
		case *ssa.DebugRef:
		default:
			return nil // address taken in some other way
		}
	}
	if init == nil || !captured || init.Block() != a.Block() {
		return nil
	}
	// no literal that captures the cell writes it
	okAll := true
	var scan func(f *ssa.Function)
	scan = func(f *ssa.Function) {
		for _, g := range f.AnonFuncs {
			for _, fv := range g.FreeVars {
				if CellOfFreeVar(fv, 0) != a || fv.Referrers() == nil {
					continue
				}
				for _, r := range *fv.Referrers() {
					switch x := r.(type) {
					case *ssa.UnOp:
						if x.Op != token.MUL {
							okAll = false
						}
					case *ssa.MakeClosure, *ssa.DebugRef:
					default:
						okAll = false
					}
				}
			}
			scan(g)
		}
	}
	scan(a.Parent())
	if !okAll {
		return nil
	}
	// the initialiser must not itself read the cell
	initOnlyCache[a] = init.Val
	return init.Val
}
