// Package layout extracts the ordered sequence of binary reads/writes performed by a Go
// serializer or deserializer from its syntax tree and type information (DESIGN §4, E5).
package layout

import (
	"fmt"
	"go/ast"
	"go/constant"
	"go/token"
	"go/types"
	"strings"

	"golang.org/x/tools/go/packages"
	"golang.org/x/tools/go/types/typeutil"
)

// Ev is one I/O event of a (de)serializer, in source order.
type Ev struct {
	Kind     string // "write", "read", "write-call" (nested serializer), "unknown"
	Width    int    // bytes; -1 = variable length
	Field    string // source (write) or destination (read) expression
	Order    string // byte order expression for binary.Read/Write ("" for raw byte copies)
	Loop     int    // loop nesting depth
	LoopInit string // "i := 0" for a three-clause loop
	ConstVal string // value of the written expression when it is a compile-time constant
	LoopX    string // innermost loop's range expression / condition
	Cond     bool   // executed conditionally (inside an if/switch/func literal body)
	BufSize  string // for variable-length reads: how the buffer was sized
	Callee   string
	Pos      token.Pos
}

func (e Ev) String() string {
	w := fmt.Sprint(e.Width)
	if e.Width < 0 {
		w = "var"
	}
	s := fmt.Sprintf("%s %s[%s]", e.Kind, e.Field, w)
	if e.Loop > 0 {
		s += fmt.Sprintf(" loop(%s)", e.LoopX)
	}
	if e.Cond {
		s += " cond"
	}
	if e.BufSize != "" {
		s += " buf=" + e.BufSize
	}
	return s
}

// FindFunc returns the declaration of function name, or method recv.name when recv != "".
func FindFunc(pkg *packages.Package, recv, name string) *ast.FuncDecl {
	for _, f := range pkg.Syntax {
		for _, d := range f.Decls {
			fd, ok := d.(*ast.FuncDecl)
			if !ok || fd.Name.Name != name {
				continue
			}
			if recv == "" && fd.Recv == nil {
				return fd
			}
			if recv != "" && fd.Recv != nil && len(fd.Recv.List) == 1 {
				t := fd.Recv.List[0].Type
				if s, ok := t.(*ast.StarExpr); ok {
					t = s.X
				}
				if id, ok := t.(*ast.Ident); ok && id.Name == recv {
					return fd
				}
			}
		}
	}
	return nil
}

// SizeOf returns the fixed encoded size of a type under encoding/binary, or -1.
func SizeOf(t types.Type) int {
	switch u := t.Underlying().(type) {
	case *types.Basic:
		switch u.Kind() {
		case types.Uint8, types.Int8, types.Bool:
			return 1
		case types.Uint16, types.Int16:
			return 2
		case types.Uint32, types.Int32:
			return 4
		case types.Uint64, types.Int64:
			return 8
		}
	case *types.Array:
		if s := SizeOf(u.Elem()); s > 0 {
			return s * int(u.Len())
		}
	}
	return -1
}

func exprStr(e ast.Expr) string { return types.ExprString(e) }

// Extract lists the I/O events of fd in source order.
func Extract(pkg *packages.Package, fd *ast.FuncDecl) []Ev {
	info := pkg.TypesInfo
	// locals defined exactly once by `x := EXPR` (and never assigned again): a write of such a
	// local is a write of EXPR
	defs := map[types.Object]ast.Expr{}
	assigned := map[types.Object]int{}
	ast.Inspect(fd.Body, func(n ast.Node) bool {
		if inc, ok := n.(*ast.IncDecStmt); ok {
			if id, ok := inc.X.(*ast.Ident); ok {
				if obj := info.Uses[id]; obj != nil {
					assigned[obj]++
				}
			}
			return true
		}
		if u, ok := n.(*ast.UnaryExpr); ok && u.Op == token.AND {
			// a local whose address is taken can change behind the name
			if id, ok := u.X.(*ast.Ident); ok {
				if obj := info.Uses[id]; obj != nil {
					if _, isStruct := obj.Type().Underlying().(*types.Struct); !isStruct {
						assigned[obj]++
					}
				}
			}
			return true
		}
		as, ok := n.(*ast.AssignStmt)
		if !ok {
			return true
		}
		for i, l := range as.Lhs {
			id, ok := l.(*ast.Ident)
			if !ok {
				continue
			}
			obj := info.Defs[id]
			if obj == nil {
				obj = info.Uses[id]
			}
			if obj == nil {
				continue
			}
			assigned[obj]++
			if as.Tok == token.DEFINE && len(as.Lhs) == len(as.Rhs) && info.Defs[id] != nil {
				defs[obj] = as.Rhs[i]
			}
		}
		return true
	})
	resolve := func(e ast.Expr) ast.Expr {
		for k := 0; k < 3; k++ {
			id, ok := e.(*ast.Ident)
			if !ok {
				return e
			}
			obj := info.Uses[id]
			if obj == nil || assigned[obj] != 1 || defs[obj] == nil {
				return e
			}
			// only pure defining expressions (conversions, selectors, len, method calls on the
			// receiver's fields such as Timestamp.Unix())
			e = defs[obj]
		}
		return e
	}
	// deepStr prints an expression with single-definition locals replaced by their defining
	// expressions at any depth (`uint8(n)` with `n := len(v.Signatures)`)
	var deepStr func(e ast.Expr, d int) string
	deepStr = func(e ast.Expr, d int) string {
		if d > 6 {
			return exprStr(e)
		}
		switch x := e.(type) {
		case *ast.Ident:
			if r := resolve(x); r != ast.Expr(x) {
				return deepStr(r, d+1)
			}
			return x.Name
		case *ast.ParenExpr:
			return "(" + deepStr(x.X, d+1) + ")"
		case *ast.CallExpr:
			// a conversion between integer types of the same width (uint16(chainID) with ChainID
			// defined as uint16) writes the same bytes as its operand
			if tv, ok := info.Types[x.Fun]; ok && tv.IsType() && len(x.Args) == 1 {
				from, to := info.TypeOf(x.Args[0]), info.TypeOf(x)
				if from != nil && to != nil && SizeOf(from) > 0 && SizeOf(from) == SizeOf(to) {
					fb, ok1 := from.Underlying().(*types.Basic)
					tb, ok2 := to.Underlying().(*types.Basic)
					if ok1 && ok2 && fb.Info()&types.IsInteger != 0 && tb.Info()&types.IsInteger != 0 {
						return deepStr(x.Args[0], d+1)
					}
				}
			}
			var as []string
			for _, a := range x.Args {
				as = append(as, deepStr(a, d+1))
			}
			return exprStr(x.Fun) + "(" + strings.Join(as, ", ") + ")"
		case *ast.SelectorExpr:
			if _, isPkg := info.Uses[identOf(x.X)].(*types.PkgName); isPkg {
				return exprStr(x)
			}
			return deepStr(x.X, d+1) + "." + x.Sel.Name
		case *ast.IndexExpr:
			return deepStr(x.X, d+1) + "[" + deepStr(x.Index, d+1) + "]"
		case *ast.StarExpr:
			return "*" + deepStr(x.X, d+1)
		case *ast.UnaryExpr:
			return x.Op.String() + deepStr(x.X, d+1)
		case *ast.BinaryExpr:
			return deepStr(x.X, d+1) + " " + x.Op.String() + " " + deepStr(x.Y, d+1)
		}
		return exprStr(e)
	}
	// structFields: arg is (a pointer to) a struct made only of fixed-size fields, the way
	// encoding/binary writes it: field by field, in declaration order, without padding. Returns
	// the source expression and width of every field, or nil.
	type fieldSrc struct {
		src   string
		width int
		cval  string
	}
	structFields := func(arg ast.Expr) []fieldSrc {
		t := info.TypeOf(arg)
		if t == nil {
			return nil
		}
		if pt, ok := t.Underlying().(*types.Pointer); ok {
			t = pt.Elem()
		}
		st, ok := t.Underlying().(*types.Struct)
		if !ok || st.NumFields() == 0 {
			return nil
		}
		base := arg
		if u, ok := arg.(*ast.UnaryExpr); ok && u.Op == token.AND {
			base = u.X
		}
		var lit *ast.CompositeLit
		if cl, ok := resolve(base).(*ast.CompositeLit); ok {
			lit = cl
		} else if u, ok := resolve(base).(*ast.UnaryExpr); ok && u.Op == token.AND {
			if cl, ok := u.X.(*ast.CompositeLit); ok {
				lit = cl
			}
		}
		var out []fieldSrc
		for i := 0; i < st.NumFields(); i++ {
			w := SizeOf(st.Field(i).Type())
			if w <= 0 {
				return nil
			}
			fs := fieldSrc{src: deepStr(base, 0) + "." + st.Field(i).Name(), width: w}
			if lit != nil {
				var el ast.Expr
				if len(lit.Elts) > 0 {
					if _, keyed := lit.Elts[0].(*ast.KeyValueExpr); keyed {
						for _, e := range lit.Elts {
							kv := e.(*ast.KeyValueExpr)
							if id, ok := kv.Key.(*ast.Ident); ok && id.Name == st.Field(i).Name() {
								el = kv.Value
							}
						}
					} else if i < len(lit.Elts) {
						el = lit.Elts[i]
					}
				}
				if el == nil {
					fs.src, fs.cval = "0", "0"
				} else {
					fs.src = deepStr(el, 0)
					if tv, ok := info.Types[el]; ok && tv.Value != nil {
						fs.cval = tv.Value.ExactString()
					}
				}
			}
			out = append(out, fs)
		}
		return out
	}
	var out []Ev
	var stack []ast.Node
	// the value most recently encoded into a local fixed-size array by binary.<order>.PutUintN
	// (`var b [2]byte; binary.BigEndian.PutUint16(b[:], v); buf.Write(b[:])`)
	type staged struct {
		val   ast.Expr
		order string
	}
	stagedIn := map[types.Object]staged{}
	// pieces written into a local fixed-size array at constant offsets (PutUintN into arr[lo:hi],
	// arr[k] = x, copy(arr[lo:hi], src[:])) before the array is written out as a whole
	type piece struct {
		off, width int
		val        ast.Expr
		order      string
	}
	pieces := map[types.Object][]piece{}
	constOf := func(e ast.Expr) (int, bool) {
		if e == nil {
			return 0, true
		}
		if tv, ok := info.Types[e]; ok && tv.Value != nil {
			if k, exact := constantInt(tv.Value); exact {
				return k, true
			}
		}
		return 0, false
	}
	arrayIdent := func(e ast.Expr) types.Object {
		id, ok := e.(*ast.Ident)
		if !ok {
			return nil
		}
		obj := info.Uses[id]
		if obj == nil {
			return nil
		}
		if _, isArr := obj.Type().Underlying().(*types.Array); !isArr {
			return nil
		}
		return obj
	}
	// single-byte stores arr[k] = x
	ast.Inspect(fd.Body, func(n ast.Node) bool {
		as, ok := n.(*ast.AssignStmt)
		if !ok || as.Tok != token.ASSIGN || len(as.Lhs) != 1 || len(as.Rhs) != 1 {
			return true
		}
		ix, ok := as.Lhs[0].(*ast.IndexExpr)
		if !ok {
			return true
		}
		if obj := arrayIdent(ix.X); obj != nil {
			if k, isK := constOf(ix.Index); isK {
				pieces[obj] = append(pieces[obj], piece{k, 1, as.Rhs[0], ""})
			}
		}
		return true
	})
	ast.Inspect(fd.Body, func(n ast.Node) bool {
		if n == nil {
			stack = stack[:len(stack)-1]
			return true
		}
		stack = append(stack, n)
		call, ok := n.(*ast.CallExpr)
		if !ok {
			return true
		}
		callee := typeutil.Callee(info, call)
		fn, _ := callee.(*types.Func)
		if fn == nil {
			return true
		}
		full := fn.FullName()
		ev := Ev{Callee: full, Pos: call.Pos()}
		var expand []fieldSrc
		if strings.HasPrefix(full, "(encoding/binary.") && strings.Contains(full, ").PutUint") && len(call.Args) == 2 {
			if sl, ok := call.Args[0].(*ast.SliceExpr); ok && (sl.Low != nil || sl.High != nil) {
				if obj := arrayIdent(sl.X); obj != nil {
					if lo, isK := constOf(sl.Low); isK {
						w := map[string]int{"PutUint16": 2, "PutUint32": 4, "PutUint64": 8}[full[strings.LastIndex(full, ".")+1:]]
						order := ""
						if se, ok := call.Fun.(*ast.SelectorExpr); ok {
							order = exprStr(se.X)
						}
						pieces[obj] = append(pieces[obj], piece{lo, w, call.Args[1], order})
					}
				}
				return true
			}
			if sl, ok := call.Args[0].(*ast.SliceExpr); ok && sl.Low == nil && sl.High == nil {
				if id, ok := sl.X.(*ast.Ident); ok {
					if obj := info.Uses[id]; obj != nil {
						order := ""
						if se, ok := call.Fun.(*ast.SelectorExpr); ok {
							order = exprStr(se.X)
						}
						stagedIn[obj] = staged{call.Args[1], order}
					}
				}
			}
			return true
		}
		switch {
		case full == "encoding/binary.Write" || strings.HasSuffix(full, "/vaa.MustWrite"):
			if len(call.Args) != 3 {
				return true
			}
			ev.Kind, ev.Order = "write", exprStr(call.Args[1])
			ev.Field = deepStr(call.Args[2], 0)
			ev.Width = SizeOf(info.TypeOf(call.Args[2]))
			if tv, ok := info.Types[call.Args[2]]; ok && tv.Value != nil {
				ev.ConstVal = tv.Value.ExactString()
			}
			expand = structFields(call.Args[2])
		case full == "(*bytes.Buffer).Write":
			ev.Kind = "write"
			arg := resolve(call.Args[0])
			if sl, ok := arg.(*ast.SliceExpr); ok && sl.Low == nil && sl.High == nil {
				if s := SizeOf(info.TypeOf(sl.X)); s > 0 {
					if _, isArr := info.TypeOf(sl.X).Underlying().(*types.Array); isArr {
						ev.Width, ev.Field = s, exprStr(sl.X)
						if obj := arrayIdent(sl.X); obj != nil && len(pieces[obj]) > 0 {
							// the pieces must tile the array exactly
							ps := append([]piece{}, pieces[obj]...)
							for i := 1; i < len(ps); i++ {
								for j := i; j > 0 && ps[j-1].off > ps[j].off; j-- {
									ps[j], ps[j-1] = ps[j-1], ps[j]
								}
							}
							next, tiled := 0, true
							for _, pc := range ps {
								if pc.off != next {
									tiled = false
								}
								next += pc.width
							}
							if tiled && next == s {
								for _, pc := range ps {
									f := fieldSrc{src: deepStr(pc.val, 0), width: pc.width}
									if tv, ok := info.Types[pc.val]; ok && tv.Value != nil {
										f.cval = tv.Value.ExactString()
									}
									expand = append(expand, f)
									if pc.width > 1 {
										ev.Order = pc.order
									}
								}
								break
							}
						}
						if id, ok := sl.X.(*ast.Ident); ok {
							if st, ok := stagedIn[info.Uses[id]]; ok && SizeOf(info.TypeOf(st.val)) == s {
								ev.Field, ev.Order = exprStr(resolve(st.val)), st.order
								if tv, ok := info.Types[st.val]; ok && tv.Value != nil {
									ev.ConstVal = tv.Value.ExactString()
								}
							}
						}
						break
					}
				}
			}
			if c2, ok := arg.(*ast.CallExpr); ok {
				if f2, _ := typeutil.Callee(info, c2).(*types.Func); f2 != nil {
					ev.Kind, ev.Field, ev.Width = "write-call", f2.FullName(), -1
					break
				}
			}
			ev.Width, ev.Field = -1, exprStr(arg)
		case full == "(*bytes.Buffer).WriteString":
			ev.Kind, ev.Width, ev.Field = "write", -1, "[]byte("+exprStr(call.Args[0])+")"
		case full == "(*bytes.Buffer).WriteByte":
			ev.Kind, ev.Width, ev.Field = "write", 1, exprStr(call.Args[0])
			if tv, ok := info.Types[call.Args[0]]; ok && tv.Value != nil {
				ev.ConstVal = tv.Value.ExactString()
			}
		case full == "encoding/binary.Read":
			ev.Kind, ev.Order = "read", exprStr(call.Args[1])
			dst := call.Args[2]
			if u, ok := dst.(*ast.UnaryExpr); ok && u.Op == token.AND {
				ev.Field = exprStr(u.X)
				ev.Width = SizeOf(info.TypeOf(u.X))
			} else {
				ev.Field, ev.Width = exprStr(dst), -1
				ev.Kind = "unknown"
			}
		case full == "(*bytes.Reader).ReadByte":
			ev.Kind, ev.Width = "read", 1
			ev.Field = lhsOf(stack, call, 0)
		case full == "(*bytes.Reader).Read" || full == "io.ReadFull" || full == "io.ReadAtLeast":
			ev.Kind = "read"
			arg := call.Args[len(call.Args)-1]
			if full != "(*bytes.Reader).Read" {
				arg = call.Args[1]
			}
			if sl, ok := arg.(*ast.SliceExpr); ok && sl.Low == nil && sl.High == nil {
				if _, isArr := info.TypeOf(sl.X).Underlying().(*types.Array); isArr {
					ev.Width, ev.Field = SizeOf(info.TypeOf(sl.X)), exprStr(sl.X)
					break
				}
			}
			ev.Width, ev.Field = -1, exprStr(arg)
			ev.BufSize = bufSize(info, fd, arg)
		case full == "io.ReadAll":
			ev.Kind, ev.Width, ev.Field, ev.BufSize = "read", -1, lhsOf(stack, call, 0), "remaining"
		case full == "(*bytes.Reader).Len" || full == "(*bytes.Buffer).Bytes" || full == "bytes.NewReader" || full == "bytes.NewBuffer" ||
			full == "(*bytes.Buffer).Grow" || full == "(*bytes.Buffer).Len" || full == "(*bytes.Buffer).Cap":
			// (Grow only reserves capacity)
			return true
		default:
			// other methods of bytes.Reader/Buffer move the cursor in ways the table does not model
			if strings.HasPrefix(full, "(*bytes.Reader).") || strings.HasPrefix(full, "(*bytes.Buffer).") {
				ev.Kind, ev.Width, ev.Field = "unknown", -1, exprStr(call)
			} else {
				return true
			}
		}
		// context
		for i := 0; i < len(stack)-1; i++ {
			switch p := stack[i].(type) {
			case *ast.ForStmt:
				if within(stack[i+1], p.Body) {
					// the single-pass `wvsaNL: for { …; break wvsaNL }` wrapper that helper
					// normalisation puts around an inlined body is not a loop
					if p.Cond == nil && p.Init == nil && p.Post == nil && i > 0 {
						if ls, ok := stack[i-1].(*ast.LabeledStmt); ok && strings.HasPrefix(ls.Label.Name, "wvsa") {
							continue
						}
					}
					ev.Loop++
					ev.LoopX = exprStr(p.Cond)
					if be, ok := p.Cond.(*ast.BinaryExpr); ok {
						// a bound hoisted into a local (`n := len(v.Signatures)`)
						ev.LoopX = exprStr(be.X) + " " + be.Op.String() + " " + exprStr(resolve(be.Y))
					}
					if as, ok := p.Init.(*ast.AssignStmt); ok && len(as.Lhs) == 1 && len(as.Rhs) == 1 {
						ev.LoopInit = exprStr(as.Lhs[0]) + " := " + exprStr(as.Rhs[0])
					}
				}
			case *ast.RangeStmt:
				if within(stack[i+1], p.Body) {
					ev.Loop++
					ev.LoopX = "range " + exprStr(p.X)
				}
			case *ast.IfStmt:
				if stack[i+1] == ast.Node(p.Body) || (p.Else != nil && stack[i+1] == ast.Node(p.Else)) {
					ev.Cond = true
				}
			case *ast.CaseClause, *ast.CommClause, *ast.FuncLit:
				ev.Cond = true
			}
		}
		if len(expand) > 0 {
			for _, f := range expand {
				e2 := ev
				e2.Field, e2.Width, e2.ConstVal = f.src, f.width, f.cval
				out = append(out, e2)
			}
			return true
		}
		out = append(out, ev)
		return true
	})
	return out
}

func identOf(e ast.Expr) *ast.Ident {
	id, _ := e.(*ast.Ident)
	return id
}

func within(child ast.Node, body *ast.BlockStmt) bool { return child == ast.Node(body) }

// lhsOf returns the i-th left-hand side of the assignment whose right-hand side is call.
func lhsOf(stack []ast.Node, call *ast.CallExpr, i int) string {
	for k := len(stack) - 2; k >= 0; k-- {
		if as, ok := stack[k].(*ast.AssignStmt); ok && len(as.Rhs) == 1 && as.Rhs[0] == ast.Expr(call) && i < len(as.Lhs) {
			return exprStr(as.Lhs[i])
		}
	}
	return "<discarded>"
}

// bufSize describes how a slice variable used as read buffer was sized: "const <k>",
// "remaining" (reader.Len()), or "expr <text>".
func bufSize(info *types.Info, fd *ast.FuncDecl, arg ast.Expr) string {
	id, isIdent := arg.(*ast.Ident)
	if _, isSel := arg.(*ast.SelectorExpr); !isIdent && !isSel {
		return "expr " + exprStr(arg)
	}
	var obj types.Object
	if isIdent {
		obj = info.ObjectOf(id)
	}
	// a size kept in a local that is defined once from reader.Len()
	lenLocal := func(e ast.Expr) bool {
		sid, ok := e.(*ast.Ident)
		if !ok {
			return false
		}
		sobj := info.ObjectOf(sid)
		ndef, fromLen := 0, false
		ast.Inspect(fd.Body, func(n ast.Node) bool {
			as, ok := n.(*ast.AssignStmt)
			if !ok {
				return true
			}
			for i, l := range as.Lhs {
				li, ok := l.(*ast.Ident)
				if !ok || info.ObjectOf(li) != sobj {
					continue
				}
				ndef++
				if len(as.Lhs) == len(as.Rhs) {
					if c2, ok := as.Rhs[i].(*ast.CallExpr); ok {
						if f2, _ := typeutil.Callee(info, c2).(*types.Func); f2 != nil && f2.FullName() == "(*bytes.Reader).Len" {
							fromLen = true
						}
					}
				}
			}
			return true
		})
		return ndef == 1 && fromLen
	}
	res := "unknown"
	if !isIdent {
		res = "expr " + exprStr(arg)
	}
	ast.Inspect(fd.Body, func(n ast.Node) bool {
		as, ok := n.(*ast.AssignStmt)
		if !ok {
			return true
		}
		for i, l := range as.Lhs {
			if i >= len(as.Rhs) {
				continue
			}
			if isIdent {
				li, ok := l.(*ast.Ident)
				if !ok || info.ObjectOf(li) != obj {
					continue
				}
			} else if exprStr(l) != exprStr(arg) {
				continue
			}
			mk, ok := as.Rhs[i].(*ast.CallExpr)
			if !ok {
				continue
			}
			if f, ok := mk.Fun.(*ast.Ident); ok && f.Name == "make" && len(mk.Args) >= 2 {
				sz := mk.Args[1]
				if tv, ok := info.Types[sz]; ok && tv.Value != nil {
					res = "const " + tv.Value.ExactString()
				} else if c2, ok := sz.(*ast.CallExpr); ok {
					if f2, _ := typeutil.Callee(info, c2).(*types.Func); f2 != nil && f2.FullName() == "(*bytes.Reader).Len" {
						res = "remaining"
					} else {
						res = "expr " + exprStr(sz)
					}
				} else if lenLocal(sz) {
					res = "remaining"
				} else {
					res = "expr " + exprStr(sz)
				}
			}
		}
		return true
	})
	return res
}

// Offsets assigns cumulative offsets to a straight-line (loop-free) event list; the offset of
// an event after a variable-length one is -1.
func Offsets(evs []Ev) []int {
	out := make([]int, len(evs))
	off := 0
	for i, e := range evs {
		out[i] = off
		if off >= 0 {
			if e.Width < 0 {
				off = -1
			} else {
				off += e.Width
			}
		}
	}
	return out
}

// BinarySize is the number of bytes encoding/binary writes for a value of type t (basic
// fixed-width types, arrays and structs of them, and pointers to such data), or -1.
func BinarySize(t types.Type) int {
	switch u := t.Underlying().(type) {
	case *types.Pointer:
		return BinarySize(u.Elem())
	case *types.Struct:
		n := 0
		for i := 0; i < u.NumFields(); i++ {
			w := BinarySize(u.Field(i).Type())
			if w <= 0 {
				return -1
			}
			n += w
		}
		if n == 0 {
			return -1
		}
		return n
	case *types.Array:
		if w := BinarySize(u.Elem()); w > 0 {
			return w * int(u.Len())
		}
		return -1
	}
	return SizeOf(t)
}

func constantInt(v constant.Value) (int, bool) {
	k, exact := constant.Int64Val(constant.ToInt(v))
	return int(k), exact
}
