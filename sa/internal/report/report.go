// Package report collects obligations, floors and evidence for one property run.
package report

import (
	"bufio"
	"encoding/json"
	"fmt"
	"os"
	"path/filepath"
	"sort"
	"strings"
	"time"
)

// Ob is one obligation: a rule instance at a named construct.
type Ob struct {
	Rule   string   `json:"rule"`
	Key    string   `json:"key"` // rule/function/construct#ordinal — never a line number
	Pos    string   `json:"pos,omitempty"`
	Desc   string   `json:"desc"`
	OK     bool     `json:"ok"`
	Why    string   `json:"why,omitempty"`
	Detail []string `json:"detail,omitempty"`
	Known  bool     `json:"known_finding,omitempty"`
}

type FloorRec struct {
	Rule  string `json:"rule"`
	Found int    `json:"found"`
	Floor int    `json:"floor"`
}

type Rep struct {
	Prop     string
	Tier     string
	Start    time.Time
	Obs      []Ob
	Floors   []FloorRec
	Analysed map[string]int // what -> count (packages, functions, files…)
	Notes    []string
	Samples  []any
	Trusted  []string
	Assume   []string
	Explain  string
	Extra    map[string]any // additional coverage keys (e.g. exhaustive, programs)
	keys     map[string]int
}

func New(prop, tier string) *Rep {
	return &Rep{Prop: prop, Tier: tier, Start: time.Now(), Analysed: map[string]int{}, keys: map[string]int{}, Extra: map[string]any{}}
}

// Key builds a stable obligation key and numbers repeated constructs in encounter order.
func (r *Rep) Key(rule, fn, construct string) string {
	base := rule + "/" + fn + "/" + construct
	n := r.keys[base]
	r.keys[base] = n + 1
	return fmt.Sprintf("%s#%d", base, n)
}

// Check records an obligation.
func (r *Rep) Check(rule, key, pos, desc string, ok bool, why string, detail ...string) bool {
	r.Obs = append(r.Obs, Ob{Rule: rule, Key: key, Pos: pos, Desc: desc, OK: ok, Why: why, Detail: detail})
	return ok
}

// Fail records a failed obligation (undecided counts as failed).
func (r *Rep) Fail(rule, key, pos, desc, why string, detail ...string) {
	r.Check(rule, key, pos, desc, false, why, detail...)
}

func (r *Rep) Pass(rule, key, pos, desc, why string, detail ...string) {
	r.Check(rule, key, pos, desc, true, why, detail...)
}

// Floor records an instance count against the hand-confirmed floor; below the floor is a failure.
func (r *Rep) Floor(rule string, found, floor int) {
	r.Floors = append(r.Floors, FloorRec{rule, found, floor})
	if found < floor {
		r.Fail(rule, rule+"/floor", "", fmt.Sprintf("instance floor for %s", rule),
			fmt.Sprintf("undecided: found %d instances, floor confirmed by hand is %d (rule would pass vacuously)", found, floor))
	}
}

func (r *Rep) Note(f string, a ...any)  { r.Notes = append(r.Notes, fmt.Sprintf(f, a...)) }
func (r *Rep) Sample(v any)             { r.Samples = append(r.Samples, v) }
func (r *Rep) Count(what string, n int) { r.Analysed[what] += n }
func (r *Rep) Trust(s ...string)        { r.Trusted = append(r.Trusted, s...) }
func (r *Rep) Assumption(s ...string)   { r.Assume = append(r.Assume, s...) }

// Known findings ---------------------------------------------------------------------------

type Known struct {
	Prop, Rule, Construct, Text string
}

// LoadKnown parses KNOWN_FINDINGS.txt ("known: property=.. rule=.. construct=.. text").
func LoadKnown(path string) ([]Known, error) {
	f, err := os.Open(path)
	if err != nil {
		if os.IsNotExist(err) {
			return nil, nil
		}
		return nil, err
	}
	defer f.Close()
	var out []Known
	sc := bufio.NewScanner(f)
	sc.Buffer(make([]byte, 1<<20), 1<<20)
	for sc.Scan() {
		line := strings.TrimSpace(sc.Text())
		if !strings.HasPrefix(line, "known:") {
			continue // "fixed:" lines and comments suppress nothing
		}
		rest := strings.TrimSpace(strings.TrimPrefix(line, "known:"))
		k := Known{}
		for i := 0; i < 3; i++ {
			sp := strings.IndexByte(rest, ' ')
			tok := rest
			if sp >= 0 {
				tok, rest = rest[:sp], strings.TrimSpace(rest[sp+1:])
			} else {
				rest = ""
			}
			switch {
			case strings.HasPrefix(tok, "property="):
				k.Prop = strings.TrimPrefix(tok, "property=")
			case strings.HasPrefix(tok, "rule="):
				k.Rule = strings.TrimPrefix(tok, "rule=")
			case strings.HasPrefix(tok, "construct="):
				k.Construct = strings.TrimPrefix(tok, "construct=")
			}
		}
		k.Text = rest
		if k.Prop != "" && k.Construct != "" {
			out = append(out, k)
		}
	}
	return out, sc.Err()
}

// Violations returns the failed obligations that are not listed as known findings.
func (r *Rep) Violations(known []Known) []Ob {
	kmap := map[string]bool{}
	for _, k := range known {
		if k.Prop == r.Prop {
			kmap[k.Construct] = true
		}
	}
	var out []Ob
	for _, o := range r.Obs {
		if !o.OK && !kmap[o.Key] {
			out = append(out, o)
		}
	}
	return out
}

// Finish marks known findings, prints diagnostics, writes evidence (and replay on violation)
// and returns the process exit code.
func (r *Rep) Finish(verifDir string, known []Known, seed int64) int {
	kmap := map[string]Known{}
	for _, k := range known {
		if k.Prop == r.Prop {
			kmap[k.Construct] = k
		}
	}
	var viol, knownHit []Ob
	discharged := 0
	for i := range r.Obs {
		o := &r.Obs[i]
		if o.OK {
			discharged++
			continue
		}
		if k, ok := kmap[o.Key]; ok {
			o.Known = true
			knownHit = append(knownHit, *o)
			fmt.Printf("KNOWN-FINDING: property=%s %s [%s at %s]\n", r.Prop, k.Text, o.Key, o.Pos)
			continue
		}
		viol = append(viol, *o)
	}
	sort.SliceStable(r.Floors, func(i, j int) bool { return r.Floors[i].Rule < r.Floors[j].Rule })
	wall := time.Since(r.Start).Seconds()

	if r.Assume == nil {
		r.Assume = []string{}
	}
	if r.Trusted == nil {
		r.Trusted = []string{}
	}
	if r.Notes == nil {
		r.Notes = []string{}
	}
	samples := r.Samples
	if len(samples) == 0 {
		for i, o := range r.Obs {
			if i >= 12 {
				break
			}
			samples = append(samples, o)
		}
	}
	cov := map[string]any{
		"explanation":     r.Explain,
		"obligations":     len(r.Obs),
		"discharged":      discharged,
		"known_findings":  len(knownHit),
		"rule_instances":  r.Floors,
		"analysed":        r.Analysed,
		"samples":         samples,
		"trusted_base":    r.Trusted,
		"checker_cmd":     fmt.Sprintf("/verif/bin/wvsa check -p %s -tier %s", r.Prop, r.Tier),
		"notes":           r.Notes,
		"all_obligations": r.Obs,
	}
	for k, v := range r.Extra {
		cov[k] = v
	}
	ev := map[string]any{
		"property_id": r.Prop,
		"tier":        r.Tier,
		"seed":        seed,
		"level":       "other",
		"coverage":    cov,
		"assumptions": r.Assume,
		"wall_s":      wall,
		"violations":  len(viol),
	}
	evDir := filepath.Join(verifDir, "evidence")
	os.MkdirAll(evDir, 0o755)
	writeJSON(filepath.Join(evDir, r.Prop+".json"), ev)

	fmt.Printf("%s tier=%s obligations=%d discharged=%d known=%d violations=%d wall=%.1fs\n",
		r.Prop, r.Tier, len(r.Obs), discharged, len(knownHit), len(viol), wall)
	for _, f := range r.Floors {
		fmt.Printf("  rule %-28s instances=%d floor=%d\n", f.Rule, f.Found, f.Floor)
	}
	if len(viol) == 0 {
		return 0
	}
	rdir := filepath.Join(evDir, "replay")
	os.MkdirAll(rdir, 0o755)
	for i, o := range viol {
		fmt.Printf("DIAG %s: %s\n  rule=%s key=%s\n  %s\n", o.Pos, o.Desc, o.Rule, o.Key, o.Why)
		for _, d := range o.Detail {
			fmt.Printf("    | %s\n", d)
		}
		rp := filepath.Join(rdir, fmt.Sprintf("%s-%d.json", r.Prop, i))
		writeJSON(rp, map[string]any{"property": r.Prop, "tier": r.Tier, "obligation": o})
		fmt.Printf("VIOLATION property=%s replay=%s\n", r.Prop, rp)
	}
	return 1
}

func writeJSON(path string, v any) {
	b, err := json.MarshalIndent(v, "", " ")
	if err != nil {
		fmt.Fprintln(os.Stderr, "evidence marshal:", err)
		return
	}
	if err := os.WriteFile(path, append(b, '\n'), 0o644); err != nil {
		fmt.Fprintln(os.Stderr, "evidence write:", err)
	}
}
