#!/usr/bin/env python3
"""confirmseed.py <ID> <variant> — independently confirm a sub-agent's seeded change in a scratch worktree:
patch applies; existing tests of the affected module still pass; the demonstration passes without and fails with the change.
On success the change is copied to /verif/seeded/<ID><variant>/ with a meta.json."""
import json, os, shutil, subprocess, sys
pid, var = sys.argv[1], sys.argv[2]
src = f"/tmp/wt/out_{pid}/{var}"
meta = json.load(open(f"{src}/meta.json"))
wt = f"/tmp/sv_{pid}{var}"
inplace = len(sys.argv) > 3 and sys.argv[3] == "--inplace"
if inplace:
    # demos that are scratch modules name the agent's worktree in go.mod/replace and helper scripts:
    # reuse that scratch worktree (reset to the pinned HEAD first) instead of a new one
    wt = f"/tmp/wt/{pid}"
env = dict(os.environ, GOFLAGS="-mod=mod", GOPROXY="off", GOSUMDB="off")
def sh(cmd, cwd=None):
    r = subprocess.run(cmd, shell=True, cwd=cwd, env=env, capture_output=True, text=True)
    return r.returncode, (r.stdout + r.stderr)
if inplace:
    rc, out = sh(f"git -C {wt} checkout -q --detach $(git -C /repo rev-parse HEAD) && git -C {wt} checkout -- . && git -C {wt} clean -fdq && git -C {wt} status --porcelain")
    assert rc == 0 and out.strip() == "", out
else:
    sh(f"git -C /repo worktree remove --force {wt}")
    rc, out = sh(f"git -C /repo worktree add -q --detach {wt} HEAD")
    assert rc == 0, out
result = {"property": pid, "variant": var, "summary": meta.get("summary"), "needs_to_manifest": meta.get("needs_to_manifest"), "files_changed": meta.get("files_changed")}
refactor = meta.get("kind") == "refactor"
if refactor:
    result["kind"] = "refactor"
    result["why_behaviour_is_preserved"] = meta.get("why_behaviour_is_preserved")
try:
    demo = meta.get("demo_cmd", "true").replace(f"/tmp/wt/{pid}", wt).replace(f"/tmp/wt/out_{pid}", f"/tmp/wt/out_{pid}")
    rc0, out0 = sh(demo)
    result["demo_without_change"] = "pass" if rc0 == 0 else "FAIL"
    rc, out = sh(f"git -C {wt} apply {src}/patch.diff")
    result["patch_applies"] = rc == 0
    mod = "explorer-backend" if any(f.startswith("explorer-backend") for f in meta.get("files_changed", [])) else "node"
    if mod == "node":
        tcmd = "go test -vet=off -count=1 ./pkg/vaa/ ./pkg/processor/ ./pkg/db/ ./pkg/common/ ./pkg/publicrpc/ ./pkg/reporter/ ./pkg/ecdsasigner/"
    else:
        tcmd = "go test -vet=off -count=1 ./deduplicator/ ./guardiansets/"
    # existing tests must be run without the demo file: remove untracked files first
    rc, out = sh(f"git -C {wt} clean -fdq")
    sh(f"git -C {wt} apply {src}/patch.diff")  # re-apply if clean removed nothing tracked
    rc, out = sh(f"git -C {wt} diff --stat")
    rcT, outT = sh(tcmd, cwd=f"{wt}/{mod}")
    result["existing_tests_with_change"] = "pass" if rcT == 0 else "FAIL: " + outT[-400:]
    rcTy, outTy = sh(f"typecheck {wt}/{mod} ./...")
    result["typechecks"] = rcTy == 0 or "OK" in outTy
    rc1, out1 = sh(demo)
    result["demo_with_change"] = "fail" if rc1 != 0 else "PASS (not demonstrated)"
    msg = [l for l in out1.splitlines() if "FAIL" in l or "Error" in l or "panic" in l or "--- " in l][:6]
    result["demo_failure_excerpt"] = msg
    result["commands"] = [demo, tcmd, f"git apply patch.diff"]
    ok = rc0 == 0 and result["patch_applies"] and rcT == 0 and rc1 != 0
    if refactor:
        for k in ("demo_without_change", "demo_with_change", "demo_failure_excerpt"):
            result.pop(k, None)
        result["commands"] = [tcmd, "typecheck <module> ./...", "git apply patch.diff"]
        ok = result["patch_applies"] and rcT == 0 and bool(result["typechecks"])
    result["confirmed"] = ok
finally:
    if inplace:
        sh(f"git -C {wt} checkout -- . && git -C {wt} clean -fdq")
    else:
        sh(f"git -C /repo worktree remove --force {wt}")
print(json.dumps(result, indent=1)[:1500])
if result.get("confirmed"):
    dst = f"/verif/seeded/{pid}{var}"
    shutil.rmtree(dst, ignore_errors=True)
    os.makedirs(dst)
    shutil.copy(f"{src}/patch.diff", dst)
    if os.path.isdir(f"{src}/demo"):
        shutil.copytree(f"{src}/demo", f"{dst}/demo")
    json.dump(result, open(f"{dst}/meta.json", "w"), indent=1)
    print("KEPT", dst)
else:
    print("NOT KEPT")
