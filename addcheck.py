#!/usr/bin/env python3
"""addcheck.py <id> <text> <note> <technique> — add/replace a claimed check in manifest_table.json and regenerate MANIFEST.json"""
import json, sys, subprocess
pid, text, note, tech = sys.argv[1:5]
T = json.load(open('/verif/manifest_table.json'))
T['checks'] = [c for c in T['checks'] if c['id'] != pid] + [{"id": pid, "text": text, "note": note, "technique": tech}]
T['checks'].sort(key=lambda c: c['id'])
json.dump(T, open('/verif/manifest_table.json', 'w'), indent=1)
subprocess.check_call(['python3', '/verif/gen_manifest.py'])
