#!/usr/bin/env python3
"""Runs the claimed property's quick check (and all other checks with --all) against every kept seeded change (or those whose name matches --only=<regex>),
records the obligation keys that fired in its meta.json, and prints a table. /repo is restored after each."""
import json, os, subprocess, sys, glob
allp = "--all" in sys.argv
import re
only = None
for a in sys.argv[1:]:
    if a.startswith("--only="):
        only = re.compile(a[len("--only="):])
rows = []
from concurrent.futures import ThreadPoolExecutor
def run(p):
    out = subprocess.run(f"/verif/bin/wvsa check -p {p} -no-evidence", shell=True, capture_output=True, text=True).stdout
    return p, [l.split("key=")[1].strip() for l in out.splitlines() if l.strip().startswith("rule=") and "key=" in l]
for d in sorted(glob.glob("/verif/seeded/*/")):
    if only and not only.search(os.path.basename(d.rstrip("/"))):
        continue
    meta = json.load(open(d + "meta.json"))
    pid = meta["property"]
    assert subprocess.run("git -C /repo status --porcelain", shell=True, capture_output=True, text=True).stdout == "", "/repo dirty"
    subprocess.check_call(f"git -C /repo apply {d}patch.diff", shell=True)
    try:
        refactor = meta.get("kind") == "refactor"
        props = [pid] + ([f"C{i:02d}" for i in range(1, 21) if f"C{i:02d}" != pid] if (allp or refactor) else [])
        fired = {}
        with ThreadPoolExecutor(max_workers=10) as ex:
            for p, keys in ex.map(run, props):
                if keys:
                    fired[p] = keys
    finally:
        subprocess.check_call("git -C /repo checkout -- . && git -C /repo clean -fdq", shell=True)
    if meta.get("kind") == "refactor":
        meta["expected"] = "every check stays silent (behaviour is preserved)"
        meta["alarms"] = fired
        meta["silent"] = not fired
    else:
        meta["caught_by"] = fired
        meta["caught_by_claimed_property"] = pid in fired
    json.dump(meta, open(d + "meta.json", "w"), indent=1)
    rows.append((os.path.basename(d.rstrip("/")), pid, pid in fired, sorted(fired.get(pid, []))[:3], [p for p in fired if p != pid]))
for r in rows:
    print(f"{r[0]:6} claimed-check-fires={r[2]!s:5} keys={r[3]} others={r[4]}")
