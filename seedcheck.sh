#!/bin/sh
# usage: seedcheck.sh <patch.diff> [property ids…]   — applies a seeded change to /repo, runs the checks, reverts.
P="$1"; shift
PROPS="$*"
[ -z "$PROPS" ] && PROPS="C01 C02 C03 C04 C05 C06 C07 C08 C09 C10 C11 C12 C13 C14 C15 C16 C17 C18 C19 C20"
cd /repo || exit 2
if [ -n "$(git status --porcelain)" ]; then echo "/repo is not clean"; exit 2; fi
git apply "$P" || { echo "patch does not apply"; exit 2; }
for p in $PROPS; do
  out=$(/verif/bin/wvsa check -p $p -no-evidence 2>&1)
  n=$(printf '%s\n' "$out" | grep -c '^VIOLATION')
  if [ "$n" != "0" ]; then
    echo "== $p: $n violation(s)"
    printf '%s\n' "$out" | grep -A2 '^DIAG' | grep -v '^--' | cut -c1-260 | head -12
  fi
done
git checkout -- . && git clean -fdq
echo "reverted; status: $(git status --porcelain | wc -l) dirty files"
