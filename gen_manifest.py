#!/usr/bin/env python3
"""Regenerates /verif/MANIFEST.json from the table in manifest_table.json."""
import json, sys
T = json.load(open('/verif/manifest_table.json'))
checks = []
for c in T['checks']:
    pid = c['id']
    checks.append({
        "property_id": pid,
        "quick_cmd": f"/verif/check.sh {pid} quick",
        "thorough_cmd": f"/verif/check.sh {pid} thorough",
        "evidence_file": f"/verif/evidence/{pid}.json",
        "replay_cmd_template": "cat {path}",
        "engine": "wvsa",
        "level_claimed": {"category": "other", "text": c['text'], "design_ref": c.get('design_ref', 'DESIGN.md §5 ' + pid)},
        "level_note": c['note'],
        "technique": c['technique'],
    })
claimed = {c['id'] for c in T['checks']}
na = [x for x in T['not_applicable'] if x['property_id'] not in claimed]
M = {
    "version": 1,
    "setup_cmd": "cd /verif/sa && GOFLAGS=-mod=mod GOPROXY=off GOSUMDB=off GOTOOLCHAIN=local GOWORK=off go build -o /verif/bin/wvsa ./cmd/wvsa",
    "hooks": {"guard": "verif", "enable": "none needed: static analysis reads /repo's working tree; no hooks are compiled in",
              "baseline_off_cmd": T['baseline_off_cmd'], "source_commits": [], "add_only": True},
    "engines": [{"name": "wvsa", "path": "/verif/sa", "serves_properties": sorted(claimed),
                 "kind_free_text": "custom Go static analyser: go/packages + go/ssa, cut-edge must-facts, access tables, lock regions, layout extraction, subset parsers for Solidity/Ralph"}],
    "checks": checks,
    "notes": T.get('notes', ''),
    "not_applicable": na,
}
json.dump(M, open('/verif/MANIFEST.json', 'w'), indent=1)
print("wrote MANIFEST.json with", len(checks), "checks;", len(na), "not applicable")
