#!/bin/bash
# runs kept seeds through all checks; usage: refall.sh refactors|bugs [name-regex]
mkdir -p /tmp/r3c
for d in /verif/seeded/C*; do
  n=$(basename $d)
  [ -n "$2" ] && { echo "$n" | grep -Eq "$2" || continue; }
  kind=$(python3 -c "import json;print(json.load(open('$d/meta.json')).get('kind','bug'))")
  case "$1" in
    refactors) [ "$kind" = refactor ] || continue ;;
    bugs) [ "$kind" = refactor ] && continue ;;
  esac
  LINES_PER=40 /verif/seedtools/seedall.sh $d/patch.diff > /tmp/r3c/$n.txt 2>&1
  echo "$n: $(grep '^== ' /tmp/r3c/$n.txt | sed 's/ violation(s)//' | tr '\n' ' ')"
done
