#!/bin/bash
# runs every kept refactor (r*) and every bug (a,b,c) through all checks; prints firing properties
mkdir -p /tmp/r3c
for d in /verif/seeded/C*; do
  n=$(basename $d)
  case "$1" in
    refactors) case $n in *r1|*r2) ;; *) continue;; esac ;;
    bugs) case $n in *r1|*r2) continue;; esac ;;
  esac
  LINES_PER=40 /verif/seedtools/seedall.sh $d/patch.diff > /tmp/r3c/$n.txt 2>&1
  echo "$n: $(grep '^== ' /tmp/r3c/$n.txt | sed 's/ violation(s)//' | tr '\n' ' ')"
done
