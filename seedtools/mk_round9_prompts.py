import json,glob,os,re,sys
props={json.loads(l)['id']:json.loads(l) for l in open('/verif/properties.jsonl')}
T=open('/verif/seedtools/PROMPT_round8.md').read()
# bug-only prompt: cut the refactor parts
for pid in sys.argv[1:]:
    tried=[]
    for d in sorted(glob.glob(f'/verif/seeded/{pid}[a-i]')):
        m=json.load(open(d+'/meta.json'))
        tried.append(' - '+(m.get('summary') or '')[:260].replace('\n',' '))
    t=T.replace('@ID@',pid).replace('@PROP@',json.dumps(props[pid],indent=1)).replace('@TRIED@','\n'.join(tried))
    # strip refactor portions
    t=t.replace('You will produce ONE subtle bug and ONE harmless refactor.','You will produce ONE subtle bug. You have roughly 12 minutes of wall-clock time: pick an idea quickly, keep the demonstration small, and write the deliverables as soon as the demo fails with / passes without the change.')
    t=re.sub(r'Earlier rounds also already made these refactors.*?@REFS@\n','',t,flags=re.S)
    t=t.replace('TASK — two independent source changes, each applying on its own to the pristine tree:','TASK — one source change applying to the pristine tree:')
    t=re.sub(r' \(r9\) variant "r9".*?type-check\.\n','',t,flags=re.S)
    t=re.sub(r'  /tmp/wt/out_%s/r9/patch.diff.*?\n'%pid,'',t)
    t=t.replace('variant "i"','variant "j"').replace(f'out_{pid}/i/',f'out_{pid}/j/').replace(' (i) ',' (j) ')
    t=t.replace('Between variants reset the worktree','At the end reset the worktree')
    t=t.replace('for i, the idea','for j, the idea').replace('; for r9, what was changed and the equivalence argument','')
    open(f'/tmp/wt/prompt9_{pid}.md','w').write(t)
