#!/bin/bash
# usage: seedall.sh <patch.diff>  — apply to /repo, run all 20 checks in parallel, print firing properties+keys, revert.
P="$1"
cd /repo || exit 2
if [ -n "$(git status --porcelain)" ]; then echo "/repo is not clean"; exit 2; fi
git apply "$P" || { echo "patch does not apply"; exit 2; }
tmp=$(mktemp -d)
for i in 01 02 03 04 05 06 07 08 09 10 11 12 13 14 15 16 17 18 19 20; do echo C$i; done | xargs -P 10 -I{} sh -c "/verif/bin/wvsa check -p {} -no-evidence > $tmp/{}.out 2>&1"
for f in $tmp/C*.out; do
  p=$(basename $f .out)
  n=$(grep -c '^VIOLATION' $f)
  if [ "$n" != "0" ]; then
    echo "== $p: $n violation(s)"
    grep -A2 '^DIAG' $f | grep -v '^--' | cut -c1-330 | head -${LINES_PER:-9}
  fi
done
rm -rf $tmp
git checkout -- . && git clean -fdq
echo "reverted; dirty=$(git status --porcelain | wc -l)"
