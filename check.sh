#!/bin/sh
# usage: check.sh <property> [quick|thorough]   — runs one static check against /repo's working tree
export GOFLAGS=-mod=mod GOPROXY=off GOSUMDB=off GOTOOLCHAIN=local GOWORK=off
V=/verif
mkdir -p $V/bin $V/evidence
(
  flock 9
  if [ ! -x $V/bin/wvsa ] || [ -n "$(find $V/sa -name '*.go' -newer $V/bin/wvsa 2>/dev/null | head -1)" ]; then
    (cd $V/sa && go build -o $V/bin/wvsa ./cmd/wvsa) || exit 2
  fi
) 9>$V/bin/.build.lock || exit 2
exec $V/bin/wvsa check -p "$1" -tier "${2:-quick}" -repo /repo -verif $V
