package supervisor

import (
	"context"
	"errors"
	"sync/atomic"
	"testing"
	"time"

	"go.uber.org/zap"
)

// A child signals DONE and takes a while to return. Its parent fails meanwhile. The property
// (C18) says no two instances of a service run at once and that the supervisor keeps going.
func TestDoneChildWithExitLatency(t *testing.T) {
	var running, maxRunning, starts int32
	child := func(ctx context.Context) error {
		n := atomic.AddInt32(&running, 1)
		atomic.AddInt32(&starts, 1)
		for {
			m := atomic.LoadInt32(&maxRunning)
			if n <= m || atomic.CompareAndSwapInt32(&maxRunning, m, n) {
				break
			}
		}
		Signal(ctx, SignalHealthy)
		Signal(ctx, SignalDone)
		time.Sleep(1500 * time.Millisecond) // exit latency after DONE
		atomic.AddInt32(&running, -1)
		return nil
	}
	var parentRuns int32
	parent := func(ctx context.Context) error {
		r := atomic.AddInt32(&parentRuns, 1)
		if err := Run(ctx, "child", child); err != nil {
			return err
		}
		Signal(ctx, SignalHealthy)
		if r == 1 {
			time.Sleep(50 * time.Millisecond)
			return errors.New("parent fails once")
		}
		<-ctx.Done()
		return ctx.Err()
	}
	ctx, cancel := context.WithCancel(context.Background())
	defer cancel()
	panicked := make(chan interface{}, 1)
	logger, _ := zap.NewDevelopment()
	go func() {
		defer func() {
			if r := recover(); r != nil {
				panicked <- r
			}
		}()
		New(ctx, logger, func(ctx context.Context) error {
			if err := Run(ctx, "parent", parent); err != nil {
				return err
			}
			Signal(ctx, SignalHealthy)
			<-ctx.Done()
			return ctx.Err()
		})
	}()
	deadline := time.After(4 * time.Second)
	for {
		select {
		case r := <-panicked:
			t.Fatalf("supervisor panicked: %v", r)
		case <-deadline:
			if m := atomic.LoadInt32(&maxRunning); m > 1 {
				t.Fatalf("%d instances of the same service ran concurrently (starts=%d)", m, atomic.LoadInt32(&starts))
			}
			return
		case <-time.After(20 * time.Millisecond):
			if m := atomic.LoadInt32(&maxRunning); m > 1 {
				t.Fatalf("%d instances of the same service ran concurrently (starts=%d)", m, atomic.LoadInt32(&starts))
			}
		}
	}
}
